"""C19 — The legacy configuration format round-trips an instance.

The per-option translation tables of the model are MEASURED on the code under test when this module is
imported (before ./check builds the proofs): harness/c19_gen.py probes the real writers and the real
Dosini.parse_component and rewrites coq/Dosini/Generated.v; the theorems of coq/Dosini/Tables.v and
Property.v are then re-checked against what the code says now.

Implementation driven (all in-process, real code):
 A. every expressible option x every value of its kind: Dosini._flowir_component_to_dict (the
    _comp_*_to_* writers) and Dosini.parse_component on the written section;
 B. random components mixing options and variables, same functions;
 C. generated instance descriptions: FlowIRConcrete(doc, platform).instance(...) as
    DOSINIExperimentConfiguration does, Dosini.dump(.., is_instance=True) (+ _dump_status/_dump_output, the files
    an instance inherits from its package) to a scratch directory, Dosini.load_from_directory(dir,
    is_instance=True), and the two documents compared through FlowIRConcrete: per component the resolved
    configuration, references and variables; environments, application dependencies, status, output;
 D. the same as C with hostile texts (%, =, :, #, ;, inner blanks, multi-line texts) in values, and, rarely, the texts
    and variable names at the boundary of the guard of theorem C19_text_roundtrip (open findings F19e-F19h);
 G. per group of options (every prefix of the option paths: the options one writer handles together) the subsets of its
    members, same functions as A/B: the options of a group are written and read independently of each other;
 L. the same as C for workflows of 11-21 stages (stage indices of two digits in file names, section names, references,
    `stages` lists of outputs, status sections, stage variables, blueprints; replica counts of two and three digits);
 S. stage indices spelled as text alone (harness/c19_stages.py): _dump_output/parse_output and _dump_status/parse_status on
    arbitrary indices and hand-written texts, against coq/Dosini/Stages.v;
 P. several loads in ONE process: for every backend the code knows (c19_gen.backend_tables: Dosini.options_for_backend
    enumerated on the running code) a component of that backend holding all of its backend options is loaded, then probe
    components (every backend option name as an option or as a variable) are loaded and compared with the model, whose tables
    were measured before anything was loaded; the tables are measured again after the sequences and at the end of the run,
    and one workflow of all backends is round-tripped at the end of the run and in a FRESH process (harness/c19_proc.py);
 E. the environment file alone (harness/c19_envs.py): _dump_experiment_root_conf / environment_to_dict /
    parse_environment_dicts on generated sets of environments (many without variables), application dependencies and virtual
    environments, against coq/Dosini/Envs.v; and the section readers (dosini_to_dict, environment_to_dict) on tables with
    empty sections;
 R. descriptions written into a directory that ALREADY holds the files of one or two earlier descriptions (the same workflow with more
    stages / more components / another platform and other variables, the same one, unrelated short and long ones), instance flavour
    with update_existing True (the loaded description is the LAST one written: full predicate) and False (every file that exists is
    kept, the missing ones are written), package flavour (the re-written directory loads like a directory written once); the
    directory before / after and the files of the same write into an empty directory are compared with coq/Dosini/Rewrite.v (dump_dir);
    C/L/D/R also: variables whose values are YAML scalars of every TYPE (bool, int, float, texts that look like them) at every scope
    (global, stage, both, platform global / stage, component) in half of the workflows, referenced by arguments; the [META] section of
    every written stage file is compared with Rewrite.meta_via_file (typed variables -> str -> text layer);
 W. ONE description OBJECT written several times (the writers are handed the dictionaries of the description, not a copy): every
    component of A/B/G is rendered twice by Dosini._flowir_component_to_dict on one object (the object must stay what it was, the second
    section be the first); components with options set / set to None / absent rendered 1-3 times through _flowir_component_to_dict,
    Dosini.configuration_for_stage (instance and package flavour) and the _comp_*_to_* writers one by one, sections and the object
    afterwards compared with coq/Dosini/Render.v (render_seq: store model of _translate_dict_to_dict); generated workflows whose instance
    (or package) description is rendered one to four times (configuration_for_stage of one / all stages, _flowir_component_to_dict of a
    component, Dosini.dump, _dump_status, _dump_output, _dump_experiment_root_conf into scratch directories) and THE SAME OBJECT is then
    written with Dosini.dump and loaded: full predicate against the description as it was before the first render;
 T. the configparser text layer alone (harness/c19_text.py): tables of sections through the real FlowConfigParser
    (add_section/set/write, read) and hostile raw texts through its reader, against coq/Dosini/Text.v.
The per-component model comparison of C/D goes through both layers (Model.via_file).
"""
import copy
import hashlib
import json
import os
import shutil
import tempfile

import common
from common import cstr, clist, copt, cpair
import c19_gen
import c19_text
import c19_stages
import c19_envs
import c19_proc
from c19_gen import flatten, unflatten, cval

PROP = 'C19'
COQ_DIR = 'Dosini'
ASSUMPTIONS = [
    'the translation tables of the model are regenerated from the code under test at every run (probing of the '
    'writers and of parse_component with typed sentinels); an option whose behaviour fits none of the codecs fails the '
    'generation and is reported as a broken proof obligation',
    'the configparser text layer (file syntax, stripping of surrounding blanks, comment prefixes, continuation lines, '
    'interpolation checks of cfg.set) is modelled (coq/Dosini/Text.v) for byte strings with the ASCII blanks of str.isspace; '
    'non-ASCII texts (Unicode blanks, encodings) are not generated',
    'floats are opaque: plain decimal notation, float(str(x)) == x assumed; int() literals are an optional minus sign '
    'and digits; texts matching the IndexAccess expression (x[0]) are not generated',
    'texts with blanks at the end of a line, lines starting with a comment prefix, carriage returns and variable names that '
    'are not ini keys are outside the guard of C19_text_roundtrip: generated rarely, attributed to the open findings F19e-F19h',
    'option values None (unset) are not written by the format: generated components never override a non-empty default '
    'with None; variables are compared by their text (the format stores text)',
    'instance dumps fold global variables into every stage: variables are compared per component after resolution',
    'an option is expressible in the format when the writers emit it or the reader has an ini key for it; the translation tables '
    'are measured with one option at a time, that the options of a group do not depend on each other is checked by the '
    'correspondence on the subsets of every group (stream G) against the per-option model',
    'the backends and their option tables are enumerated on the code under test (FlowIR.Backends and the string literals of '
    'Dosini.options_for_backend / validate_component); the tables of the model are measured before anything is loaded and measured '
    'again after the sequences of stream P and at the end of the run: they must not change within one process; one workflow is '
    'also loaded in a fresh interpreter (harness/c19_proc.py)',
    'in a status or output entry an empty list (references, stages) and an absent key are the same entry (the consumers read both '
    'with .get(key, [])); environment names are compared ignoring case (FlowIR looks them up lower-cased); environments named like the '
    'reserved section SANDBOX or equal to another one ignoring case are outside the guard of C19_environments_through_file and only '
    'compared with the model (stream E); a stage without components below the last stage is open finding F19i',
    'a variable holding None is no description (FlowIR rejects it): not generated; sequences of writes into one directory are of one '
    'flavour (instance or package) and every earlier write uses update_existing=True; status.conf / output.conf stand for the files an '
    'instance inherits from its package (written by the harness next to Dosini.dump when the write updates the directory or they are '
    'missing); the reference "files of the same write into an empty directory" of an instance is taken in a directory that holds the '
    'variables files already (an instance never rewrites them; the write that creates variables.conf folds the blueprint of a stage '
    'into the variables of the stage, see Rewrite.check_meta_case)',
    'a description object handed to the writers is a tree of dictionaries; Render.v models the dictionaries of one component as ONE object '
    'holding the dotted option paths (a None value is a cell holding None) and the private copy of _translate_dict_to_dict as a new object '
    'of the store; the sequences of renders on one object are generated for one thread (no concurrent renders)',
    'stage indices spelled as text (stage10, STAGE10): int() is modelled for decimal digits (coq/Dosini/Stages.v); a sign, blanks or '
    '_ separators after the word stage are not generated',
]
HEADER = 'Require Import V.Lib.JTree V.Dosini.Codec V.Dosini.Generated V.Dosini.Text V.Dosini.Model.\nOpen Scope string_scope.'

# measured at import time, i.e. before main.py calls ctx.build_proofs()
MEASURED, GEN_ERROR = c19_gen.regenerate(os.path.join(common.COQ, COQ_DIR))

EXIT_REASONS = ['KnownIssue', 'SystemIssue', 'UnknownIssue', 'ResourceExhausted', 'SubmissionFailed', 'ExternalError']
# variables every generated reference points at (defined as global variables of generated workflows)
REF_VARS = {'n': '3', 'Count': '5', 'w': '12.5', 'Wall': '30.0', 'Flag': 'true', 'DoResolve': 'false', 'flag': 'false',
            'doresolve': 'true', 'mem': '2Gi', 'q': 'batch', 'Img': 'repo/img:1'}

POOL = {
    'PStr': ['x', 'bin/run.sh', 'a b  c', '-n %(n)s A:ref', 'Mixed_Case-1.0', '%(q)s', 'TRUE'],
    'PInt': [0, 1, 7, 16, 1000000, -1, '%(n)s', '%(Count)s'],
    'PFloat': [0.0, 2.5, 480.0, 0.125, 7, 60, '%(w)s', '%(Wall)s'],
    'PBool': [True, False, '%(Flag)s', '%(DoResolve)s', '%(flag)s'],
    'PList': [['a'], ['KnownIssue', 'SystemIssue'], ['stage0.A:ref', 'data/f.txt:copy'], []],
    'PMem': ['2Gi', '100Mi', '4096', 2147483648, '%(mem)s'],
}
# values that keep FlowIRConcrete.instance() meaningful for the instance streams
SPECIAL = {
    'resourceManager.config.backend': ['local', 'lsf', 'kubernetes', 'simulator', 'docker'],
    'command.expandArguments': ['none', 'double-quote'],
    'command.interpreter': ['bash', 'javascript'],
    'command.environment': ['envA', 'gpu-env', 'gpu-debug', 'none', 'environment', 'clean', 'clean', 'bare-env'],
    'workflowAttributes.restartHookOn': [['KnownIssue'], ['UnknownIssue', 'SystemIssue'], ['ResourceExhausted', 'KnownIssue']],
    'workflowAttributes.shutdownOn': [['KnownIssue'], ['SystemIssue', 'ExternalError'], []],
    'workflowAttributes.maxRestarts': [-1, 0, 3, 10],
    'workflowAttributes.replicate': [2, 3, '%(n)s'],
    'workflowAttributes.aggregate': [False],
    'workflowAttributes.restartHookFile': ['restart.py', 'hooks/custom_restart.py'],
    'workflowAttributes.memoization.embeddingFunction': ['return md5;', 'f'],
    'executors.pre.lsf-dm-in.payload': ['all', 'data/in.txt'],
    'executors.post.lsf-dm-out.payload': ['all', 'out.txt'],
    'references': [[]],
    'resourceRequest.numberProcesses': [1, 2, 16, '%(n)s'],
    'resourceRequest.numberThreads': [1, 2, 4],
    'resourceRequest.ranksPerNode': [1, 2],
    'resourceRequest.threadsPerCore': [1, 2],
    'resourceManager.kubernetes.gracePeriod': [0, 30, '%(n)s'],
}
# the TYPE of the value of a variable: FlowIR variables are YAML scalars (a variables file layered on a package keeps the YAML type,
# a FlowIR built by a program holds what the program put there); the legacy files store str(value) and a reference %(name)s resolves
# to that text.  Booleans, integers, floats (plain and exponent notation) and texts that look like one of them, at every scope.
# (None is no value of a variable: FlowIR itself rejects the description.)
TYPED_VALUES = [True, False, 0, 4, -1, 1000000, 2.5, 0.05, 1e-05, 1e+22, 'True', 'true', 'False', 'TRUE', '007', '1.0', '1e3', 'None',
                'yes', '']
TYPED_REF_VARS = {'n': 3, 'Count': 5, 'w': 12.5, 'Wall': 30.0, 'Flag': True, 'DoResolve': False, 'flag': False, 'doresolve': True}
SCOPES = ['global', 'stage', 'global+stage', 'platform-global', 'platform-stage', 'component']
BARE_PERCENT = ['50% done', 'date +%Y-%m-%d']
HOSTILE = ['100%%', 'a=b', 'k: v', 'x # not a comment', 'semi;colon', 'a  =  b : c', '[bracket]', 'tab\there',
           'quote "q" \'s\'', 'back\\slash', '%(n)s%%', 'http://h:8080/p?a=b&c=d', '-x=1 --y:2',
           'line one\nline two', 'a\n\nk = v\n[x] # no comment', '#first line may start with a hash\nsecond: line']
# texts and variable names at the boundary of the guard of the text layer (Text.table_ok), by class of open finding
BOUNDARY_TEXTS = {
    'text_line_starts_with_comment_prefix': ['a\n#b\nc', 'set -e\n; note\nrun', 'x\n  # indented comment\ny'],
    'text_with_blank_at_an_end_of_a_line': [' lead', 'trail ', 'a\n', 'a \nb', 'a\n  b', '\tx'],
    'text_with_carriage_return': ['a\rb', 'dos\r\nline'],
}
BOUNDARY_NAMES = ['a:b', 'a=b', '#k', ';k', 'k ']


# backend-specific option names that the format keeps as plain variables of the component (e.g. the sim_* options of the
# simulator): every name Dosini.options_for_backend lists for some backend that is not a key of known_flowir_options()
BACKENDS = MEASURED['backends'] if MEASURED else {}
BACKEND_VARS = sorted(set(n for ns in BACKENDS.values() for n in ns) - set(MEASURED['known'])) if MEASURED else []
BACKEND_VAR_VALUES = ['0', '1:5', '20:40', '2', '24 0', '%(n)s', 'x']
EMPTY_ENVIRONMENTS = ['clean', 'bare-env']


# ------------------------------------------------------------------ helpers
def kinds():
    """{path: (ini key, dcodec, kind of values to try, extras)} for every option the writers emit.  The kind is the
    conversion of the reader's row for the ini key; when the reader has no row for that key (a broken table) the
    values are still generated: by the reader's row for the same path, else by the writer's rendering."""
    by_path = {row[0]: row[1] for row in MEASURED['parse'].values()}
    by_key = {row[0]: k for k, row in sorted(MEASURED['parse'].items(), reverse=True)}
    fallback = {'DStr': 'PStr', 'DLower': 'PBool', 'DBool': 'PBool', 'DJoin': 'PList'}
    out = {}
    for p in MEASURED['paths']:
        if p in MEASURED['dump']:
            ik, dc = MEASURED['dump'][p]
            if ik in MEASURED['parse'] and MEASURED['parse'][ik][0] == p:
                out[p] = (ik, dc, MEASURED['parse'][ik][1], MEASURED['parse'][ik][2])
            else:
                out[p] = (ik, dc, by_path.get(p, fallback[dc]), [])
        elif p in by_key:
            # the reader has an ini key for this option but the writers, probed with this option alone, emit nothing:
            # the format can express it (it is not one of the options without any spelling in the format), so it is
            # generated and expected back like every other option
            out[p] = (by_key[p], 'DStr', by_path[p], [])
    return out


def option_groups():
    """{prefix: [option paths]} for every prefix of the option paths with at least two members: the options one writer
    (_comp_command_to_dict, _comp_executors_to_str, _comp_resource_manager_to_str ...) or one of its branches handles
    together.  Prefixes with the same members are listed once."""
    groups, seen = {}, set()
    by_prefix = {}
    for p in sorted(kinds()):
        ks = p.split('.')
        for i in range(1, len(ks)):
            by_prefix.setdefault('.'.join(ks[:i]), []).append(p)
    for g in sorted(by_prefix):
        m = tuple(by_prefix[g])
        if len(m) >= 2 and m not in seen:
            seen.add(m)
            groups[g] = list(m)
    return groups


def ccomp(opts, variables):
    return '(mkComp %s %s)' % (clist(sorted(opts.items()), lambda kv: '(%s, %s)' % (cstr(kv[0]), cval(kv[1]))),
                               clist(sorted(variables.items()), lambda kv: '(%s, %s)' % (cstr(kv[0]), cstr(str(kv[1])))))


def cini(d):
    return clist(sorted(d.items()), lambda kv: '(%s, %s)' % (cstr(kv[0]), cstr(kv[1])))


def same_value(path, a, b):
    """the property's notion of 'the same option value' (Python equality; memory sizes by their byte count)"""
    import experiment.model.frontends.flowir as F
    if path == 'resourceRequest.memory':
        try:
            return F.FlowIR.memory_to_bytes(str(a)) == F.FlowIR.memory_to_bytes(str(b))
        except Exception:
            return str(a) == str(b)
    if isinstance(a, bool) != isinstance(b, bool):
        return False
    return a == b


def classes_of_component(opts, variables):
    cl = []
    known = set(MEASURED['known']) if MEASURED else set()
    if any(k in known for k in variables):
        cl.append('variable_named_like_an_option')
    return cl


def component_roundtrip(opts, variables, problems=None):
    """real writers + real reader on one component; returns (ini or None, loaded flat opts or None, loaded vars, exc)"""
    import experiment.model.frontends.dosini as D
    import experiment.model.errors as E
    comp = unflatten(opts)
    if variables:
        comp['variables'] = dict(variables)
    # the writers are handed the dictionaries of the description itself (as Dosini.configuration_for_stage hands them the
    # components of the description): ONE object is rendered twice; the object must stay what it was and the second section be the
    # first one (the section of the first render is the one that is loaded and compared with the model)
    snapshot = copy.deepcopy(comp)
    d = D.Dosini._flowir_component_to_dict(comp)
    first = d
    if problems is not None:
        again = D.Dosini._flowir_component_to_dict(comp)
        if comp != snapshot:
            problems.append(('rendering a component in the legacy format modifies the description it is handed [%s]' %
                             changed_member(snapshot, comp), first_diff(snapshot, comp)))
        if first != again:
            problems.append(('the same component object is rendered differently the second time', first_diff(first, again)))
    ini = {k: str(v) for k, v in d.items() if v is not None}
    try:
        back = D.Dosini.parse_component(dict(ini), 'c', 0)
    except E.InvalidValueForConstant as e:
        return ini, None, None, type(e).__name__
    return ini, flatten(back), dict(back.get('variables', {})), None


def explore_components(ctx, cases, tag):
    """cases: list of (opts, variables) or (opts, variables, stream tag).  Predicate + three model comparisons."""
    K = kinds()
    t_case, t_dump, t_parse, keep = [], [], [], []
    default_tag = tag
    for case in cases:
        opts, variables = case[0], case[1]
        tag = case[2] if len(case) > 2 else default_tag
        before = case[3] if len(case) > 3 else []
        for bo, bv in before:
            # loads made in this process just before the observed one (state kept between loads must not matter)
            component_roundtrip(bo, bv)
        problems = []
        ini, out, outvars, exc = component_roundtrip(opts, variables, problems)
        nontrivial = len(opts) + len(variables) >= 1
        ctx.case([tag, sorted((k, repr(v)) for k, v in opts.items()), sorted(variables.items())] +
                 ([[sorted(bo.items()), sorted(bv.items())] for bo, bv in before] if before else []), nontrivial)
        ctx.count('%s_components' % tag)
        for n in variables:
            if n in BACKEND_VARS:
                ctx.count('backend_option_as_variable:' + n)
        for p in opts:
            ctx.count('option:' + p)
        cls = classes_of_component(opts, variables)
        desc = {'stream': tag, 'options': opts, 'variables': variables}
        if before:
            desc['loaded_before'] = [{'options': bo, 'variables': bv} for bo, bv in before]
        # ---- property predicate on the implementation
        for what, detail in problems:
            ctx.fail(dict(desc, difference=detail), what, cls)
        if out is None:
            ctx.fail(desc, 'a written component cannot be loaded again (%s)' % exc, cls)
        else:
            expect = {p: v for p, v in opts.items() if p in K}
            for p in opts:
                if p in K:
                    for ep, ev in K[p][3]:
                        expect.setdefault(ep, ev)
            if expect.get('references') == []:
                del expect['references']
            lost = sorted(set(expect) - set(out))
            extra = sorted(set(out) - set(expect))
            changed = sorted(p for p in expect if p in out and not same_value(p, expect[p], out[p]))
            if lost and lost[0] not in K:
                ctx.fail(desc, 'option %s, which the reader derives from another option of the component, is not read back' % lost[0], cls)
            elif lost and K[lost[0]][0] not in ini:
                ctx.fail(desc, 'option %s is not written although the format spells it %s' % (lost[0], K[lost[0]][0]), cls)
            elif lost:
                ctx.fail(desc, 'option %s is written but not read back' % lost[0], cls)
            if extra:
                ctx.fail(desc, 'option %s appears after the round trip' % extra[0], cls)
            if changed:
                ctx.fail(dict(desc, loaded={p: out[p] for p in changed}),
                         'option %s changes its value in the round trip' % changed[0], cls)
            if {k: str(v) for k, v in variables.items()} != outvars:
                ctx.fail(dict(desc, loaded_variables=outvars), 'the variables of a component change in the round trip', cls)
        # ---- model
        cin = ccomp(opts, variables)
        cout = copt(None if out is None else ccomp(out, outvars))
        t_case.append(cpair(cin, cout))
        t_dump.append(cpair(cin, cini(ini)))
        t_parse.append(cpair(cini(ini), cout))
        keep.append((desc, ini, out))
        if len(opts) > 2:
            ctx.sample({'stream': tag, 'options': opts, 'variables': variables, 'section': ini})
    for terms, chk, name in ((t_dump, 'check_dump', 'C19 writers: Dosini._flowir_component_to_dict vs Dosini.Model.dump_c'),
                             (t_parse, 'check_parse', 'C19 reader: Dosini.parse_component vs Dosini.Model.parse_c'),
                             (t_case, 'check_case', 'C19 component round trip vs Dosini.Model.roundtrip_c')):
        bad = ctx.model_mismatches(HEADER, terms, chk, chunk=250, name='%s_%s' % (default_tag, chk))
        for k, i in enumerate(bad):
            desc, ini, out = keep[i]
            ctx.disagree(desc, {'section': ini, 'loaded': out},
                         ctx.model_eval(HEADER, 'roundtrip_c (fst %s)' % t_case[i])[:600] if k < 2 else '', name)


# ------------------------------------------------------------------ stream W: ONE description object rendered several times
def changed_member(a, b):
    """the top-level member of a dictionary that differs (for the text of a failure)"""
    d = first_diff(a, b) or ''
    return d.lstrip('.').split(':')[0].split(' ')[0].split('.')[0]


def cells_of(comp):
    """component dict -> {dotted path: value or None}: like c19_gen.flatten, but an option holding None is a cell holding None"""
    out = {}

    def rec(d, pre):
        for k, v in d.items():
            p = pre + (str(k),)
            if p[0] in c19_gen.STRUCTURAL and len(p) == 1:
                continue
            if p[0] == 'executors' and len(p) == 2:
                for ex in (v or []):
                    for kk, vv in ex.items():
                        if kk != 'name':
                            out['.'.join(p + (ex.get('name', '?'), kk))] = vv
                continue
            if isinstance(v, dict):
                rec(v, p)
            else:
                out['.'.join(p)] = v
    rec(comp, ())
    return out


def ccells(d):
    return clist(sorted(d.items()), lambda kv: '(%s, %s)' % (cstr(kv[0]), copt(None if kv[1] is None else cval(kv[1]))))


RENDER_ENTRIES = ['component', 'component', 'stage-instance', 'stage-package', 'writers']


def render_sequence_cases(rng, n):
    """(cells {path: value or None}, variables, number of renders, entry point): components whose options are set, set to None
    (about a fifth of the cells of half of the cases) or absent, rendered 1-3 times through Dosini._flowir_component_to_dict, through
    Dosini.configuration_for_stage of a description holding the component (instance and package flavour), or through each
    _comp_*_to_* writer on its own followed by _flowir_component_to_dict"""
    K = kinds()
    paths = sorted(K)
    groups = option_groups()
    cases = []
    # the whole of every group of options (the options one writer handles together), rendered twice: systematic
    for g in sorted(groups):
        cases.append(({p: pick_value(rng, p, K[p][2], False) for p in groups[g]}, {}, 2, RENDER_ENTRIES[len(cases) % len(RENDER_ENTRIES)]))
    for _ in range(n):
        k = rng.choice([1, 2, 3, 5, 8, 12, len(paths)])
        cells = {p: pick_value(rng, p, K[p][2], False) for p in rng.sample(paths, min(k, len(paths)))}
        if rng.random() < 0.5:
            for p in sorted(cells):
                if p != 'references' and rng.random() < 0.2:
                    cells[p] = None
        variables = {}
        for _j in range(rng.choice([0, 0, 1, 2])):
            variables[rng.choice(['george', 'n', 'my-var', 'x.y', 'UPPER'])] = rng.choice(['of the jungle', 3, '2.5', True, 'a b'])
        cases.append((cells, variables, rng.choice([1, 2, 2, 3]), rng.choice(RENDER_ENTRIES)))
    return cases


def render_component(comp, entry):
    """one render of the component OBJECT comp through the given entry point; returns the entries of its section as text"""
    import experiment.model.frontends.dosini as D
    if entry in ('stage-instance', 'stage-package'):
        flowir = {'components': [comp], 'variables': {'default': {'global': {}, 'stages': {}}}}
        cfg = D.Dosini.configuration_for_stage(flowir, comp['stage'], is_instance=(entry == 'stage-instance'))
        return {o: cfg.get(comp['name'], o, raw=True) for o in cfg.options(comp['name'])}
    if entry == 'writers':
        for writer in (D.Dosini._comp_workflow_attributes_to_dict, D.Dosini._comp_command_to_dict, D.Dosini._comp_resource_request_to_dict,
                       D.Dosini._comp_resource_manager_to_str, D.Dosini._comp_executors_to_str):
            writer(comp)
    d = D.Dosini._flowir_component_to_dict(comp)
    return {k: str(v) for k, v in d.items() if v is not None}


def explore_renders(ctx, cases):
    terms, keep = [], []
    for cells, variables, n, entry in cases:
        comp = unflatten(cells)
        if variables:
            comp['variables'] = dict(variables)
        snapshot = copy.deepcopy(comp)
        outs = []
        for _ in range(n):
            try:
                outs.append(render_component(comp, entry))
            except Exception as e:
                outs.append(None)
                exc = '%s: %s' % (type(e).__name__, str(e)[:200])
        after = cells_of(comp)
        desc = {'stream': 'W', 'cells': cells, 'variables': variables, 'renders': n, 'entry': entry}
        ctx.case(['W', sorted((k, repr(v)) for k, v in cells.items()), sorted(variables.items()), n, entry], bool(cells))
        ctx.count('W_components')
        ctx.count('W_entry:' + entry)
        ctx.count('W_renders:%d' % n)
        if any(v is None for v in cells.values()):
            ctx.count('W_with_a_cell_holding_None')
        for p in cells:
            ctx.count('option:' + p) if cells[p] is not None else None
        # ---- predicate: the render is an observation of the description, and repeatable
        if None in outs:
            ctx.fail(dict(desc, error=exc), 'a component cannot be rendered in the legacy format (render %d of the same object)' % (outs.index(None) + 1), [])
        if comp != snapshot:
            ctx.fail(dict(desc, difference=first_diff(snapshot, comp)),
                     'rendering a component in the legacy format modifies the description it is handed [%s]' % changed_member(snapshot, comp), [])
        for k in range(1, n):
            if outs[k] != outs[0]:
                ctx.fail(dict(desc, first=outs[0], again=outs[k]), 'the same component object is rendered differently the second time', [])
                break
        terms.append('(%s, %s, %s, %s, %s)' % (ccells(cells), clist(sorted(variables.items()), lambda kv: '(%s, %s)' % (cstr(kv[0]), cstr(str(kv[1])))),
                                               common.cnat(n), clist(outs, lambda o: copt(None if o is None else cini(o))), ccells(after)))
        keep.append((desc, outs, after))
        if len(cells) > 2 and n > 1:
            ctx.sample(dict(desc, sections=outs), limit=4)
    RH = HEADER.replace('V.Dosini.Model.', 'V.Dosini.Model V.Dosini.Render.')
    bad = ctx.model_mismatches(RH, terms, 'check_render_case', chunk=250, name='W_render')
    for k, i in enumerate(bad):
        desc, outs, after = keep[i]
        ctx.disagree(desc, {'sections': outs, 'cells_afterwards': after}, '',
                     'C19 renders of one description object: Dosini._flowir_component_to_dict / configuration_for_stage vs Dosini.Render.render_seq')


RENDER_OPS = [['all-stages'], ['all-stages'], ['stage', 0], ['stage', 1], ['component', 0], ['component', 1], ['dump'], ['status'], ['output'],
              ['root']]


def apply_renders(obj, ops, is_instance, log):
    """the operations `ops` applied, in turn, to the description OBJECT obj (no copy is made): renders of stages through
    Dosini.configuration_for_stage, of single components through Dosini._flowir_component_to_dict, whole dumps into scratch directories.
    Afterwards obj must be the description it was, and a stage rendered twice must give the same text twice."""
    import experiment.model.frontends.dosini as D
    snapshot = copy.deepcopy(obj)
    stages = sorted(set(c['stage'] for c in obj['components']))
    texts = {}
    tmp = tempfile.mkdtemp(prefix='verif_c19w_')
    try:
        for k, op in enumerate(ops):
            todo = []
            if op[0] == 'all-stages':
                todo = list(stages)
            elif op[0] == 'stage':
                todo = [stages[op[1] % len(stages)]]
            try:
                for st in todo:
                    cfg = D.Dosini.configuration_for_stage(obj, st, is_instance=is_instance)
                    text = {sec: {o: cfg.get(sec, o, raw=True) for o in cfg.options(sec)} for sec in cfg.sections()}
                    if st in texts and texts[st] != text and not any(x[0].startswith('a stage') for x in log):
                        log.append(('a stage of the same description object is rendered differently the second time', first_diff(texts[st], text)))
                    texts.setdefault(st, text)
                if op[0] == 'component':
                    D.Dosini._flowir_component_to_dict(obj['components'][op[1] % len(obj['components'])])
                elif op[0] == 'dump':
                    D.Dosini.dump(obj, os.path.join(tmp, 'd%d' % k), is_instance=is_instance)
                elif op[0] == 'status':
                    os.makedirs(os.path.join(tmp, 's%d' % k))
                    D.Dosini._dump_status(obj, os.path.join(tmp, 's%d' % k))
                elif op[0] == 'output':
                    os.makedirs(os.path.join(tmp, 'o%d' % k))
                    D.Dosini._dump_output(obj, os.path.join(tmp, 'o%d' % k))
                elif op[0] == 'root':
                    D.Dosini._dump_experiment_root_conf(obj, os.path.join(tmp, 'root%d.conf' % k))
            except Exception as e:
                log.append(('a description that can be written cannot be rendered (%s of %s)' % (op[0], type(e).__name__), str(e)[:200]))
            if obj != snapshot and not any(x[0].startswith('rendering') for x in log):
                log.append(('rendering a description in the legacy format (%s) modifies the description it is handed [%s]' % (
                    {'all-stages': 'Dosini.configuration_for_stage', 'stage': 'Dosini.configuration_for_stage',
                     'component': 'Dosini._flowir_component_to_dict', 'dump': 'Dosini.dump', 'status': 'Dosini._dump_status',
                     'output': 'Dosini._dump_output', 'root': 'Dosini._dump_experiment_root_conf'}[op[0]],
                    changed_member(snapshot, obj)), first_diff(snapshot, obj)))
    finally:
        shutil.rmtree(tmp, ignore_errors=True)


def render_then_write_cases(rng, paths, n_instance, n_package):
    """stream W (workflows): a description object is rendered one to four times (RENDER_OPS) and THE SAME OBJECT is then written with
    Dosini.dump and loaded: full round-trip predicate against the description as it was before the first render"""
    out = []
    for i in range(n_instance + n_package):
        package = i >= n_instance
        while True:
            w = gen_doc(rng, rng.sample(paths, 10), long=(rng.random() < 0.08))
            if not classes_of_workflow(w):
                break
        ops = [copy.deepcopy(rng.choice(RENDER_OPS)) for _ in range(rng.choice([1, 1, 2, 3, 4]))]
        w = dict(w, renders=ops)
        if package:
            w['flavour'] = 'package'
        out.append(w)
    return out


# ------------------------------------------------------------------ generators: components
def single_option_cases():
    K = kinds()
    cases = []
    for p in sorted(K):
        pc = K[p][2]
        vals = list(POOL[pc])
        for v in SPECIAL.get(p, []):
            if v not in vals:
                vals.append(v)
        for v in vals:
            cases.append(({p: v}, {}))
    return cases


def backend_option_cases(rng):
    """the options of every backend the code knows (BACKENDS: Dosini.options_for_backend enumerated on the running code): per
    backend and per name one component of that backend that sets it - as the option the reader stores it under when the name is
    a key of the format, as a variable of the component otherwise - plus the name alone (no job-type), plus one component with
    all the names of the backend"""
    K = kinds()
    by_key = {K[p][0]: p for p in K}
    cases = []
    bpath = by_key.get('job-type')
    for b, names in sorted(BACKENDS.items()):
        allo, allv = ({bpath: b} if bpath else {}), {}
        for n in names:
            opts, variables = ({bpath: b} if bpath else {}), {}
            if n in by_key:
                v = pick_value(rng, by_key[n], K[by_key[n]][2], False)
                opts[by_key[n]] = v
                allo[by_key[n]] = copy.deepcopy(v)
            else:
                variables[n] = rng.choice(BACKEND_VAR_VALUES)
                allv[n] = variables[n]
                cases.append(({}, dict(variables)))
            cases.append((opts, variables))
        cases.append((allo, allv))
    return cases


def probe_components(rng):
    """components whose result must not depend on what was loaded before: every backend option name of every backend (as an
    option / as a variable), without a job-type, with a job-type of another backend, and a plain one"""
    K = kinds()
    by_key = {K[p][0]: p for p in K}
    bpath = by_key.get('job-type')
    allv = {n: rng.choice(BACKEND_VAR_VALUES) for n in BACKEND_VARS}
    allo = {}
    for names in BACKENDS.values():
        for n in names:
            if n in by_key:
                allo[by_key[n]] = pick_value(rng, by_key[n], K[by_key[n]][2], False)
    probes = [({}, dict(allv)), (dict(allo), dict(allv, george='of the jungle'))]
    if bpath:
        probes.append(({bpath: 'local', 'command.executable': 'echo'}, dict(allv)))
    if BACKEND_VARS:
        probes.append(({'command.executable': 'echo'}, {rng.choice(BACKEND_VARS): rng.choice(BACKEND_VAR_VALUES), 'v1': '3'}))
    return probes


def sequence_cases(rng):
    """stream P: [a component of backend b with every option of b] loaded first, then each probe component; also job-types that
    do not resolve statically or name no backend"""
    cases = []
    firsts = backend_firsts(rng)
    for first in firsts:
        for po, pv in probe_components(rng):
            cases.append((po, pv, 'P', [first]))
    # all of them, then the probes once more
    for po, pv in probe_components(rng):
        cases.append((po, pv, 'P', list(firsts)))
    return cases


def backend_firsts(rng):
    """one component per backend the code knows, holding every option of that backend; and two whose job-type names no backend"""
    K = kinds()
    by_key = {K[p][0]: p for p in K}
    bpath = by_key.get('job-type')
    firsts = []
    for b, names in sorted(BACKENDS.items()) + [('%(backend)s', []), ('no-such-backend', [])]:
        opts, variables = ({bpath: b} if bpath else {}), {}
        for n in names:
            if n in by_key:
                opts[by_key[n]] = pick_value(rng, by_key[n], K[by_key[n]][2], False)
            else:
                variables[n] = rng.choice(BACKEND_VAR_VALUES)
        firsts.append((opts, variables))
    return firsts


def tables_now(ctx, when, witness):
    """state kept at class/module level between loads must not change what a later load returns: the tables measured again
    (the same probes as at import time) are the tables measured before anything was loaded"""
    try:
        now = c19_gen.measure()
    except c19_gen.GenerationError as e:
        now = {'error': str(e)}
    diff = sorted(k for k in set(now) | set(MEASURED) if now.get(k) != MEASURED.get(k))
    ctx.count('tables_measured_again')
    if diff:
        detail = {}
        for k in diff[:3]:
            a, b = MEASURED.get(k), now.get(k)
            if isinstance(a, list) and isinstance(b, list):
                detail[k] = {'gone': [x for x in a if x not in b][:8], 'new': [x for x in b if x not in a][:8]}
            elif isinstance(a, dict) and isinstance(b, dict):
                detail[k] = {x: [a.get(x), b.get(x)] for x in sorted(set(a) | set(b), key=str) if a.get(x) != b.get(x)}
            else:
                detail[k] = repr(b)[:300]
        ctx.fail(dict(witness, stream='P', when=when, tables_changed=detail),
                 'what the reader/writers do with an option depends on what was loaded before in the same process '
                 '(the tables measured %s differ from the tables measured before anything was loaded: %s)' % (when, ', '.join(diff)), [])
    return not diff


def pick_value(rng, p, pc, instance_safe):
    if instance_safe and p in SPECIAL:
        return copy.deepcopy(rng.choice(SPECIAL[p]))
    if p in SPECIAL and rng.random() < 0.5:
        return copy.deepcopy(rng.choice(SPECIAL[p]))
    return copy.deepcopy(rng.choice(POOL[pc]))


def random_component_cases(rng, n):
    K = kinds()
    paths = sorted(K)
    cases = []
    for _ in range(n):
        k = rng.choice([2, 3, 5, 8, 12, len(paths)])
        chosen = rng.sample(paths, min(k, len(paths)))
        opts = {p: pick_value(rng, p, K[p][2], False) for p in chosen}
        variables = {}
        for _j in range(rng.choice([0, 0, 1, 2, 4])):
            variables[rng.choice(['george', 'n', 'Count', 'my-var', 'x.y', 'UPPER', 'v2', 'sim_range'])] = \
                rng.choice(['of the jungle', 3, '2.5', True, '%(other)s', 'a b', '/abs/path'])   # no cyclic definitions
        if BACKEND_VARS and rng.random() < 0.3:
            for n in rng.sample(BACKEND_VARS, rng.randrange(1, len(BACKEND_VARS) + 1)):
                variables[n] = rng.choice(BACKEND_VAR_VALUES)
        cases.append((opts, variables))
    return cases


def group_subset_cases(rng, thorough=False):
    """stream G: the members of a group of options are independent of each other.  For every group (option_groups): every
    subset of two or more members when the group has at most five; otherwise the whole group, the group without each one of
    its members, every pair (groups of up to eight members; all groups in the thorough tier) and ten random subsets.  The
    single members are stream A."""
    import itertools
    K = kinds()
    cases = []
    for g, members in sorted(option_groups().items()):
        n = len(members)
        subsets = []
        if n <= 5:
            for k in range(2, n + 1):
                subsets.extend(itertools.combinations(members, k))
        else:
            subsets.append(tuple(members))
            subsets.extend(tuple(m for m in members if m != out) for out in members)
            if n <= 8 or thorough:
                subsets.extend(itertools.combinations(members, 2))
            for _ in range(10):
                subsets.append(tuple(sorted(rng.sample(members, rng.randrange(2, n)))))
        for sub in subsets:
            cases.append(({p: pick_value(rng, p, K[p][2], False) for p in sub}, {}))
    return cases


# ------------------------------------------------------------------ generators: instances
def stage_weights(n):
    """n weights with four decimals whose decimal sum is 1 (written with str(), read with float())"""
    from decimal import Decimal
    base = (Decimal(1) / n).quantize(Decimal('0.0001'))
    return [float(base)] * (n - 1) + [float(1 - base * (n - 1))]


def gen_doc(rng, cover, hostile=False, long=False, typed=None):
    """one workflow description; `cover` is a list of option paths that must be used by this workflow.
    long: more than ten stages (indices of two digits in stage file names, section names STAGE10, references to
    stage10.X, `stages` lists of outputs, stage variables, blueprints); most stages hold one tiny component"""
    K = kinds()
    paths = sorted(K)
    groups = option_groups()
    nstages = rng.choice([11, 12, 13, 21]) if long else rng.choice([1, 2, 2, 3])
    # EMPTY members of what the format writes as a section or a list (an environment / a stage / a blueprint / an output / a
    # status entry without content, empty lists): about a third of the workflows hold some
    empties = set()
    if rng.random() < 0.35:
        kinds_of_empty = ['stage-variables', 'blueprint', 'executors', 'component-variables', 'output', 'output-entry',
                          'output-stages', 'status', 'status-entry', 'status-references', 'application-dependencies',
                          'virtual-environments', 'environments']
        empties = set(rng.sample(kinds_of_empty, rng.choice([1, 2, 4])))
    # a stage without components below the last one (open finding F19i): rarely
    hollow = rng.randrange(0, nstages - 1) if nstages >= 2 and not long and rng.random() < 0.04 else None
    rich = set(range(nstages))
    if long:
        rich = {rng.randrange(0, 10), rng.randrange(10, nstages), nstages - 1}
    comps = []
    names = ['A', 'B', 'Gen', 'merge', 'w3', 'Post-1', 'x_y', 'C7']
    todo = list(cover)
    prev = []
    for s in range(nstages):
        for _ in range(0 if s == hollow else rng.choice([1, 1, 2, 3]) if s in rich else 1):
            name = rng.choice([n for n in names if (s, n) not in [(c['stage'], c['name']) for c in comps]])
            chosen = set(rng.sample(paths, rng.choice([0, 2, 4, 7]))) if s in rich else set()
            take = rng.choice([3, 6, 10]) if s in rich else 0
            if groups and rng.random() < 0.35:
                # of one group of options exactly a random part (the options of a group do not depend on each other)
                members = groups[rng.choice(sorted(groups))]
                chosen -= set(members)
                chosen |= set(rng.sample(members, rng.randrange(1, len(members) + 1)))
            chosen |= set(todo[:take])
            todo = todo[take:]
            opts = {}
            for p in sorted(chosen):
                opts[p] = pick_value(rng, p, K[p][2], True)
            opts.setdefault('command.executable', rng.choice(['echo', 'bin/run.sh', 'cat']))
            if hostile:
                for p in list(opts):
                    if K[p][2] == 'PStr' and p not in SPECIAL and rng.random() < 0.6:
                        opts[p] = rng.choice(HOSTILE)
            # a docker executor needs both of its fields to be a valid executor entry; keep what was chosen
            refs = []
            if prev and rng.random() < 0.7:
                ps, pn = rng.choice(prev[-3:] if long and rng.random() < 0.6 else prev)
                refs.append('stage%d.%s:%s' % (ps, pn, rng.choice(['ref', 'copy', 'output'])))
            if rng.random() < 0.3:
                refs.append('data/input.txt:copy')
            if refs or 'references' in opts:
                opts['references'] = refs
                if not refs:
                    del opts['references']
            if 'command.arguments' not in opts and refs and not hostile:
                opts['command.arguments'] = ' '.join(refs)
            comp = unflatten(opts, name=name, stage=s)
            variables = {}
            for _j in range(rng.choice([0, 1, 2])):
                variables[rng.choice(['george', 'v1', 'my-var', 'UPPER', 'x.y'])] = \
                    rng.choice(HOSTILE) if hostile and rng.random() < 0.5 else rng.choice(['of the jungle', 3, '2.5', '%(n)s', 'a b'])
            if BACKEND_VARS and rng.random() < 0.25:
                # options of some backend that the format keeps as variables (sim_* of the simulator)
                for n in rng.sample(BACKEND_VARS, rng.randrange(1, len(BACKEND_VARS) + 1)):
                    variables[n] = rng.choice(BACKEND_VAR_VALUES)
            if variables or ('component-variables' in empties and rng.random() < 0.5):
                comp['variables'] = variables
            if 'executors' in empties and 'executors' not in comp and rng.random() < 0.5:
                comp['executors'] = rng.choice([{'pre': [], 'main': [], 'post': []}, {'main': []}, {}])
            comps.append(comp)
            prev.append((s, name))
    # replication: an aggregating consumer of a replicated producer
    if rng.random() < 0.4 and nstages >= 2:
        first = comps[0]
        first.setdefault('workflowAttributes', {})['replicate'] = rng.choice([10, 12, 101] if long else [2, 3, 11])
        src = 'stage%d.%s:ref' % (first['stage'], first['name'])
        comps.append({'name': 'Agg', 'stage': nstages - 1, 'command': {'executable': 'cat', 'arguments': src},
                      'references': [src], 'workflowAttributes': {'aggregate': True}})
    if not hostile and rng.random() < 0.06:
        comps[-1].setdefault('workflowAttributes', {})['restartHookOn'] = []
    gvars = dict(REF_VARS)
    if hostile and rng.random() < 0.12:
        # one text or one variable name outside the guard of the text layer
        victim = rng.choice(comps)
        if rng.random() < 0.75:
            text = rng.choice(BOUNDARY_TEXTS[rng.choice(sorted(BOUNDARY_TEXTS))])
            if rng.random() < 0.5:
                victim.setdefault('command', {})['arguments'] = text
            else:
                victim.setdefault('variables', {})['edge'] = text
        else:
            victim.setdefault('variables', {})[rng.choice(BOUNDARY_NAMES)] = 'v'
    if hostile:
        gvars['hostile'] = rng.choice(HOSTILE)
        r = rng.random()
        if r < 0.2:
            comps[0].setdefault('command', {})['arguments'] = rng.choice(BARE_PERCENT)

    doc = {'components': comps,
           'variables': {'default': {'global': gvars,
                                     'stages': {s: {'stagevar%d' % s: 'S%d' % s, 'n': str(2 + s)} for s in range(nstages)
                                                if rng.random() < 0.6 or (long and s >= 10)}}},
           'environments': {'default': {}}, 'platforms': ['default']}
    if 'stage-variables' in empties:
        for s in rng.sample(range(nstages), rng.randrange(1, nstages + 1)):
            doc['variables']['default']['stages'][s] = {}
    envs = doc['environments']['default']
    # environments that define NO variable (a component that selects one runs with the variables Flow injects only: not the
    # same as an undefined environment, nor as the default one); with 'environments' in empties: nothing but those
    for en in EMPTY_ENVIRONMENTS:
        if rng.random() < (0.45 if en == 'clean' else 0.15) or 'environments' in empties:
            envs[en] = {}
            if rng.random() < 0.5:
                rng.choice(comps).setdefault('command', {})['environment'] = en
    # environment names may hold hyphens (section ENV-GPU-ENV) and share their first token
    for en in ['envA', 'gpu-env', 'gpu-debug']:
        if rng.random() < 0.7 and 'environments' not in empties:
            envs[en] = {'PATH': '/opt/bin:$PATH', 'OMP_NUM_THREADS': rng.choice(['1', '4']), 'DEFAULTS': 'PATH:LD_LIBRARY_PATH'}
            if hostile:
                envs[en]['HOSTILE'] = rng.choice(HOSTILE)
    if rng.random() < 0.5:
        doc['application-dependencies'] = {'default': rng.choice([['App.application'], ['a.application', 'b.application']])}
    if rng.random() < 0.4:
        doc['virtual-environments'] = {'default': ['venvs/one']}
    if 'application-dependencies' in empties:
        doc['application-dependencies'] = rng.choice([{'default': []}, {}])
    if 'virtual-environments' in empties:
        doc['virtual-environments'] = rng.choice([{'default': []}, {}])
    if rng.random() < 0.5:
        doc['platforms'] = ['default', 'plat']
        doc['variables']['plat'] = {'global': {'q': 'platq', 'extra': 'E'}, 'stages': {0: {'n': '7'}}}
        if long:
            doc['variables']['plat']['stages'][rng.randrange(10, nstages)] = {'n': '70', 'platvar': 'P'}
        doc['environments']['plat'] = {'envA': {'PATH': '/plat/bin:$PATH'}}
        if rng.random() < 0.4:
            # an environment that the platform empties / defines empty
            doc['environments']['plat'][rng.choice(['envA', 'clean', 'plat-only'])] = {}
    if rng.random() < 0.4:
        doc['blueprint'] = {'default': {'global': {'resourceManager': {'config': {'walltime': 480.0}, 'lsf': {'statusRequestInterval': 60}}},
                                        'stages': {0: {'command': {'environment': 'envA'}}}}}
        if long:
            doc['blueprint']['default']['stages'][rng.randrange(10, nstages)] = {'resourceRequest': {'numberThreads': 2}}
    if 'blueprint' in empties:
        if 'blueprint' in doc:
            doc['blueprint']['default']['stages'][rng.randrange(nstages)] = rng.choice([{}, {'command': {}}, {'executors': {'main': []}}])
        else:
            doc['blueprint'] = rng.choice([{}, {'default': {}}, {'default': {'global': {}, 'stages': {}}},
                                           {'default': {'global': {}, 'stages': {rng.randrange(nstages): {}}}}])
    if rng.random() < 0.7 or long:
        # weights with up to four decimals (they are written with str() and read back with float())
        ws = rng.choice({1: [[1.0]], 2: [[0.25, 0.75], [0.125, 0.875], [0.3333, 0.6667]],
                         3: [[0.5, 0.25, 0.25], [0.125, 0.375, 0.5], [0.005, 0.045, 0.95]]}.get(nstages, [stage_weights(nstages)]))
        doc['status-report'] = {s: {'stage-weight': ws[s]} for s in range(nstages)}
        if long:
            late = rng.choice([c for c in comps if c['stage'] >= 10])
            doc['status-report'][late['stage']].update({'executable': 'bin/late.sh', 'arguments': '%s:ref' % late['name'],
                                                        'references': ['%s:ref' % late['name']]})
        if rng.random() < 0.5 and comps[0]['stage'] == 0:
            doc['status-report'][0].update({'executable': 'bin/progress.sh', 'arguments': '-x %s:ref' % comps[0]['name'],
                                            'references': ['%s:ref' % comps[0]['name']]})
        if 'status-references' in empties:
            doc['status-report'][rng.randrange(nstages)].update({'executable': 'bin/idle.sh', 'arguments': '', 'references': []})
    if 'status' in empties and not long:
        doc['status-report'] = {}
    elif 'status-entry' in empties and not long:
        # entries without content: all of them, or all but one
        keep = rng.choice([None] + list(range(nstages)))
        doc['status-report'] = {s: ({'stage-weight': 1.0} if s == keep else {}) for s in range(nstages)}
    if rng.random() < 0.7 or long:
        last = comps[-1]
        doc['output'] = {'Result': {'data-in': 'stage%d.%s/out.csv:copy' % (last['stage'], last['name']),
                                    'description': '"the result"', 'type': 'csv', 'stages': [last['stage']]}}
        if rng.random() < 0.4:
            doc['output']['Log'] = {'data-in': '%s/log.txt:ref' % comps[0]['name'], 'stages': [0, nstages - 1]}
        if long:
            # the same file produced by several stages, named by indices of one and of two digits
            some = sorted(set(rng.sample(range(nstages), 3)) | {rng.randrange(10, nstages)})
            doc['output']['Checkpoints'] = {'data-in': 'checkpoint.tar:copy', 'type': 'tar', 'stages': some}
    if 'output' in empties and not long:
        doc['output'] = {}
    if 'output-entry' in empties:
        doc.setdefault('output', {})['Nothing'] = {}
    if 'output-stages' in empties:
        doc.setdefault('output', {})['Anywhere'] = {'data-in': 'stage%d.%s/any.txt:copy' % (comps[-1]['stage'], comps[-1]['name']), 'stages': []}
    if typed is None:
        typed = rng.random() < 0.5
    if typed:
        add_typed_variables(rng, doc, rng.sample(SCOPES, rng.choice([1, 2, 3, len(SCOPES)])))
    platform = 'plat' if 'plat' in doc['platforms'] and rng.random() < 0.6 else 'default'
    return {'doc': doc, 'platform': platform}


def add_typed_variables(rng, doc, scopes, retype=None):
    """variables whose values are YAML scalars of every type at the given scopes, each referenced by the arguments of a component that
    sees it; `retype`: the variables every generated reference points at (REF_VARS) hold typed values instead of texts"""
    comps = doc['components']
    dv = doc['variables']['default']
    dv.setdefault('stages', {})

    def tval():
        return copy.deepcopy(rng.choice(TYPED_VALUES))

    def use(comp, name):
        cmd = comp.setdefault('command', {})
        a = cmd.get('arguments')
        ref = '--%s=%%(%s)s' % (name, name)
        cmd['arguments'] = '%s %s' % (a, ref) if isinstance(a, str) and a else ref

    if retype is None:
        retype = rng.random() < 0.5
    if retype:
        for k in sorted(TYPED_REF_VARS):
            if k in dv['global'] and rng.random() < 0.8:
                dv['global'][k] = TYPED_REF_VARS[k]
    for sc in scopes:
        comp = rng.choice(comps)
        st = comp['stage']
        if sc == 'global':
            dv['global']['tv_g'] = tval()
            use(comp, 'tv_g')
        elif sc == 'stage':
            dv['stages'].setdefault(st, {})['tv_s'] = tval()
            use(comp, 'tv_s')
        elif sc == 'global+stage':
            dv['global']['tv_gs'] = tval()
            dv['stages'].setdefault(st, {})['tv_gs'] = tval()
            use(comp, 'tv_gs')
            use(rng.choice(comps), 'tv_gs')
        elif sc in ('platform-global', 'platform-stage'):
            if 'plat' not in doc['platforms']:
                continue
            dv['global']['tv_p'] = tval()
            pv = doc['variables'].setdefault('plat', {})
            if sc == 'platform-global':
                pv.setdefault('global', {})['tv_p'] = tval()
            else:
                pv.setdefault('stages', {}).setdefault(st, {})['tv_p'] = tval()
            use(comp, 'tv_p')
        elif sc == 'component':
            comp.setdefault('variables', {})['tv_c'] = tval()
            use(comp, 'tv_c')
    return doc


def norm_vars(d):
    return {str(k): str(v) for k, v in (d or {}).items()}


def listing(conf):
    """{relative file name: digest of its content} of a configuration directory"""
    out = {}
    for root, _ds, fs in os.walk(conf):
        for f in fs:
            p = os.path.join(root, f)
            out[os.path.relpath(p, conf).replace(os.sep, '/')] = hashlib.md5(open(p, 'rb').read()).hexdigest()[:12]
    return out


def write_description(w, conf, update_existing=True, log=None):
    """one write of a description into a configuration directory, as DOSINIExperimentConfiguration does it for an instance
    (FlowIRConcrete.instance + Dosini.dump(is_instance=True); status.conf / output.conf stand for the files the instance inherits from
    its package: written when the write updates the directory or they are missing); flavour 'package': Dosini.dump of the raw
    description with is_instance=False.  Returns the description handed to Dosini.dump."""
    import experiment.model.frontends.dosini as D
    import experiment.model.frontends.flowir as F
    concrete = F.FlowIRConcrete(copy.deepcopy(w['doc']), w['platform'], {})
    if w.get('flavour') == 'package':
        raw = concrete.raw()
        if w.get('renders'):
            expected = copy.deepcopy(raw)
            apply_renders(raw, w['renders'], False, log if log is not None else [])
            D.Dosini.dump(raw, conf, is_instance=False, update_existing=update_existing)
            return expected
        D.Dosini.dump(copy.deepcopy(raw), conf, is_instance=False, update_existing=update_existing)
        return raw
    inst = concrete.instance(ignore_errors=True, inject_missing_fields=False, fill_in_all=False, is_primitive=True)
    if w.get('renders'):
        # the description object is rendered, then THE SAME OBJECT is written (no copy anywhere); what is returned - what the load
        # is compared with - is the description as it was before the first render
        expected = copy.deepcopy(inst)
        apply_renders(inst, w['renders'], True, log if log is not None else [])
        D.Dosini.dump(inst, conf, is_instance=True, update_existing=update_existing)
        D.Dosini._dump_status(inst, conf)
        D.Dosini._dump_output(inst, conf)
        if inst != expected and log is not None and not any(x[0].startswith('rendering') for x in log):
            log.append(('writing a description in the legacy format (Dosini.dump) modifies the description it is handed [%s]' %
                        changed_member(expected, inst), first_diff(expected, inst)))
        return expected
    D.Dosini.dump(copy.deepcopy(inst), conf, is_instance=True, update_existing=update_existing)
    if update_existing or not os.path.exists(os.path.join(conf, 'status.conf')):
        D.Dosini._dump_status(copy.deepcopy(inst), conf)
    if update_existing or not os.path.exists(os.path.join(conf, 'output.conf')):
        D.Dosini._dump_output(copy.deepcopy(inst), conf)
    return inst


def read_meta_sections(conf):
    """{stage index: entries of [META] as the loader reads them (raw), None when the stage file has no such section}"""
    import experiment.model.frontends.dosini as D
    out = {}
    for stage, path in D.Dosini._discover_stages(conf, True).items():
        cfg = D.FlowConfigParser()
        cfg.read([path])
        out[stage] = ({o: cfg.get(D.STAGE_META_SECTION, o, raw=True) for o in cfg.options(D.STAGE_META_SECTION)}
                      if cfg.has_section(D.STAGE_META_SECTION) else None)
    return out


def instance_roundtrip(w):
    """returns dict(inst=, loaded=, error=) — real FlowIRConcrete.instance, Dosini.dump, Dosini.load_from_directory.
    w['before']: descriptions written, in turn, into the SAME directory before w is (each with update_existing=True);
    w['update_existing']: the flag of the last write (default True)."""
    import experiment.model.frontends.dosini as D
    tmp = tempfile.mkdtemp(prefix='verif_c19_')
    package = w.get('flavour') == 'package'
    update = w.get('update_existing', True)
    try:
        conf = os.path.join(tmp, 'conf')
        ret = {}
        for b in w.get('before', []):
            try:
                write_description(dict(b, flavour=w.get('flavour')), conf, True)
            except Exception:
                pass    # whatever the directory holds now is what the last write finds
        sequence = bool(w.get('before')) or not update or package
        if sequence:
            ret['dir_before'] = listing(conf)
            fresh = os.path.join(tmp, 'fresh')
            if not package:
                # an instance never rewrites a variables file, and the write that does write one folds the blueprint of a stage into
                # the variables of the stage (see explore_instances): the reference directory holds the variables files already
                for f in ret['dir_before']:
                    if f == 'variables.conf' or f.startswith('variables.d/'):
                        os.makedirs(os.path.dirname(os.path.join(fresh, f)), exist_ok=True)
                        shutil.copy(os.path.join(conf, f), os.path.join(fresh, f))
            try:
                # the reference: the same description written ONCE, without any render before
                write_description(dict(w, renders=None), fresh, update)
                ret['dir_fresh'] = listing(fresh)
                if package:
                    ret['loaded_fresh'] = D.Dosini.load_from_directory(fresh, [], {}, is_instance=False, out_errors=[])
            except Exception as e:
                ret['dir_fresh'] = None
        inst = None
        ret['render_problems'] = []
        try:
            inst = write_description(w, conf, update, ret['render_problems'])
        except Exception as e:
            return dict(ret, inst=inst, loaded=None, error='dump: %s' % type(e).__name__, detail=str(e)[:300])
        if sequence:
            ret['dir_after'] = listing(conf)
        try:
            errs = []
            loaded = D.Dosini.load_from_directory(conf, [], {}, is_instance=not package, out_errors=errs)
            if not package:
                ret['meta'] = read_meta_sections(conf)
        except Exception as e:
            return dict(ret, inst=inst, loaded=None, error='load: %s' % type(e).__name__, detail=str(e)[:300])
        return dict(ret, inst=inst, loaded=loaded, error=None, load_errors=[type(e).__name__ for e in errs])
    finally:
        shutil.rmtree(tmp, ignore_errors=True)


# ---- the directory over a sequence of writes: Python mirror of Rewrite.dump_dir (the predicate; the model is compared inside Coq)
def _is_stage(f):
    return f.startswith('stages.d/stage') and f.endswith('.conf')


def cleaned(is_instance, f):
    if is_instance:
        return _is_stage(f) and f.endswith('.instance.conf')
    return ((_is_stage(f) and not f.endswith('.instance.conf')) or
            (f.startswith('experiment') and f.endswith('.conf') and '/' not in f) or
            (f.startswith('variables.d/') and f.endswith('.conf')))


def reads(is_instance, f):
    if is_instance:
        return f in ('experiment.instance.conf', 'output.conf', 'status.conf') or cleaned(True, f)
    return (f in ('variables.conf', 'output.conf', 'status.conf') or (cleaned(False, f) and f != 'experiment.instance.conf'))


def expected_dir(is_instance, update, old, fresh):
    if not update:
        return dict(fresh, **old)
    out = {f: c for f, c in old.items() if not cleaned(is_instance, f)}
    for f, c in fresh.items():
        if not (is_instance and f in out and (f == 'variables.conf' or f.startswith('variables.d/'))):
            out[f] = c
    return out


def cdir(d):
    return clist(sorted(d.items()), lambda kv: '(%s, %s)' % (cstr(kv[0]), cstr(kv[1])))


def ctvars(d):
    return clist(sorted((str(k), v) for k, v in (d or {}).items()), lambda kv: '(%s, %s)' % (cstr(kv[0]), cval(kv[1])))


def observe(flowir):
    """what the property compares, through FlowIRConcrete of the default platform"""
    import experiment.model.frontends.flowir as F
    c = F.FlowIRConcrete(copy.deepcopy(flowir), 'default', {})
    obs = {'components': {}}
    for cid in sorted(c.get_component_identifiers(True)):
        try:
            cfg = c.get_component_configuration(cid, raw=False, include_default=True, is_primitive=True,
                                                ignore_convert_errors=True)
            cfg = copy.deepcopy(cfg)
            cfg['variables'] = norm_vars(cfg.get('variables'))
            merged = norm_vars(c.get_component_variables(cid))
        except Exception as e:
            cfg, merged = 'EXC ' + type(e).__name__, None
        # the environment the component runs in: an environment without variables is not an undefined one
        try:
            en = cfg['command'].get('environment') if isinstance(cfg, dict) else None
            env = None if en is None else c.get_environment(en)
        except Exception as e:
            env = 'EXC ' + type(e).__name__
        obs['components']['stage%d.%s' % cid] = {'configuration': cfg, 'all_variables': merged, 'environment': env}
    envs = c.get_environments()
    obs['environments'] = {str(k).lower(): v for k, v in envs.items()}
    obs['application-dependencies'] = c.get_application_dependencies()
    obs['virtual-environments'] = c.get_virtual_environments()
    # a key holding None and an absent key are the same section entry
    # (and so are an empty list - no references, no `stages` - and an absent one: the consumers read both with .get(key, []))
    obs['status'] = {k: {a: b for a, b in v.items() if b is not None and b != []} for k, v in c.get_status().items()}
    obs['output'] = {k: {a: b for a, b in v.items() if b is not None and b != []} for k, v in c.get_output().items()}
    return obs


def first_diff(a, b, pre=''):
    if isinstance(a, dict) and isinstance(b, dict):
        for k in sorted(set(a) | set(b), key=str):
            if k not in a or k not in b:
                return '%s.%s only on one side' % (pre, k)
            d = first_diff(a[k], b[k], '%s.%s' % (pre, k))
            if d:
                return d
        return None
    if a != b:
        return '%s: %r -> %r' % (pre, a, b)
    return None


def bare_percent(x):
    """some text of x contains a '%' that is neither '%%' nor the start of a '%(name)s' reference"""
    import re
    if isinstance(x, dict):
        return any(bare_percent(k) or bare_percent(v) for k, v in x.items())
    if isinstance(x, (list, tuple)):
        return any(bare_percent(v) for v in x)
    if isinstance(x, str):
        t = x.replace('%%', '')
        t = re.sub(r'%\(([^)]+)\)s', '', t)
        return '%' in t
    return False


def text_classes(doc):
    """classes of the texts and variable names of a workflow that are outside the guard of the configparser text layer
    (mirror of Text.value_ok / Text.key_ok, clause by clause)"""
    WS = c19_text.WS
    cl = set()

    def text(v):
        if not isinstance(v, str):
            return
        if '\r' in v:
            # the file cannot be loaded at all: nothing else of this text is observed
            cl.add('text_with_carriage_return')
            return
        ls = v.split('\n')
        if any(l.strip(WS).startswith(('#', ';')) for l in ls[1:]):
            cl.add('text_line_starts_with_comment_prefix')
        if any(l != l.strip(WS) for l in ls) or v != v.rstrip(WS):
            cl.add('text_with_blank_at_an_end_of_a_line')

    def walk(x):
        if isinstance(x, dict):
            for k, v in x.items():
                walk(v)
        elif isinstance(x, (list, tuple)):
            for v in x:
                walk(v)
        else:
            text(x)

    def names(d):
        for k in (d or {}):
            if not c19_text.key_ok(str(k)):
                cl.add('variable_name_not_an_ini_key')

    walk(doc)
    for c in doc.get('components', []):
        names(c.get('variables'))
    for plat in doc.get('variables', {}).values():
        names(plat.get('global'))
        for sv in (plat.get('stages') or {}).values():
            names(sv)
    for plat in doc.get('environments', {}).values():
        for env in (plat or {}).values():
            names(env)
    # a file that cannot be loaded hides every other difference
    return sorted(cl, key=lambda c: (c != 'text_with_carriage_return', c))


def classes_of_workflow(w):
    cl = []
    if bare_percent(w['doc']):
        cl.append('text_with_bare_percent')
    for c in w['doc']['components']:
        if c.get('workflowAttributes', {}).get('restartHookOn') == []:
            cl.append('restart_hook_on_emptied')
    cl.extend(text_classes(w['doc']))
    known = set(MEASURED['known']) if MEASURED else set()
    doc = w['doc']
    used = set(c['stage'] for c in doc['components'])
    if used and used != set(range(max(used) + 1)):
        cl.append('stage_without_components')
    names = set()
    for c in doc['components']:
        names |= set(c.get('variables', {}))
    for plat in doc.get('variables', {}).values():
        names |= set(plat.get('global', {}))
        for sv in plat.get('stages', {}).values():
            names |= set(sv)
    if names & known:
        cl.append('variable_named_like_an_option')
    # attribution follows what is observed first: a file that cannot be written, then one that cannot be loaded
    first = ['text_with_bare_percent', 'stage_without_components', 'text_with_carriage_return']
    return sorted(cl, key=lambda c: first.index(c) if c in first else len(first))


def empty_members(doc):
    """which kinds of EMPTY members a workflow holds (for the histogram of the run)"""
    out = set()
    for plat, envs in (doc.get('environments') or {}).items():
        for en, e in (envs or {}).items():
            if not e:
                out.add('environment')
                if any(c.get('command', {}).get('environment') == en for c in doc['components']):
                    out.add('environment-selected-by-a-component')
    for plat in (doc.get('variables') or {}).values():
        if any(not v for v in (plat.get('stages') or {}).values()):
            out.add('stage-variables')
    bp = doc.get('blueprint')
    if bp is not None and (not bp or any(not p or not p.get('global', True) or any(not b for b in (p.get('stages') or {}).values())
                                         for p in bp.values())):
        out.add('blueprint')
    for c in doc['components']:
        if c.get('variables') == {}:
            out.add('component-variables')
        if 'executors' in c and (not c['executors'] or any(not v for v in c['executors'].values())):
            out.add('executors')
        if c.get('references') == []:
            out.add('references')
    for sec in ('output', 'status-report', 'application-dependencies', 'virtual-environments'):
        if sec in doc and not doc[sec]:
            out.add(sec)
        elif sec in doc and any(not v for v in doc[sec].values()):
            out.add(sec + '-entry')
    if any(e.get('stages') == [] for e in (doc.get('output') or {}).values()):
        out.add('output-stages')
    if any(e.get('references') == [] for e in (doc.get('status-report') or {}).values()):
        out.add('status-references')
    used = set(c['stage'] for c in doc['components'])
    if used and used != set(range(max(used) + 1)):
        out.add('stage-without-components')
    return sorted(out)


def typed_scopes(doc):
    """the scopes at which a workflow holds a variable whose value is not text"""
    def typed(d):
        return any(not isinstance(v, str) for v in (d or {}).values())
    out = set()
    for plat, pv in (doc.get('variables') or {}).items():
        pre = '' if plat == 'default' else 'platform-'
        if typed(pv.get('global')):
            out.add(pre + 'global')
        if any(typed(sv) for sv in (pv.get('stages') or {}).values()):
            out.add(pre + 'stage')
    if any(typed(c.get('variables')) for c in doc['components']):
        out.add('component')
    return sorted(out)


def earlier_version(rng, w, relation):
    """a description that was written into the directory before w: w with MORE stages (its last components moved to / new components in
    later stages), with more components in its stages, with another platform and other variables, the same one, or an unrelated one"""
    doc = copy.deepcopy(w['doc'])
    comps = doc['components']
    nst = max(c['stage'] for c in comps) + 1
    if relation == 'more-stages':
        extra = rng.choice([1, 1, 2, 10])
        if len(comps) >= 2 and rng.random() < 0.5:
            # the last component lived in a stage of its own
            comps[-1]['stage'] = nst
            comps[-1].pop('references', None)
            extra -= 1
            nst += 1
        for k in range(extra):
            comps.append({'name': 'Old%d' % k, 'stage': nst + k, 'command': {'executable': 'echo', 'arguments': 'old %(n)s'},
                          'variables': {'was': 'here'}})
            doc['variables']['default'].setdefault('stages', {})[nst + k] = {'oldvar': 'O%d' % k}
    elif relation == 'more-components':
        for k in range(rng.choice([1, 2, 3])):
            comps.append({'name': 'Old%d' % k, 'stage': rng.randrange(nst), 'command': {'executable': 'echo', 'arguments': 'old'}})
        doc['variables']['default']['global']['oldglobal'] = 'G'
    elif relation == 'other-platform':
        doc['platforms'] = sorted(set(doc['platforms']) | {'oldplat'})
        doc['variables']['oldplat'] = {'global': {'q': 'oldq', 'n': '9'}, 'stages': {0: {'n': '8'}}}
        doc['environments']['oldplat'] = {'oldenv': {'OLD': '1'}}
        doc['environments']['default']['oldenv'] = {'OLD': '0'}
        doc['variables']['default']['global']['oldglobal'] = 'G'
        doc.pop('output', None)
    elif relation == 'same':
        pass
    return {'doc': doc, 'platform': w['platform'] if relation != 'other-platform' or rng.random() < 0.5 else 'oldplat'}


RELATIONS = ['more-stages', 'more-stages', 'more-components', 'other-platform', 'same', 'other', 'other-long']


def rewrite_cases(rng, paths, n_instance, n_package):
    """stream R: descriptions written into a directory that ALREADY holds the files of one or two earlier descriptions"""
    out = []
    for i in range(n_instance + n_package):
        package = i >= n_instance
        while True:
            w = gen_doc(rng, rng.sample(paths, 6), long=(rng.random() < 0.1))
            if not (package and classes_of_workflow(w)):
                break
        rel = RELATIONS[i % len(RELATIONS)]
        if rel.startswith('other'):
            before = [gen_doc(rng, rng.sample(paths, 4), long=(rel == 'other-long'), typed=False)]
        else:
            before = [earlier_version(rng, w, rel)]
        if rng.random() < 0.3:
            before.insert(0, earlier_version(rng, w, rng.choice(RELATIONS[:4])))
        w = dict(w, before=before, relation=rel)
        if package:
            w['flavour'] = 'package'
        elif i % 4 == 3:
            w['update_existing'] = False
        out.append(w)
    # update_existing=False into an EMPTY directory writes everything
    for _ in range(max(2, n_instance // 8)):
        out.append(dict(gen_doc(rng, rng.sample(paths, 6)), update_existing=False))
    return out


def explore_instances(ctx, workflows, tag):
    terms, keep = [], []
    mterms, mkeep, dterms, dkeep = [], [], [], []
    default_tag = tag
    for w in workflows:
        w, tag = w if isinstance(w, tuple) else (w, default_tag)
        r = instance_roundtrip(w)
        doc = w['doc']
        ncomp = len(doc['components'])
        ctx.case([tag, json.dumps(w, sort_keys=True, default=str)], ncomp >= 1)
        ctx.count('%s_workflows' % tag)
        ctx.count('%s_components' % tag, ncomp)
        ctx.count('platform:' + w['platform'])
        for c in doc['components']:
            for p in flatten(c):
                ctx.count('option:' + p)
        for sec in ('status-report', 'output', 'blueprint', 'application-dependencies', 'virtual-environments'):
            if sec in doc:
                ctx.count('with:' + sec)
        for kind in empty_members(doc):
            ctx.count('empty:' + kind)
        for c in doc['components']:
            for n in c.get('variables', {}):
                if n in BACKEND_VARS:
                    ctx.count('backend_option_as_variable:' + n)
        if any('replicate' in c.get('workflowAttributes', {}) for c in doc['components']):
            ctx.count('with:replication')
        cls = classes_of_workflow(w)
        desc = {'stream': tag, 'workflow': w}
        package = w.get('flavour') == 'package'
        update = w.get('update_existing', True)
        if w.get('renders'):
            ctx.count('rendered_before_it_is_written:%s' % w.get('flavour', 'instance'))
            for op in w['renders']:
                ctx.count('render_op:' + op[0])
        for what, detail in r.get('render_problems') or []:
            ctx.fail(dict(desc, difference=detail), what, cls)
        if w.get('before'):
            ctx.count('written_into_a_directory_holding_an_earlier_description:%s:update_existing=%s' % (w.get('flavour', 'instance'), update))
            ctx.count('earlier_description:' + str(w.get('relation', 'other')))
        elif not update:
            ctx.count('written_into_an_empty_directory:update_existing=False')
        if typed_scopes(doc):
            ctx.count('with:typed_variables')
            for sc in typed_scopes(doc):
                ctx.count('typed_variable:' + sc)
        # ---- the directory after the write: what was there, what the same write puts into an empty directory
        if r.get('dir_after') is not None and r.get('dir_fresh') is not None:
            want = expected_dir(not package, update, r['dir_before'], r['dir_fresh'])
            if want != r['dir_after']:
                stale = sorted(f for f in r['dir_after'] if reads(not package, f) and f not in r['dir_fresh'] and cleaned(not package, f))
                odd = sorted(f for f in set(want) | set(r['dir_after']) if want.get(f) != r['dir_after'].get(f))
                ctx.fail(dict(desc, files=odd[:6]),
                         ('a file of the earlier description that the load reads survives the write: %s' % stale[0].split('/')[0]) if stale and update
                         else 'the directory after the write is not the earlier files %s the files of this write [%s]' % (
                             'cleaned up and replaced by' if update else 'kept, plus the missing ones of', odd[0].split('/')[0]), cls)
            dterms.append('(%s, %s, %s, %s, %s)' % (common.cbool(not package), common.cbool(update), cdir(r['dir_before']),
                                                    cdir(r['dir_fresh']), cdir(r['dir_after'])))
            dkeep.append(desc)
        if package:
            # the package flavour: what is loaded from the re-written directory is what is loaded from a directory written once
            if r['error'] or 'loaded_fresh' not in r:
                if 'loaded_fresh' in r:
                    ctx.fail(dict(desc, error=r['error'], detail=r.get('detail')),
                             'a package written into a directory holding an earlier one cannot be loaded although the same write into an '
                             'empty directory can (%s)' % r['error'], cls)
                continue
            d = first_diff(r['loaded_fresh'], r['loaded'])
            if d:
                ctx.fail(dict(desc, difference=d), 'a package written into a directory holding an earlier one loads differently from the '
                         'same package written into an empty directory [' + d.split(':')[0].split('.')[1] + ']', cls)
            continue
        if w.get('before') and not update and not r['error']:
            # nothing was to be replaced: the directory is checked above, the load reads the earlier description's files
            continue
        if r['error']:
            ctx.fail(dict(desc, error=r['error'], detail=r.get('detail')),
                     'an instance description cannot be written and loaded again (%s)' % r['error'], cls)
            continue
        o1, o2 = observe(r['inst']), observe(r['loaded'])
        for part, what in (('components', 'a component differs after the round trip'),
                           ('environments', 'the environments differ after the round trip'),
                           ('application-dependencies', 'the application dependencies differ after the round trip'),
                           ('virtual-environments', 'the virtual environments differ after the round trip'),
                           ('status', 'the status section differs after the round trip'),
                           ('output', 'the output section differs after the round trip')):
            d = first_diff(o1[part], o2[part])
            if d:
                ctx.fail(dict(desc, difference=d), what + ' [' + d.split(':')[0].split('.')[-1] + ']', cls)
        # ---- model: per component, the raw component handed to dump vs the raw component in the loaded document
        loaded = {(c['stage'], c['name']): c for c in r['loaded'].get('components', [])}
        for c in r['inst']['components']:
            lc = loaded.get((c['stage'], c['name']))
            cin = ccomp(flatten(c), norm_vars(c.get('variables')))
            cout = copt(None if lc is None else ccomp(flatten(lc), norm_vars(lc.get('variables'))))
            terms.append('(%s, %s, %s)' % (cstr(c['name']), cin, cout))
            keep.append((desc, c, lc))
        # ---- model: the [META] section of every stage file (typed global variables updated with the typed variables of the stage)
        # (a write that also writes variables.conf - the first one into a directory - folds the blueprint of a stage into the variables
        # of that stage of the description it was handed, a side effect of Dosini._dump_variables: these entries, rendered by the
        # writers of the options, are part of the variables of the stage when the stage file is written)
        import experiment.model.frontends.dosini as D
        iv = r['inst'].get('variables', {}).get('default', {})
        first_write = 'variables.conf' not in (r.get('dir_before') or {})
        bps = ((r['inst'].get('blueprint') or {}).get('default') or {}).get('stages') or {}
        for st, meta in sorted((r.get('meta') or {}).items()):
            stages_vars = iv.get('stages', {}) or {}
            gv, sv = iv.get('global', {}) or {}, stages_vars.get(st, {}) or {}
            bp = {}
            if first_write and st in stages_vars and st in bps:
                bp = {k: ('None' if v is None else v) for k, v in D.Dosini._flowir_component_to_dict(copy.deepcopy(bps[st])).items()}
            mterms.append('(%s, %s, %s, %s)' % (ctvars(gv), ctvars(sv), ctvars(bp), copt(cini(meta if meta is not None else {}))))
            mkeep.append((desc, st, gv, dict(sv, **{'blueprint:' + k: v for k, v in bp.items()}), meta))
        if ncomp >= 2:
            ctx.sample({'stream': tag, 'platform': w['platform'], 'components': ['stage%d.%s' % (c['stage'], c['name']) for c in doc['components']],
                        'first_component': doc['components'][0]}, limit=8)
    bad = ctx.model_mismatches(HEADER, terms, 'check_file_case', chunk=150, name='%s_inst' % default_tag)
    for k, i in enumerate(bad):
        desc, c, lc = keep[i]
        ctx.disagree(dict(desc, component=c), lc,
                     ctx.model_eval(HEADER, "let '(n, c, _) := %s in via_file n c" % terms[i])[:600] if k < 2 else '',
                     'C19 instance files: Dosini.dump + load_from_directory per component vs Dosini.Model.via_file (text layer + reader)')
    RH = HEADER.replace('V.Dosini.Model.', 'V.Dosini.Model V.Dosini.Rewrite.')
    bad = ctx.model_mismatches(RH, mterms, 'check_meta_case', chunk=200, name='%s_meta' % default_tag)
    for k, i in enumerate(bad):
        desc, st, gv, sv, meta = mkeep[i]
        ctx.disagree(dict(desc, stage=st, global_variables={k2: repr(v) for k2, v in gv.items()}, stage_variables={k2: repr(v) for k2, v in sv.items()}),
                     meta, ctx.model_eval(RH, "let '(g, s, b, _) := %s in meta_via_file true g (update s b)" % mterms[i])[:600] if k < 2 else '',
                     'C19 [META] section of an instance stage file: Dosini.configuration_for_stage + FlowConfigParser vs Dosini.Rewrite.meta_via_file')
    bad = ctx.model_mismatches(RH, dterms, 'check_dir_case', chunk=100, name='%s_dir' % default_tag)
    for k, i in enumerate(bad):
        ctx.disagree(dkeep[i], None, '', 'C19 directory after Dosini.dump into a directory holding earlier files vs Dosini.Rewrite.dump_dir')


# ------------------------------------------------------------------ corpus (witnesses of repaired defects run first)
def int_keys(w):
    """a workflow read from a JSON file (corpus, replay): the stage indices that key dictionaries are integers again"""
    def conv(d):
        return {(int(k) if isinstance(k, str) and k.isdigit() else k): v for k, v in (d or {}).items()}
    for x in [w] + list(w.get('before', [])):
        doc = x['doc']
        if 'status-report' in doc:
            doc['status-report'] = conv(doc['status-report'])
        for sec in ('variables', 'blueprint'):
            for plat in (doc.get(sec) or {}).values():
                if isinstance(plat, dict) and 'stages' in plat:
                    plat['stages'] = conv(plat['stages'])
    return w


def corpus():
    comps, flows = [], []
    d = os.path.join(common.VERIF, 'harness', 'corpus', 'c19')
    for f in sorted(os.listdir(d)) if os.path.isdir(d) else []:
        x = json.load(open(os.path.join(d, f)))
        if x.get('kind') == 'component':
            comps.append((x['options'], x.get('variables', {})))
        elif x.get('kind') == 'workflow':
            flows.append(int_keys(x['workflow']))
    return comps, flows


# ------------------------------------------------------------------ entry points
def run(ctx):
    rng = ctx.rng
    ctx.rule = ('stream A: one expressible option x one value of its kind (constants of the type, variable references, '
                'special values); B: random components (2..all options, 0..4 variables); G: per group of options (every prefix of the '
                'option paths with two or more members) every subset of a small group, and of a large one the whole, all-but-one, pairs '
                'and random subsets; L: workflows of 11-21 stages (one tiny component in most stages; references, outputs, status, stage '
                'variables and blueprints naming stages 10+; replica counts 10+); C/D: generated workflows (1-3 stages, '
                'options cycled so that every expressible option is used in every run, variables of all scopes, environments, '
                'platform, blueprint, replication, status, output; D with hostile and multi-line texts, 12% with one text or variable name at '
                'the boundary of the text layer); T: tables of sections (half inside the guard of C19_text_roundtrip, half with hostile '
                'names/keys/values) and hostile raw texts through the real FlowConfigParser; non-trivial = at least one option, '
                'variable, component or entry; distinct by content; A also: per backend of the running code and per name of its option '
                'table a component of that backend (option or variable), P: a component of each backend loaded first, then probe components '
                'holding every backend option name; C/D/L: environments without variables in half of the workflows, other EMPTY members '
                '(stage variables, blueprint, executors, output/status sections and entries, empty lists) in 35%, a stage without components in 4%; '
                'typed variables (bool/int/float/number-like texts at 1..6 scopes, REF_VARS retyped in half of them) in 50% of the C/L/D/R workflows; '
                'R: 28 sequences per quick run (20 instance - every 4th with update_existing=False - and 8 package; relation of the earlier '
                'description cycled over more-stages x2, more-components, other-platform, same, other, other-long; 30% with a second earlier one) '
                '+ update_existing=False into an empty directory; W: every component of A/B/G rendered twice on one object; 120 components '
                '(+ the whole of every group of options) with 20% of the cells of half of them holding None, rendered 1-3 times through one of '
                '_flowir_component_to_dict x2 / configuration_for_stage instance / package / the writers one by one; 11 workflows per quick run '
                '(8 instance, 3 package) + 3 fixed ones whose description object is rendered 1-4 times (ops drawn from RENDER_OPS) and then written')
    gen_path = os.path.join(common.COQ, COQ_DIR, 'Generated.v')
    ctx.extra['generated_tables'] = {
        'regenerated_before_proof_build': True,
        'generation_error': GEN_ERROR,
        'Generated.v_md5': hashlib.md5(open(gen_path, 'rb').read()).hexdigest() if os.path.exists(gen_path) else None,
        'dump_rows': len(MEASURED['dump']) if MEASURED else None,
        'parse_rows': len(MEASURED['parse']) if MEASURED else None,
        'dropped_keys': MEASURED['dropped'] if MEASURED else None,
        'inexpressible_options': MEASURED['inexpressible'] if MEASURED else None,
    }
    if GEN_ERROR:
        ctx.proof_ok = False
        ctx.proof_log += '\ncoq/Dosini/Generated.v could not be regenerated from the code under test: %s\n' % GEN_ERROR
        ctx.note('table generation failed: ' + GEN_ERROR)
        return
    quick = ctx.tier == 'quick'
    ccomps, cflows = corpus()
    # one evaluation inside Coq per comparison for the three streams of components
    # stream P runs between the other component streams: on a tree that keeps state between loads everything after it is
    # observed in that state; the tables are measured again right after the sequences and at the very end of the run
    explore_components(ctx, [c + ('A',) for c in ccomps + single_option_cases() + backend_option_cases(rng)] +
                       sequence_cases(rng) +
                       [c + ('B',) for c in random_component_cases(rng, 250 if quick else 2500)] +
                       [c + ('G',) for c in group_subset_cases(rng, thorough=not quick)], 'ABG')
    tables_now(ctx, 'after the components of every backend were loaded (parse_component)',
               {'loaded_before': [{'backend': b} for b in sorted(BACKENDS)]})
    K = kinds()
    paths = sorted(K)
    flows = list(cflows)
    n = 40 if quick else 400
    while len(flows) < n:
        order = list(paths)
        rng.shuffle(order)
        # the options of one pass are spread over a few workflows
        for i in range(0, len(order), 18):
            flows.append(gen_doc(rng, order[i:i + 18]))
    flows = [(w, 'C') for w in flows]
    flows += [(gen_doc(rng, rng.sample(paths, 12), long=True), 'L') for _ in range(6 if quick else 60)]
    flows += [(gen_doc(rng, rng.sample(paths, 10), hostile=True), 'D') for _ in range(15 if quick else 150)]
    flows += [(w, 'R') for w in rewrite_cases(rng, paths, 20 if quick else 200, 8 if quick else 80)]
    flows += [(w, 'W') for w in render_then_write_cases(rng, paths, 8 if quick else 80, 3 if quick else 30)]
    explore_instances(ctx, flows, 'CLD')
    explore_renders(ctx, render_sequence_cases(rng, 120 if quick else 1200))
    c19_envs.explore(ctx, 150 if quick else 1500)
    c19_stages.explore(ctx, 60 if quick else 600)
    c19_text.explore(ctx, 120 if quick else 1200, 120 if quick else 1200)
    # ---- state kept between loads, once more after everything this run has loaded (instance files included)
    tables_now(ctx, 'at the end of the run (after every load of this run, instance files included)', {})
    c19_proc.compare_with_fresh_process(ctx)
    used = set(k[7:] for k in ctx.hist if k.startswith('option:'))
    missing = sorted(set(paths) - used)
    ctx.extra['expressible_options_covered'] = '%d/%d' % (len(paths) - len(missing), len(paths))
    if missing:
        ctx.note('options never generated in this run: %s' % missing)


def replay(ctx, path):
    d = json.load(open(path))
    c = d.get('case') or d.get('first', {}).get('case')
    if not c or GEN_ERROR:
        print('replay file names no input (proof/table obligation): re-run ./check C19; generation error: %s' % GEN_ERROR)
        return 2
    if c.get('stream') == 'S':
        c19_stages.explore(ctx, 0, only=c)
    elif c.get('stream') == 'E':
        c19_envs.explore(ctx, 0, only=c)
    elif c.get('stream') == 'P' and 'options' not in c:
        # state kept between loads: the whole sequence of the run is the input; run the sequences and measure again
        explore_components(ctx, sequence_cases(ctx.rng), 'P')
        tables_now(ctx, 'after the components of every backend were loaded (parse_component)', {})
        c19_proc.compare_with_fresh_process(ctx)
    elif c.get('stream') == 'W' and 'cells' in c:
        explore_renders(ctx, [(c['cells'], c.get('variables', {}), c.get('renders', 2), c.get('entry', 'component'))])
    elif 'table' in c or 'text' in c:
        c19_text.explore(ctx, 0, 0, only_table=c.get('table'), only_text=c.get('text') if 'table' not in c else None)
    elif 'workflow' in c:
        explore_instances(ctx, [int_keys(c['workflow'])], c.get('stream', 'C'))
        if not (ctx.failures or ctx.disagreements):
            # not reproduced on its own: the failure may depend on what the run had loaded before (state kept between loads)
            for bo, bv in backend_firsts(ctx.rng):
                component_roundtrip(bo, bv)
            explore_instances(ctx, [int_keys(c['workflow'])], c.get('stream', 'C'))
            if ctx.failures or ctx.disagreements:
                print('NOT reproduced in a fresh process; reproduced after a component of every backend was loaded in the same process')
    else:
        before = [(b['options'], b.get('variables', {})) for b in c.get('loaded_before', [])]
        explore_components(ctx, [(c['options'], c.get('variables', {}), c.get('stream', 'A'), before)], c.get('stream', 'A'))
        if not (ctx.failures or ctx.disagreements) and not before:
            explore_components(ctx, [(c['options'], c.get('variables', {}), c.get('stream', 'A'), backend_firsts(ctx.rng))], c.get('stream', 'A'))
            if ctx.failures or ctx.disagreements:
                print('NOT reproduced in a fresh process; reproduced after a component of every backend was loaded in the same process')
    for f in ctx.failures:
        print('REPRODUCED: %s' % f['what'])
    for f in ctx.disagreements:
        print('DISAGREEMENT: %s' % (f['correspondence'],))
    return 1 if (ctx.failures or ctx.disagreements) else 0
