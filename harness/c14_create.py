"""C14 - the CREATION path of the state files: the first write, when there is no previous version.

Real code driven (in-process, real packages and instances under a scratch directory, file I/O wrapped by c14_io):
  Experiment.experimentFromPackage(package, location, timestamp=..., instance_name=...)
        -> ExperimentInstanceDirectory.newInstanceDirectory -> Experiment.__init__
           -> FlowIRExperimentConfiguration._generate_instance_files   (conf/flowir_instance.yaml, conf/manifest.yaml)
           -> Status(...).update()                                     (output/status.txt, in the shadow directory)
  Experiment.experimentFromInstance(instance)  on an instance from which a subset of the three files was removed
        (what `elaunch.py --restart`, einspect and the st4sd API do; the missing files are created again)
One case = (package, entry point, fault).  For every case the fault-free operation trace is compared with the
model's two-phase protocol (Fs.Model.exec2 over create_conf / create_status), then the entry point is re-run from the
same pre-state once per fault: trace shape, "the instance directory was removed", files afterwards = model; and the
property predicate on the real files: every state file is absent / what it was before, or complete, and what is there
loads (Status.statusFromFile, yaml_load, and the instance can be opened with Experiment.experimentFromInstance).

The only fake is the location of the shadow directory (ExperimentShadowDirectory.temporaryShadow puts it under
/tmp/chpc-<user>-shadow; here it is created under the scratch directory) and the clock (the instance name and the
time stamps in status.txt must be the same in every re-run).
"""
import datetime as _dt
import glob
import json
import os
import shutil
import sys
import tempfile
import types

import yaml

import c14_io
import c14
from c14 import s_, c_op, c_fault, in_model, c_dict, Rec, gen_text, gen_inner, FakeDT
from common import clist, cpair, cbool, copt

TARGETS = ('flowir_instance.yaml', 'manifest.yaml', 'status.txt')
DIRS = {'flowir_instance.yaml': 'conf', 'manifest.yaml': 'conf', 'status.txt': 'output'}


# ------------------------------------------------------------------ packages
def hello_flowir():
    return {
        'variables': {'default': {'global': {'greeting': 'hello'}}},
        'components': [
            {'name': 'hello', 'command': {'executable': 'echo', 'arguments': '%(greeting)s world'}},
            {'name': 'again', 'stage': 1, 'references': ['stage0.hello:output'],
             'command': {'executable': 'echo', 'arguments': 'stage0.hello:output'}}]}


def gen_flowir(rng):
    nst = rng.randint(1, 3)
    comps = []
    for s in range(nst):
        for c in range(rng.randint(1, 2)):
            comp = {'name': 'c%d' % c, 'stage': s, 'command': {'executable': 'echo', 'arguments': '%(foo)s -n'}}
            if s > 0 and rng.random() < 0.6:
                comp['references'] = ['stage0.c0:ref']
                comp['command']['arguments'] = 'stage0.c0:ref'
            comps.append(comp)
    uni = 0.1 if rng.random() < 0.3 else 0.0
    glob_vars = {'foo': gen_text(rng, 10, uni).replace('%', 'p')}
    for i in range(rng.randint(0, 2)):
        glob_vars['v%d' % i] = rng.choice([3, 2.5, True, gen_inner(rng, 6).replace('%', 'p')])
    return {'variables': {'default': {'global': glob_vars}}, 'components': comps}


class Spec(object):
    """one package + how the instance is made"""

    def __init__(self, name, flowir, extra_dirs=(), timestamp=True, instance_name=None, corpus=None):
        self.name = name
        self.flowir = flowir
        self.extra_dirs = tuple(extra_dirs)
        self.timestamp = timestamp
        self.instance_name = instance_name
        self.corpus = corpus

    def descr(self):
        d = {'package': self.name, 'dirs': list(self.extra_dirs), 'timestamp': self.timestamp,
             'instance_name': self.instance_name,
             'stages': 1 + max(c.get('stage', 0) for c in self.flowir['components']),
             'components': len(self.flowir['components']),
             'variables': self.flowir['variables']['default']['global']}
        if self.corpus:
            d['corpus'] = self.corpus
        return d


def gen_specs(rng, tier):
    # corpus: the boundary - a plain two-stage package, stamped instance name (created-on is read from the name)
    specs = [Spec('hello', hello_flowir(), (), True, None, corpus='first write of status.txt / instance files')]
    n = 3 if tier == 'quick' else 20
    for i in range(n):
        dirs = [d for d in ('data', 'bin', 'hooks') if rng.random() < 0.4]
        specs.append(Spec(rng.choice(['pkg', 'my-exp', 'a.b', 'w-x-y-z']), gen_flowir(rng), dirs,
                          timestamp=rng.random() < 0.6,
                          instance_name=rng.choice([None, None, 'named', 'n-a-m-e-d'])))
    return specs


# ------------------------------------------------------------------ one creation
def keep_op(o):
    """operations on the files of conf/ and output/ other than the copy of the package description"""
    def ok(p):
        d, b = os.path.split(p)
        return os.path.basename(d) in ('conf', 'output') and b != 'flowir_package.yaml'
    if o[0] == 'rename':
        return ok(o[1]) and ok(o[2])
    return ok(o[1])


def canon(raw_ops):
    """-> (model ops, raw index of every model op, names of the temporary files)"""
    kept = [(i, o) for i, o in enumerate(raw_ops) if keep_op(o)]
    ops, names = c14.canon_ops([o for _, o in kept], TARGETS)
    # canon_ops drops the 'seen' markers: recompute the raw index of every real operation
    idx = []
    n_real = 0
    for o in raw_ops:
        if o[0] == 'seen':
            continue
        if keep_op(o):
            idx.append(n_real)
        n_real += 1
    assert len(idx) == len(ops), (len(idx), len(ops))
    return ops, idx, names


class Creation(object):
    def __init__(self, mods, root, spec):
        self.D, self.S, self.F = mods
        self.root = root
        self.spec = spec
        self.pk = os.path.join(root, spec.name + '.package')
        self.loc = os.path.join(root, 'run')
        self.sh = os.path.join(root, 'shadow')
        os.makedirs(os.path.join(self.pk, 'conf'))
        with open(os.path.join(self.pk, 'conf', 'flowir_package.yaml'), 'w', encoding='utf-8') as f:
            yaml.safe_dump(spec.flowir, f, allow_unicode=True)
        for d in spec.extra_dirs:
            os.makedirs(os.path.join(self.pk, d))
            with open(os.path.join(self.pk, d, 'file.txt' if d != 'hooks' else 'interface.py'), 'w') as f:
                f.write('# %s\n' % d)
        self.stage_names = ['stage%d' % i for i in range(1 + max(c.get('stage', 0) for c in spec.flowir['components']))]
        self.exp = None

    # ---- pre-states
    def fresh(self):
        for d in (self.loc, self.sh):
            shutil.rmtree(d, ignore_errors=True)
            os.makedirs(d)

    def instance(self):
        got = glob.glob(os.path.join(self.loc, '*.instance'))
        return got[0] if len(got) == 1 else None

    def path(self, inst, b):
        return os.path.join(inst, DIRS[b], b)

    def snapshot(self):
        inst = self.instance()
        if inst is None:
            return {b: None for b in TARGETS}
        return {b: c14_io.read_text(self.path(inst, b)) for b in TARGETS}

    def restore(self, inst, keep, removed):
        for sub in ('conf', 'output'):
            d = os.path.join(inst, sub)
            for fn in os.listdir(d):
                if fn not in TARGETS and fn != 'flowir_package.yaml' and os.path.isfile(os.path.join(d, fn)):
                    os.remove(os.path.join(d, fn))
        for b in TARGETS:
            p = self.path(inst, b)
            if b in removed or keep[b] is None:
                if os.path.exists(p):
                    os.remove(p)
            else:
                with open(p, 'w', encoding='utf-8', newline='') as f:
                    f.write(keep[b])

    # ---- the real entry points
    def call(self, entry, fault, raw_fault):
        """-> (recorder, outcome)"""
        cwd = os.getcwd()
        self.exp = None
        outcome = 'completed'
        rec = Rec(self.root, raw_fault)
        try:
            with rec:
                if entry[0] == 'package':
                    package = self.S.ExperimentPackage.packageFromLocation(self.pk)
                    self.exp = self.D.Experiment.experimentFromPackage(
                        package, location=self.loc, timestamp=self.spec.timestamp, instance_name=self.spec.instance_name)
                else:
                    self.exp = self.D.Experiment.experimentFromInstance(self.instance())
        except Exception as error:
            outcome = 'raised ' + type(error).__name__
        finally:
            os.chdir(cwd)
        if rec.dead:
            outcome = 'died'
        return rec, outcome

    # ---- loaders
    def loads(self, b, text):
        if b == 'status.txt':
            p = os.path.join(self.root, 'probe_status.txt')
            with open(p, 'w', encoding='utf-8', newline='') as f:
                f.write(text)
            try:
                st = self.D.Status.statusFromFile(p)
                if list(st.stages()) != self.stage_names:
                    return 'statusFromFile returns the stages %r' % (st.stages(),)
            except Exception as e:
                return 'statusFromFile raised %s(%s)' % (type(e).__name__, e)
            finally:
                os.remove(p)
            return None
        try:
            d = self.F.yaml_load(text)
        except Exception as e:
            return 'yaml_load raised %s' % type(e).__name__
        if not isinstance(d, dict) or (b == 'flowir_instance.yaml' and 'components' not in d):
            return 'not a complete document: %r' % (d if d is None else type(d).__name__,)
        return None

    def opens(self, inst):
        """the instance can be opened (read only: nothing is repaired by this probe)"""
        try:
            e = self.D.Experiment.experimentFromInstance(inst, updateInstanceConfiguration=False)
            if e.statusFile is None or list(e.statusFile.stages()) != self.stage_names:
                return 'the instance opens without a status'
        except Exception as e:
            return 'Experiment.experimentFromInstance raised %s(%s)' % (type(e).__name__, str(e)[:80])
        return None

    def check_new(self, entry, new, old):
        """fault-free run: every state file exists, is complete and reads back what was written"""
        e = self.exp
        if e is None:
            return 'no experiment'
        for b in TARGETS:
            if new[b] is None:
                return '%s missing after a completed %s' % (b, entry[0])
            why = self.loads(b, new[b])
            if why:
                return '%s written by a completed %s does not load: %s' % (b, entry[0], why)
        conf = e.configuration
        prim = conf._unreplicated.instance(ignore_errors=True, inject_missing_fields=False, fill_in_all=False, is_primitive=True)
        want = json.loads(json.dumps(self.F.FlowIR.pretty_flowir_sort(prim)))
        if json.loads(json.dumps(self.F.yaml_load(new['flowir_instance.yaml']))) != want:
            return 'flowir_instance.yaml reads back a different document'
        if self.F.yaml_load(new['manifest.yaml']) != dict(conf.manifestData):
            return 'manifest.yaml reads back %r' % (self.F.yaml_load(new['manifest.yaml']),)
        if new['status.txt'] != old['status.txt']:
            # status.txt was written by this call: it reads back the values of the Status object
            p = os.path.join(self.root, 'probe_status.txt')
            with open(p, 'w', encoding='utf-8', newline='') as f:
                f.write(new['status.txt'])
            try:
                got = {k: '%s' % (v,) for k, v in self.D.Status.statusFromFile(p).data.items()}
            finally:
                os.remove(p)
            for k, v in e.statusFile.data.items():
                if got.get(k) != '%s' % (v,):
                    return 'status.txt: value of %r read back as %r, written %r' % (k, got.get(k), '%s' % (v,))
        return None


def choose_faults(rng, base, dense, tier):
    ks = set()
    for i, o in enumerate(base):
        if o[0] != 'append':
            ks.add(i)
        if o[0] == 'create' and i + 1 < len(base):
            ks.add(i + 1)            # the first write
        if o[0] == 'close' and i >= 1:
            ks.add(i - 1)            # the last write
    ks = sorted(ks)
    extra = 5 if tier == 'quick' else 30
    if not dense:
        ks = sorted(rng.sample(ks, min(len(ks), 6 if tier == 'quick' else 12)))
        extra = 3 if tier == 'quick' else 10
    ks = sorted(set(ks) | set(rng.randrange(len(base)) for _ in range(extra))) if base else []
    out = []
    for k in ks:
        o = base[k]
        for mode in ('die', 'eio'):
            if o[0] == 'append':
                L = len(o[2])
                js = {rng.randint(0, L)}
                if rng.random() < 0.15:
                    js |= {0, L}
                for j in sorted(js):
                    out.append((mode, k, j))
            else:
                out.append((mode, k, 0))
    return out


def explore(ctx, cr, rng, terms, entry, dense):
    """entry = ('package',) | ('reopen', removed files).  The pre-state of ('reopen', R) is the completed instance
    under cr.loc with the files R removed."""
    spec = cr.spec
    descr = dict(spec.descr(), entry=[entry[0]] + [sorted(entry[1])] if entry[0] == 'reopen' else [entry[0]])
    kind = 'create:' + entry[0]
    keep = None
    if entry[0] == 'package':
        cr.fresh()
        old = {b: None for b in TARGETS}
    else:
        inst0 = cr.instance()
        keep = cr.snapshot()
        cr.restore(inst0, keep, entry[1])
        old = cr.snapshot()
    rec, outcome = cr.call(entry, None, None)
    if outcome != 'completed':
        ctx.count('create_%s_rejected_%s' % (entry[0], outcome.replace(' ', '_')))
        if spec.corpus:
            ctx.fail({'kind': kind, 'case': descr, 'fault': None}, 'the fault-free %s of the corpus package %s' % (entry[0], outcome), [])
        return False
    base, idx, _names = canon(rec.ops)
    new = cr.snapshot()
    odd = [u for u in rec.unexpected if keep_op(('create', u[1]))]
    if odd:
        ctx.disagree({'kind': kind, 'case': descr}, odd, 'text-mode truncating opens only',
                     'C14 operation alphabet: the creation opened a state file in a mode the model does not have')
    ctx.count('creations_' + entry[0])
    ctx.count('ops_in_fault_free_creation_traces', len(base))
    why = cr.check_new(entry, new, old)
    if why:
        ctx.fail({'kind': kind, 'case': descr, 'fault': None}, why, [])
    status_written = new['status.txt'] != old['status.txt']
    intended = None
    if status_written and cr.exp is not None:
        intended = {k: '%s' % (v,) for k, v in cr.exp.statusFile.data.items()}
    probe_open = cr.opens(cr.instance()) is None     # calibrate the "opens" probe on the complete instance
    if not probe_open:
        ctx.count('create_open_probe_not_applicable')
    texts = {nm: [o[2] for o in base if o[0] == 'append' and o[1] == nm] for nm in ('T1', 'T2', 'T3')}
    mod_ok = all(in_model(o[2]) for o in base if o[0] == 'append') and all(v is None or in_model(v) for v in old.values()) \
        and (intended is None or all(in_model(k + v) for k, v in intended.items()))
    fcases = []
    for flt in choose_faults(rng, base, dense, ctx.tier):
        if entry[0] == 'package':
            cr.fresh()
        else:
            cr.restore(inst0, keep, entry[1])
        rec, outcome = cr.call(entry, flt, (flt[0], idx[flt[1]], flt[2]))
        if not rec.fault_hit:
            ctx.count('create_fault_beyond_trace')
            continue
        ops, _i, names = canon(rec.ops)
        inst = cr.instance()
        wiped = inst is None
        after = cr.snapshot()
        cse = {'kind': kind, 'case': descr, 'fault': list(flt), 'on': list(base[flt[1]][:2])}
        for b in TARGETS:
            c = after[b]
            c2 = dict(cse, file=b)
            if c is None:
                if old[b] is not None:
                    ctx.fail(c2, '%s existed before the %s and is gone after a fault (%s at operation %d)'
                             % (b, entry[0], flt[0], flt[1]), [])
            elif c == old[b] or c == new[b]:
                why = cr.loads(b, c)
                if why:
                    ctx.fail(c2, '%s left by a fault does not load: %s' % (b, why), [])
            else:
                ctx.fail(c2, '%s after a fault during the %s (%s at operation %d: %s of %s) is neither absent/the previous '
                         'nor the complete new version (%d of %d characters): %r'
                         % (b, 'creation of the instance' if entry[0] == 'package' else 'opening of the instance',
                            flt[0], flt[1], base[flt[1]][0], base[flt[1]][1], len(c), len(new[b] or ''), c[:60]), [])
        if inst is not None and probe_open:
            why = cr.opens(inst)
            if why:
                ctx.fail(cse, 'the instance left by a fault (%s at operation %d: %s of %s) cannot be opened: %s'
                         % (flt[0], flt[1], base[flt[1]][0], base[flt[1]][1], why), [])
        ctx.case([kind, descr, list(flt)], flt[1] >= 1)
        ctx.count('create_fault_%s_on_%s_of_%s' % (flt[0], base[flt[1]][0],
                                                   {'T1': 'flowir_instance', 'T2': 'manifest', 'T3': 'status'}.get(base[flt[1]][1], base[flt[1]][1])))
        ctx.count('create_outcome_' + outcome.replace(' ', '_') + ('_instance_removed' if wiped else ''))
        obs = []
        for b in TARGETS:
            c = after[b]
            obs.append((b, 'OAbs' if c is None else 'OOld' if c == old[b] else 'ONew' if c == new[b]
                        else '(OStr %s)' % (s_(c) if in_model(c) else '"?"')))
        for p, nm_ in sorted(names.items(), key=lambda x: x[1]):
            c = c14_io.read_text(os.path.join(cr.root, p))
            obs.append((nm_, 'OAbs' if c is None else '(OLen %d)' % len(c)))
        if mod_ok:
            fcases.append(cpair(c_fault(flt), cpair(clist(ops, lambda o: c_op(o, True)),
                                                   cpair(cbool(wiped), clist(obs, lambda pc: cpair(s_(pc[0]), pc[1]))))))
    if mod_ok:
        proto = cpair(cbool(entry[0] == 'package'),
                      cpair('(create_conf %s %s)' % (clist(texts['T1'], s_), clist(texts['T2'], s_)),
                            '(create_status %s)' % copt(intended, c_dict)))
        fs0 = clist([(b, old[b]) for b in TARGETS if old[b] is not None], lambda pc: cpair(s_(pc[0]), s_(pc[1])))
        terms.append((cpair(proto, cpair(fs0, cpair(clist(base, c_op), clist(fcases)))), {'kind': kind, 'case': descr}))
    else:
        ctx.count('creation_outside_model_alphabet')
    if len(ctx.samples) < 6 and spec.corpus and entry[0] == 'package':
        ctx.sample({'kind': 'creation of an instance', 'package': spec.name, 'trace': '%d operations' % len(base),
                    'status.txt': new['status.txt']})
    return True


def subsets(xs):
    out = [[]]
    for x in xs:
        out += [s + [x] for s in out]
    return out


def run_create(ctx, rng, terms):
    import experiment.model.data as D
    import experiment.model.storage as S
    import experiment.model.frontends.flowir as F
    real_dt_d, real_dt_s = D.datetime, S.datetime
    fake = types.SimpleNamespace(datetime=FakeDT, timedelta=_dt.timedelta, timezone=_dt.timezone, date=_dt.date)
    real_shadow = S.ExperimentShadowDirectory.__dict__['temporaryShadow']
    tmp = tempfile.mkdtemp(prefix='verif_c14_')
    cwd = os.getcwd()
    try:
        D.datetime = fake
        S.datetime = fake
        FakeDT.tick = 0
        for si, spec in enumerate(gen_specs(rng, ctx.tier)):
            root = os.path.join(tmp, 'k%d' % si)
            os.makedirs(root)
            cr = Creation((D, S, F), os.path.realpath(root), spec)
            S.ExperimentShadowDirectory.temporaryShadow = classmethod(
                lambda cls, name, _sh=cr.sh: S.ExperimentShadowDirectory(name, _sh))
            if not explore(ctx, cr, rng, terms, ('package',), dense=bool(spec.corpus)):
                continue
            # a complete instance, then: open it with some of its state files missing
            cr.fresh()
            rec, outcome = cr.call(('package',), None, None)
            if outcome != 'completed' or cr.instance() is None:
                continue
            if spec.corpus and ctx.tier != 'quick':
                family = [frozenset(s) for s in subsets(list(TARGETS))]       # every subset, incl. none
            elif spec.corpus:
                family = [frozenset(), frozenset(['status.txt']), frozenset(['flowir_instance.yaml', 'manifest.yaml']),
                          frozenset(TARGETS)]
            else:
                family = [frozenset(b for b in TARGETS if rng.random() < 0.5) for _ in range(1 if ctx.tier == 'quick' else 2)]
            keep = cr.snapshot()
            inst0 = cr.instance()
            for removed in family:
                cr.restore(inst0, keep, ())
                explore(ctx, cr, rng, terms, ('reopen', removed), dense=False)
            shutil.rmtree(root, ignore_errors=True)
    finally:
        D.datetime, S.datetime = real_dt_d, real_dt_s
        S.ExperimentShadowDirectory.temporaryShadow = real_shadow
        os.chdir(cwd)
        sys.path[:] = [p for p in sys.path if not p.startswith(tmp)]
        shutil.rmtree(tmp, ignore_errors=True)
