"""C15 — Loading a package is deterministic.

Implementation driven (REAL code, in subprocesses started with different PYTHONHASHSEED values and
fed key-permuted but equal documents and differently ordered file creation; stage-level variables of the package
and the loop of FlowIRConcrete.instance() that resolves them: see c15_stagevars.py):
  * FlowIRExperimentConfiguration.__init__ / .parametrize with user variable files ("vars" cases),
  * ExperimentPackage.packageFromLocation + Experiment.experimentFromPackage + validateExperiment on FlowIR
    and DSL 2 packages written to a scratch directory ("pkg" cases; names, edges, environments, resolved
    configurations, memoization hashes),
and in-process: FlowIR.override_object, ComponentSpecification._memoization_info_to_hash, dsl.namespace_to_flowir
(S5: the loop that rewrites output references, S6: component / environment names; each also on a key-permuted copy
of the document, which has to be accepted alike and to compile to the same FlowIR; and the traversal that decides
which templates replicate, ScopeStack.can_template_replicate, vs Det.Replicate), FlowIR.apply_replicate ->
compile_component_aggregate (S7: the collection of replicated references
and the aggregate() closure), plus a static scan (Python ast) of the anchored files for iteration over unordered
sources (also a set handed to a function that iterates over the parameter receiving it).

"The same result in every process" includes a process that has ALREADY loaded other things: SESSIONS are vars / pkg
cases with several loads that one process performs one after the other and whose lists of variable files share
files; every process performs them in its own order, each load first in one of them.

ONE configuration object that is constructed and then RE-PARAMETRIZED (cfg cases: in-memory FlowIR, FlowIR file, DSL 2.0,
DOSINI) must answer every call like a fresh load (Det.Reparam), and a DOSINI INSTANCE directory (both flavours of the
stage files) must load the same under every directory listing order (inst cases) - see c15_reuse.py.

Round 9: a process also loads DIFFERENT packages one after the other (multi cases: a package directory with extra
top-level folders, mostly named like components of another package of the session whose components are referenced in
the relative form; process v starts with package v mod n), the mutable module / class level containers of the four
anchored modules must be unchanged after all the loads of a child process (the model of a process keeps no state), and
FlowIR packages list environment names that are equal ignoring case (one spelling not all-lowercase; default and a
second platform) - compared between the key-permuted documents of the 6 processes, in-process between three listing
orders, and with the rule of the loop of FlowIR.from_dict (open finding F15d: two non-lowercase spellings).

"Every process" is represented by: 6 processes (hash seeds 0,1,2,3,random,4; six key orders of every
document; six creation orders of every file set) on the implementation side, and by "every permutation
oracle at the modelled sites" on the Coq side."""
import ast
import copy
import hashlib
import json
import os
import shutil
import subprocess
import tempfile

import common
from common import clist, cstr, cpair, cjv, copt
import c15_reuse as R
import c15_stagevars as SVH

PROP = 'C15'
COQ_DIR = 'Det'
ASSUMPTIONS = [
    '"in every process" is represented by every permutation oracle at the modelled iteration sites (S1-S5 of '
    'coq/Det/Model.v); an unordered iteration elsewhere is only caught by the static scan of the four anchored files '
    'and by the multi-seed / permuted-document runs',
    'site S5 (sequential str.replace of output references, dsl.py): the reference strings and the data references '
    'that replace them are recomputed by the harness with the real OutputReference.from_str/.split; the loop itself '
    '(order, str.replace) is compared with Det.Model.replace_refs_sorted',
    'S6 (component / environment naming of namespace_to_flowir) is modelled without oracle from the workflows '
    '(name, steps mapping, execute list), the component template names and the entry instance; rejections of a '
    'namespace for reasons outside these fields are not modelled (the generators do not produce them)',
    'S6 (which templates replicate, ScopeStack.can_template_replicate): the work list, the visited set, the order of '
    'the parameters, the two scans per string and the break at an aggregating producer are modelled '
    '(Det.Replicate.walk); which Component a reference of a string resolves to is recomputed by the harness with the '
    'real regular expressions, OutputReference.from_str and the table of scopes; the caches replicating_components / '
    'aggregating_components are not modelled (the real code runs with them, in its own call order)',
    'YAML documents have no repeated keys (wfk); variable values are str/int/bool',
    'state a load leaves behind in the process: observed through sessions of loads of the same package, sessions of '
    '2-3 DIFFERENT packages (top-level folders of one mostly named like components of another) and a before / after '
    'comparison of the list / dict / set valued module globals and class attributes of conf.py, flowir.py, dsl.py, '
    'graph.py in every child process; state kept elsewhere (instance attributes of long-lived objects, other modules, '
    'closures) is only visible if a later load of the session reads it',
    'environment names equal ignoring case: generated with exactly ONE spelling that is not all-lowercase next to the '
    'lowercase one (two non-lowercase spellings = open finding F15d, corpus witness only); not modelled in Coq '
    '(generator / predicate extension)',
    'a process is modelled without state (Det.Model.session = map of single loads); state kept by the implementation '
    'between two loads is visible only to the session runs: 3-6 loads per process sharing files, 6 processes with '
    'different load orders; state keyed by something that never repeats inside a run (e.g. absolute scratch paths of '
    'another case) is not exercised',
    'S7 (compile_component_aggregate): the regular-expression flavour of the search (a reference followed by /path, '
    '`.` as wildcard) and the construction of translation_map are not modelled; the harness recomputes the replica '
    'references in document order with the real compile_reference and takes the replicated producers from the real '
    'propagate_replicate; two producers that share a relative spelling are outside the model',
    'directory listing order: process v of the 6 sees os.listdir / os.scandir (hence glob, os.walk, shutil.copytree) / '
    'glob.glob report the entries in its own order (as the file system lists them, ascending, descending, rotated, '
    'even-then-odd, odd-then-even reversed) and the files are created in 6 different orders; a listing obtained in '
    'another way (a subprocess running ls/find) is not controlled',
    'ONE configuration object re-parametrized (Det.Reparam): the object is modelled as (pristine FlowIR, current); '
    'the pristine per-platform stage variables are taken from a load of the package without variable files; the '
    'DSL 2.0 front-end (entrypoint substitution at construction, open finding F15c) is outside Det.Reparam and '
    'compared between processes only; CWL packages are not generated (need cwltool)',
    'stage variables of FlowIRConcrete.instance() (Det.StageVars): FlowIR.interpolate is V.Conf.Model.interp_string '
    '(C04: one left-to-right pass, no array indices, no dotted names, no literal %); values are str/int; the order of '
    'the visits is an oracle (the correspondence evaluates the ascending and the descending order of the stages the '
    'implementation visited); the later loops of instance() (component variables, blueprints, environments) are not '
    'modelled and are compared between processes only',
]
HEADER = 'Require Import V.Lib.JTree V.Det.Model.\nOpen Scope string_scope.'
SEEDS = ['0', '1', '2', '3', 'random', '4']
HERE = os.path.dirname(os.path.abspath(__file__))
IMPL = os.path.join(HERE, 'c15_impl.py')
CORPUS = os.path.join(HERE, 'corpus', 'c15')

NAMES = ['x', 'y', 'w', 'q', 'alpha', 'beta']
WORDS = ['two', 'three', 'four', 'base', 'site', 'user', 'override', 'zeta', 'local', 'cluster', 'a', 'b', 'prod',
         'test', 'vars', 'extra', 'final', 'first']


# ------------------------------------------------------------------ documents
def to_transport(doc):
    """JSON cannot carry integer keys: wrap mappings that have them"""
    if isinstance(doc, dict):
        if any(isinstance(k, int) for k in doc):
            return {'__intkeys__': {str(k): to_transport(v) for k, v in doc.items()}}
        return {k: to_transport(v) for k, v in doc.items()}
    if isinstance(doc, list):
        return [to_transport(x) for x in doc]
    return doc


def permute_keys(rng, doc):
    """an equal document whose mappings list their keys in another order (lists are ordered data: untouched)"""
    if isinstance(doc, dict):
        ks = list(doc.keys())
        rng.shuffle(ks)
        return {k: permute_keys(rng, doc[k]) for k in ks}
    if isinstance(doc, list):
        return [permute_keys(rng, x) for x in doc]
    return doc


def dedup_last(l):
    return [p for i, p in enumerate(l) if p not in l[i + 1:]]


def gen_value(rng, tag):
    r = rng.random()
    if r < 0.7:
        return '%s-%d' % (tag, rng.randint(0, 99))
    if r < 0.8:
        return rng.choice([0, 1, 7, 42, -3])
    if r < 0.88:
        return rng.choice([True, False])
    if r < 0.94:
        return ''
    return 'a b:c/%s' % tag


def gen_vars_case(rng):
    nstages = rng.choice([1, 1, 2, 2, 3])
    plat = rng.choice([None, None, None, 'plat'])
    comps = []
    for s in range(nstages):
        for j in range(rng.randint(1, 2)):
            used = rng.sample(NAMES, rng.randint(1, 4))
            comps.append({'name': 'c%d%s' % (s, 'ab'[j]), 'stage': s,
                          'command': {'executable': 'echo', 'arguments': ' '.join('%%(%s)s' % n for n in used)}})
    variables = {'default': {'global': {n: 'pkg-%s' % n for n in NAMES}}}
    if rng.random() < 0.6:
        variables['default']['stages'] = {s: {n: 'pkgstage%d-%s' % (s, n) for n in rng.sample(NAMES, rng.randint(1, 2))}
                                          for s in rng.sample(range(nstages), rng.randint(1, nstages))}
    flowir = {'components': comps, 'variables': variables}
    if plat:
        flowir['platforms'] = ['default', plat]
        variables[plat] = {'global': {n: 'plat-%s' % n for n in rng.sample(NAMES, rng.randint(0, 3))}}
        if rng.random() < 0.5:
            variables[plat]['stages'] = {rng.randrange(nstages): {n: 'platstage-%s' % n for n in rng.sample(NAMES, 2)}}
    k = rng.choice([1, 2, 2, 3, 3, 3, 4, 5])
    names = ['%s.%s' % (w, rng.choice(['yaml', 'yaml', 'yml'])) for w in rng.sample(WORDS, k)]
    vfiles = {}
    pool = rng.sample(NAMES, rng.randint(2, 4))   # a small pool: files overlap often
    for fi, n in enumerate(names):
        doc = {}
        if rng.random() < 0.85:
            doc['global'] = {v: gen_value(rng, 'f%d-%s' % (fi, v)) for v in rng.sample(pool, rng.randint(0, len(pool)))}
        if rng.random() < 0.5:
            doc['stages'] = {s: {v: gen_value(rng, 'f%ds%d-%s' % (fi, s, v)) for v in rng.sample(pool, rng.randint(1, 2))}
                             for s in rng.sample(range(nstages + 1), rng.randint(1, min(2, nstages + 1)))}
        vfiles[n] = doc
    given = list(names)
    rng.shuffle(given)
    if k >= 2 and rng.random() < 0.35:
        given.insert(rng.randint(0, len(given)), rng.choice(given))   # a path listed twice
    if rng.random() < 0.1:
        given = given + given[:1]
    return {'kind': 'vars', 'flowir': flowir, 'vfiles': vfiles, 'given': given, 'platform': plat, 'nstages': nstages}


def gen_flowir_pkg(rng):
    nstages = rng.choice([1, 2, 2, 3])
    comps, files, inputs = [], {}, {}
    datafiles = ['%s.txt' % w for w in rng.sample(WORDS, rng.randint(1, 4))]
    for d in datafiles:
        files['data/' + d] = 'content of %s %d' % (d, rng.randint(0, 9))
    if rng.random() < 0.5:
        inputs['in_%s.csv' % rng.choice(WORDS)] = 'a,b\n1,%d\n' % rng.randint(0, 9)
    envs = {}
    if rng.random() < 0.7:
        envs['myenv'] = {'DEFAULTS': 'PATH', 'FOO': '%(x)s-foo', 'BAR': 'bar'}
    if rng.random() < 0.4:
        envs['other'] = {'ZED': 'z', 'ALPHA': 'a', 'MID': '%(y)s'}
    if rng.random() < 0.5:
        # variables that refer to each other (two hops): the expansion must not depend on the order of the keys
        envs['chain'] = {'VKA': '$VKB/a', 'VKB': '${VKC}/b', 'VKC': 'lit', 'VKD': '$VKA:$VKC', 'VKE': '$VKD'}
    plat, plat_envs = None, None
    if envs and rng.random() < 0.45:
        # environment names are case-insensitive (stored in lowercase): a platform may list two spellings of one name,
        # ONE of them not all-lowercase, with different contents; which one is served must not depend on the order
        # in which the (equal) documents list them
        base = rng.choice(sorted(envs))
        alt = respell(rng, base)
        envs[alt] = {'DEFAULTS': 'PATH', 'WHO': alt, 'FOO': '%(x)s-' + alt, 'ONLY_' + alt.upper(): 'yes'}
        envs = shuffled_keys(rng, envs)
    if rng.random() < 0.3:
        # the same on a second platform (the names of EVERY platform are normalised, the active one or not)
        plat = rng.choice([None, 'plat'])
        base = rng.choice(sorted(envs)).lower() if envs and rng.random() < 0.7 else 'platenv'
        plat_envs = {base: {'WHERE': 'plat-lower', 'BAR': 'plat-bar'}}
        if rng.random() < 0.8:
            plat_envs[respell(rng, base)] = {'WHERE': 'plat-other-spelling', 'FOO': 'plat-%(y)s'}
        plat_envs = shuffled_keys(rng, plat_envs)
    prev = []
    for s in range(nstages):
        for j in range(rng.randint(1, 3)):
            name = '%s%d%s' % (rng.choice(['gen', 'run', 'post', 'sim']), s, 'abc'[j])
            refs = []
            for d in rng.sample(datafiles, rng.randint(0, min(2, len(datafiles)))):
                refs.append('data/%s:%s' % (d, rng.choice(['ref', 'copy'])))
            for i_ in inputs:
                if rng.random() < 0.5:
                    refs.append('input/%s:ref' % i_)
            for (ps, pn, rep) in rng.sample(prev, min(len(prev), rng.randint(0, 2))):
                refs.append('stage%d.%s:%s' % (ps, pn, 'ref'))
            used = rng.sample(NAMES[:3], rng.randint(1, 3))
            c = {'name': name, 'stage': s,
                 'command': {'executable': rng.choice(['echo', 'cat', 'ls']),
                             'arguments': ' '.join(['%%(%s)s' % n for n in used] +
                                                   [r_ for r_ in refs if not r_.endswith(':copy')])},
                 'references': refs}
            if envs and rng.random() < 0.6:
                c['command']['environment'] = rng.choice(sorted(envs))
            rep = None
            if s == 0 and j == 0 and rng.random() < 0.4:
                rep = rng.randint(2, 3)
                c['workflowAttributes'] = {'replicate': rep}
            if any(p[2] for p in prev if ('stage%d.%s:ref' % (p[0], p[1])) in refs) and rng.random() < 0.5:
                c.setdefault('workflowAttributes', {})['aggregate'] = True
            if rng.random() < 0.3:
                c['variables'] = {'w': 'comp-w'}
            comps.append(c)
            prev.append((s, name, rep))
    flowir = {'components': comps,
              'variables': {'default': {'global': {n: 'pkg-%s' % n for n in NAMES[:3]}}},
              'environments': {'default': envs} if envs else {}}
    if not envs:
        del flowir['environments']
    if plat_envs is not None:
        flowir['platforms'] = ['default', 'plat']
        flowir.setdefault('environments', {})['plat'] = plat_envs
        flowir['variables']['plat'] = {'global': {'y': 'plat-y'}}
    k = rng.choice([0, 1, 2, 3])
    names = ['%s.yaml' % w for w in rng.sample(WORDS, k)]
    vfiles = {n: {'global': {v: 'f%d-%s' % (fi, v) for v in rng.sample(NAMES[:3], rng.randint(1, 3))}}
              for fi, n in enumerate(names)}
    given = list(names)
    rng.shuffle(given)
    return {'kind': 'pkg', 'format': 'flowir', 'doc': flowir, 'files': files, 'inputs': inputs, 'vfiles': vfiles,
            'given': given, 'platform': plat}


def respell(rng, name):
    """another spelling of an environment name: equal ignoring case, not all-lowercase"""
    low = name.lower()
    alts = [a for a in (low.capitalize(), low.upper(), low[:-1] + low[-1:].upper(), low[:2] + low[2:].capitalize())
            if a != low and a != name]
    return rng.choice(alts)


def shuffled_keys(rng, d):
    ks = list(d)
    rng.shuffle(ks)
    return {k_: d[k_] for k_ in ks}


CLASS_ENV = 'a_platform_lists_two_non_lowercase_spellings_of_one_environment_name'


def env_collisions(case):
    """[(platform, lowercase name, spellings listed)] for the environment names of a FlowIR document that are equal
    ignoring case"""
    out = []
    doc = case.get('doc') if case.get('format') == 'flowir' else None
    for plat_, envs_ in sorted(((doc or {}).get('environments') or {}).items()):
        by = {}
        for n in (envs_ or {}):
            by.setdefault(n.lower(), []).append(n)
        out += [(plat_, low, ns) for low, ns in sorted(by.items()) if len(ns) > 1]
    return out


def env_order_predicate(ctx, case):
    """the determinism predicate itself, in-process, on the dimension of the family: the SAME document with the
    environments of every platform listed as generated, reversed and rotated builds (real FlowIRConcrete) the same
    environments on every platform"""
    import experiment.model.frontends.flowir as F
    seen = []
    for v in range(3):
        doc = copy.deepcopy(case['doc'])
        for plat_, envs_ in list(doc['environments'].items()):
            ks = list(envs_ or {})
            ks = ks if v == 0 else (ks[::-1] if v == 1 else ks[1:] + ks[:1])
            doc['environments'][plat_] = {k_: envs_[k_] for k_ in ks}
        assert doc == case['doc']
        try:
            conc = F.FlowIRConcrete(doc, case.get('platform') or 'default', {})
            envs_of = {p_: conc.get_environments(p_) for p_ in sorted(conc.platforms)}
            seen.append(json.dumps(envs_of, sort_keys=True, default=repr))
            # the rule of the loop of FlowIR.from_dict: ONE spelling that is not all-lowercase next to the lowercase
            # one is the spelling served, whatever the order of the mapping
            for plat_, low, ns in env_collisions(case):
                upper = [n for n in ns if n != n.lower()]
                if len(upper) == 1 and envs_of.get(plat_, {}).get(low) != case['doc']['environments'][plat_][upper[0]]:
                    ctx.disagree({'case': short_case(case), 'platform': plat_, 'environment': low, 'spellings': ns,
                                  'order': v}, envs_of.get(plat_, {}).get(low), case['doc']['environments'][plat_][upper[0]],
                                 'C15: two spellings of an environment name in one platform - environment served vs the '
                                 'rule of the loop of FlowIR.from_dict (the spelling that is not all-lowercase wins)')
        except Exception as e:
            seen.append('raise ' + type(e).__name__)
    ctx.count('pkg:environment_names_equal_ignoring_case:orders_compared', len(seen))
    for v in range(1, len(seen)):
        if seen[v] != seen[0]:
            ctx.fail({'case': short_case(case), 'order_a': 'as generated', 'order_b': ['reversed', 'rotated'][v - 1],
                      'a': seen[0][:300], 'b': seen[v][:300]},
                     'equal documents that list the environments of a platform in a different order build different '
                     'environments', classes_of(case))
            break


def classes_of(case):
    """open findings: F15c (c15_reuse) and F15d: FlowIR.from_dict renames the non-lowercase environment names one by
    one in the order of the mapping - with TWO non-lowercase spellings of one name the one listed last wins"""
    cls = list(R.classes_of(case))
    for sub in [case] + list(case.get('packages') or []):
        if any(len([n for n in ns if n != n.lower()]) >= 2 for _, _, ns in env_collisions(sub)):
            cls.append(CLASS_ENV)
    return sorted(set(cls))


# ------------------------------------------------------------------ several DIFFERENT packages in ONE process
FOLDER_POOL = ['generate', 'hooks', 'scripts', 'tools', 'lib', 'templates']


def gen_folder_pkg(rng, folders):
    """a FlowIR package directory that has TOP-LEVEL folders next to conf / data (they end up in its manifest); its
    components reference files inside them and each other in the relative form"""
    files = {'data/input.txt': 'hello %d' % rng.randint(0, 9)}
    refs = ['data/input.txt:ref']
    for f in folders:
        fn = '%s/%s' % (f, rng.choice(['settings.conf', 'table.csv', 'run.sh']))
        files[fn] = 'content of %s' % fn
        refs.append('%s:%s' % (fn, rng.choice(['copy', 'ref', 'ref'])))
    rng.shuffle(refs)
    comps = [{'name': 'setup', 'stage': 0, 'references': refs,
              'command': {'executable': 'echo', 'arguments': ' '.join(['%(x)s'] + [r for r in refs if r.endswith(':ref')])}},
             {'name': 'use', 'stage': rng.choice([0, 0, 1]), 'references': ['stage0.setup:ref'],
              'command': {'executable': 'ls', 'arguments': 'stage0.setup:ref'}}]
    if comps[1]['stage'] == 0 and rng.random() < 0.7:
        comps[1]['references'], comps[1]['command']['arguments'] = ['setup:ref'], 'setup:ref'
    doc = {'components': comps, 'variables': {'default': {'global': {'x': 'pkg-x'}}}}
    return {'kind': 'pkg', 'format': 'flowir', 'doc': doc, 'files': files, 'inputs': {}, 'vfiles': {}, 'given': [],
            'platform': None, 'family': 'folders'}


def gen_multi_case(rng):
    """2-3 DIFFERENT packages that one process loads one after the other: a package whose components are referenced in
    the relative form (replicating producers, aggregating consumer), a package directory with extra top-level folders
    - mostly named like components of the first one -, now and then a third package; process v starts with package
    v mod n, so every package is also loaded by a process that has loaded nothing else"""
    b = gen_replica_pkg(rng, sensitive=rng.random() < 0.3)
    names = [c_['name'] for c_ in b['doc']['components']]
    folders = rng.sample(names, rng.randint(1, min(2, len(names)))) if rng.random() < 0.75 else []
    folders += rng.sample(FOLDER_POOL, rng.randint(0 if folders else 1, 2))
    pk = [gen_folder_pkg(rng, folders), b]
    if rng.random() < 0.4:
        pk.append(gen_flowir_pkg(rng) if rng.random() < 0.6 else gen_dsl_pkg(rng))
    rng.shuffle(pk)
    return {'kind': 'multi', 'packages': pk, 'vfiles': {}}


def gen_dsl_pkg(rng):
    nsteps = rng.randint(2, 4)
    steps = ['s%s' % w for w in rng.sample(WORDS, nsteps)]
    nested = rng.random() < 0.6
    main_steps = {}
    execute = []
    for i, st in enumerate(steps):
        if nested and i in (0, nsteps - 1):
            main_steps[st] = 'inner'
            execute.append({'target': '<%s>' % st, 'args': {'foo': '%(foo)s' if i == 0 else 'second-%(x)s'}})
            continue
        main_steps[st] = 'echo'
        args = {'message': 'hello from %s %%(x)s' % st}
        producers = [p for p in steps[:i] if main_steps[p] == 'echo']
        if producers:
            ps = rng.sample(producers, min(len(producers), rng.randint(1, 2)))
            other = ' '.join('<%s>%s' % (p, rng.choice([':output', ':ref', '/out.txt:ref', '/dir/other.txt:ref'])) for p in ps)
            if rng.random() < 0.5:
                args['message'] += ' <%s>/second.txt:ref' % ps[0]
            args['other'] = other
        else:
            args['other'] = '%(foo)s'
        if rng.random() < 0.4:
            args['environment'] = {'DEFAULTS': 'PATH', 'STEP': st if rng.random() < 0.5 else 'shared'}
        execute.append({'target': '<%s>' % st, 'args': args})
    doc = {
        'entrypoint': {'entry-instance': 'main', 'execute': [{'target': '<entry-instance>', 'args': {'foo': 'world'}}]},
        'workflows': [{'signature': {'name': 'main', 'parameters': [{'name': 'foo'}, {'name': 'x', 'default': 'dx'}]},
                       'steps': main_steps, 'execute': execute}],
        'components': [{'signature': {'name': 'echo',
                                      'parameters': [{'name': 'message'}, {'name': 'other', 'default': 'dflt'},
                                                     {'name': 'environment',
                                                      'default': {'DEFAULTS': 'PATH:LD_LIBRARY_PATH', 'AN_ENV_VAR': 'ITS_VALUE'}}]},
                        'command': {'environment': '%(environment)s', 'executable': 'echo',
                                    'arguments': '%(message)s %(other)s', 'expandArguments': 'none'}}]}
    if nested:
        doc['workflows'].append({'signature': {'name': 'inner', 'parameters': [{'name': 'foo'}]},
                                 'steps': {'greetings': 'echo', 'farewell': 'echo'},
                                 'execute': [{'target': '<greetings>', 'args': {'message': 'hi %(foo)s'}},
                                             {'target': '<farewell>', 'args': {'message': 'bye', 'other': '<greetings>:output'}}]})
    k = rng.choice([0, 1, 2, 3])
    names = ['%s.yaml' % w for w in rng.sample(WORDS, k)]
    vfiles = {n: {'global': {v: 'f%d-%s' % (fi, v) for v in rng.sample(['foo', 'x'], rng.randint(1, 2))}}
              for fi, n in enumerate(names)}
    given = list(names)
    rng.shuffle(given)
    return {'kind': 'pkg', 'format': 'dsl', 'doc': doc, 'files': {}, 'inputs': {}, 'vfiles': vfiles, 'given': given,
            'platform': None}


# ------------------------------------------------------------------ sessions: several loads in ONE process
def gen_loads(rng, names, vfiles, nloads):
    """loads of one package that SHARE variable files: the same files in another order, subsets (a single file), the
    same list twice, a repeated path; now and then a load finds another content in one of its files"""
    full = list(names)
    rng.shuffle(full)
    lists = [full]
    while len(lists) < nloads:
        prev = rng.choice(lists)
        r = rng.random()
        if r < 0.3 and len(prev) > 1:
            l = list(reversed(prev))
        elif r < 0.5:
            l = rng.sample(names, len(names))
        elif r < 0.78:
            l = rng.sample(names, rng.randint(1, max(1, len(names) - 1)))
        elif r < 0.9:
            l = list(prev)
        else:
            l = list(prev)
            l.insert(rng.randint(0, len(l)), rng.choice(l))
        lists.append(l)
    loads = [{'given': l} for l in lists]
    if rng.random() < 0.3:
        ld = rng.choice(loads[1:])
        n = rng.choice(ld['given'])
        doc = copy.deepcopy(vfiles[n])
        sect = doc.setdefault('global', {})
        sect[rng.choice(NAMES[:3])] = 'rewritten-%d' % rng.randint(0, 99)
        ld['override'] = {n: doc}
    return loads


def gen_session_case(rng, kind='vars'):
    while True:
        case = gen_vars_case(rng) if kind == 'vars' else (gen_flowir_pkg(rng) if rng.random() < 0.6 else gen_dsl_pkg(rng))
        if len(case['vfiles']) >= 2:
            break
    case['loads'] = gen_loads(rng, sorted(case['vfiles']), case['vfiles'],
                              rng.randint(3, 6) if kind == 'vars' else 3)
    case['given'] = case['loads'][0]['given']
    return case


def load_table(case, i):
    t = dict(case['vfiles'])
    t.update(case['loads'][i].get('override') or {})
    return t


def expand_loads(cases, parsed):
    """a session of n loads is n cases for the predicate and the model: (files as they were at that load, list given)
    with the dump of that load"""
    vc, vd = [], []
    for case, dump in zip(cases, parsed):
        if 'loads' not in case:
            vc.append(case)
            vd.append(dump)
            continue
        for i, ld in enumerate(case['loads']):
            c = {k: v for k, v in case.items() if k != 'loads'}
            c['given'] = ld['given']
            c['vfiles'] = load_table(case, i)
            c['session'] = {'load': i, 'loads': case['loads'], 'vfiles': case['vfiles']}
            vc.append(c)
            vd.append(dump['session'][i])
    return vc, vd


# ------------------------------------------------------------------ replicated producers + aggregating consumer (S7)
REPL_FAMILIES = [['gen', 'mygen', 'remygen'], ['sim', 'presim', 'xpresim'], ['run', 'rerun', 'prerun'],
                 ['a', 'ba', 'cba'], ['gen', 'genx', 'mygenx'], ['post', 'compost', 'post_b']]
REPL_UNRELATED = ['gen', 'sim', 'run', 'post', 'mix']


def gen_replica_components(rng, sensitive=False):
    """2-3 replicating producers in stage 0 whose names are mostly suffix / prefix related, an AGGREGATING consumer of
    >= 2 of them (relative and absolute spellings, with and without a file, longer names mostly first), optionally a
    replicated (non aggregating) consumer and a consumer of the aggregate; returns (components, replicating ids, count).
    sensitive: the systematic half of the family in which the order of the rewriting passes is observable: related
    names, consumer in the stage of the producers, relative spellings with the same file, longer names first"""
    related = sensitive or rng.random() < 0.8
    names = rng.sample(rng.choice(REPL_FAMILIES), rng.choice([2, 2, 3])) if related else \
        rng.sample(REPL_UNRELATED, rng.choice([2, 3]))
    count = rng.choice([2, 2, 3])
    by_var = rng.random() < 0.25
    comps = []
    for n in names:
        comps.append({'name': n, 'stage': 0, 'command': {'executable': 'echo', 'arguments': 'hello %(x)s'},
                      'workflowAttributes': {'replicate': '%(nrep)s' if by_var else count}})
    agg_stage = 0 if sensitive else rng.choice([0, 0, 0, 1])
    one_file = rng.choice(['', '', '/out.txt'])

    def spell(n, stage, relative_ok):
        f = one_file if sensitive else rng.choice(['', '', '', '/out.txt', '/dir/o.txt'])
        if relative_ok and stage == 0 and (sensitive or rng.random() < 0.65):
            return '%s%s:ref' % (n, f), 'stage0.%s%s:ref' % (n, f)
        return 'stage0.%s%s:ref' % (n, f), ('%s%s:ref' % (n, f)) if stage == 0 else None

    used = rng.sample(names, rng.randint(2, len(names)))
    if sensitive or rng.random() < 0.7:
        used.sort(key=len, reverse=True)
    refs, args = [], []
    for n in used:
        a, other = spell(n, agg_stage, True)
        refs.append(a)
        args.append(other if (other and not sensitive and rng.random() < 0.15) else a)
    if rng.random() < 0.3:
        rng.shuffle(args)
    if rng.random() < 0.15:
        args.append(rng.choice(args))
    if rng.random() < 0.1:
        refs.append(rng.choice(refs))
    comps.append({'name': 'agg', 'stage': agg_stage, 'references': refs,
                  'command': {'executable': 'cat', 'arguments': ' '.join(['-n %(y)s'] + args)},
                  'workflowAttributes': {'aggregate': True}})
    if rng.random() < 0.5:
        st = rng.choice([0, 1])
        rr = [spell(n, st, True)[0] for n in rng.sample(names, rng.randint(1, 2))]
        comps.append({'name': 'each', 'stage': st, 'references': rr,
                      'command': {'executable': 'wc', 'arguments': ' '.join(rr)}})
    if rng.random() < 0.4:
        comps.append({'name': 'final', 'stage': agg_stage + rng.choice([0, 1]), 'references': ['stage%d.agg:ref' % agg_stage],
                      'command': {'executable': 'ls', 'arguments': 'stage%d.agg:ref %%(x)s' % agg_stage}})
    order = list(range(len(comps)))
    if rng.random() < 0.4:
        rng.shuffle(order)
    return [comps[i] for i in order], set((0, n) for n in names), count


def gen_replica_pkg(rng, sensitive=False):
    comps, _, count = gen_replica_components(rng, sensitive)
    flowir = {'components': comps,
              'variables': {'default': {'global': {'x': 'pkg-x', 'y': 'pkg-y', 'nrep': count}}}}
    k = rng.choice([0, 0, 1, 2])
    names = ['%s.yaml' % w for w in rng.sample(WORDS, k)]
    vfiles = {n: {'global': {v: 'f%d-%s' % (fi, v) for v in rng.sample(['x', 'y'], rng.randint(1, 2))}}
              for fi, n in enumerate(names)}
    given = list(names)
    rng.shuffle(given)
    return {'kind': 'pkg', 'format': 'flowir', 'doc': flowir, 'files': {}, 'inputs': {}, 'vfiles': vfiles,
            'given': given, 'platform': None, 'family': 'replica'}


def variant_of(rng, case, v):
    """the case as process number v sees it: same content, other key orders / creation orders (v = 0: as generated)"""
    if case['kind'] == 'multi':
        n = len(case['packages'])
        lo = list(range(n))
        if v > 0:
            first = v % n
            rest = [i for i in lo if i != first]
            rng.shuffle(rest)
            lo = [first] + rest
        return {'kind': 'multi', 'packages': [variant_of(rng, p_, v) for p_ in case['packages']], 'pkg_order': lo}
    c = copy.deepcopy(case)
    if v > 0:
        if 'flowir' in c:
            c['flowir'] = permute_keys(rng, c['flowir'])
        if 'doc' in c:
            c['doc'] = permute_keys(rng, c['doc'])
        vf = {n: permute_keys(rng, d) for n, d in c['vfiles'].items()}
        ks = list(vf)
        rng.shuffle(ks)
        c['vfiles'] = {n: vf[n] for n in ks}
    order = sorted(c['vfiles'])
    forder = sorted(c.get('files', {}))
    if v > 0:
        rng.shuffle(order)
        rng.shuffle(forder)
    c['create_order'] = order if c['kind'] == 'vars' else forder
    c['vcreate_order'] = order
    if 'loads' in c:
        # every process performs the loads of a session in its own order: process v starts with load v mod n, which
        # is therefore performed by a process that has not touched the files of the session yet (a FRESH process for
        # that load); the other loads follow in a random order (as generated in process 0)
        n = len(c['loads'])
        lo = list(range(n))
        if v > 0:
            first = v % n
            rest = [i for i in lo if i != first]
            rng.shuffle(rest)
            lo = [first] + rest
        c['load_order'] = lo
        for ld in c['loads']:
            if ld.get('override'):
                ld['override'] = {k: to_transport(permute_keys(rng, d) if v > 0 else d) for k, d in ld['override'].items()}
    if 'calls' in c:
        # ONE configuration object: process v constructs it with the options of call v mod n (a fresh load of that
        # call) and re-parametrizes it with the others in its own order
        n = len(c['calls'])
        lo = list(range(n))
        if v > 0:
            first = v % n
            rest = [i for i in lo if i != first]
            rng.shuffle(rest)
            lo = [first] + rest
        c['call_order'] = lo
    c.pop('flowir_of_dosini', None)
    for key in ('flowir', 'doc'):
        if key in c:
            c[key] = to_transport(c[key])
    c['vfiles'] = {n: to_transport(d) for n, d in c['vfiles'].items()}
    return c


# ------------------------------------------------------------------ processes
STATE_CHANGES = []


def run_processes(ctx, cases, tag):
    """every case through len(SEEDS) processes; returns dumps[process][case] (strings)"""
    root = tempfile.mkdtemp(prefix='verif_c15_jobs_')
    try:
        procs = []
        for v, seed in enumerate(SEEDS):
            job = {'variant': v, 'cases': [variant_of(ctx.rng, c, v) for c in cases]}
            jp, op = os.path.join(root, 'job_%s_%d.json' % (tag, v)), os.path.join(root, 'out_%s_%d.json' % (tag, v))
            json.dump(job, open(jp, 'w'))
            env = common.impl_env()
            env['PYTHONHASHSEED'] = seed
            p = subprocess.Popen([common.PY, '-W', 'ignore', '-B', IMPL, jp, op], env=env, cwd=root,
                                 stdout=subprocess.PIPE, stderr=subprocess.STDOUT)
            procs.append((p, op))
        outs = []
        for p, op in procs:
            try:
                so, _ = p.communicate(timeout=1500)
            except subprocess.TimeoutExpired:
                p.kill()
                raise RuntimeError('c15_impl timed out')
            if not os.path.exists(op):
                raise RuntimeError('c15_impl produced no output: ' + so.decode('utf-8', 'replace')[-1500:])
            res = json.load(open(op))
            outs.append(res['dumps'])
            for name, (before, after) in sorted((res.get('state_changed') or {}).items()):
                STATE_CHANGES.append({'process': len(outs) - 1, 'run': tag, 'container': name,
                                      'before': (before or '')[:300], 'after': (after or '')[:300]})
        return outs
    finally:
        shutil.rmtree(root, ignore_errors=True)


def first_diff(a, b, path=''):
    if type(a) != type(b):
        return path or '/'
    if isinstance(a, dict):
        for k in sorted(set(a) | set(b)):
            if k not in a or k not in b:
                return '%s/%s' % (path, k)
            d = first_diff(a[k], b[k], '%s/%s' % (path, k))
            if d:
                return d
        return None
    if isinstance(a, list):
        if len(a) != len(b):
            return path + '[len]'
        for i, (x, y) in enumerate(zip(a, b)):
            d = first_diff(x, y, '%s[%d]' % (path, i))
            if d:
                return d
        return None
    return None if a == b else (path or '/')


def short_case(case):
    if case.get('kind') == 'multi':
        return {'kind': 'multi', 'vfiles': {}, 'packages': [short_case(p_) for p_ in case['packages']]}
    c = {k: case[k] for k in ('kind', 'given', 'platform', 'nstages', 'family', 'calls', 'platforms') if k in case}
    c['vfiles'] = {n: to_transport(d) for n, d in case['vfiles'].items()}
    if 'flowir' in case or 'doc' in case:
        c['flowir' if 'flowir' in case else 'doc'] = to_transport(case.get('flowir') or case.get('doc'))
    if 'flowir_of_dosini' in case:
        c['flowir_of_dosini'] = to_transport(case['flowir_of_dosini'])
    if 'files' in case:
        c['files'] = case['files']
        c['inputs'] = case['inputs']
        c['format'] = case['format']
    if 'loads' in case:
        c['loads'] = [{'given': ld['given'], 'override': {n: to_transport(d) for n, d in (ld.get('override') or {}).items()}}
                      for ld in case['loads']]
    if 'session' in case:
        ss = case['session']
        c['session'] = {'load': ss['load'], 'vfiles': {n: to_transport(d) for n, d in ss['vfiles'].items()},
                        'loads': [{'given': ld['given'],
                                   'override': {n: to_transport(d) for n, d in (ld.get('override') or {}).items()}}
                                  for ld in ss['loads']]}
    return c


def compare_processes(ctx, cases, outs):
    """the determinism predicate: the canonical dump of every case is byte-identical in every process"""
    parsed0 = []
    for ci, case in enumerate(cases):
        d0 = outs[0][ci]
        p0 = json.loads(d0)
        parsed0.append(p0)
        if 'harness_error' in p0:
            raise RuntimeError('c15_impl machinery error: %s' % p0)
        for v in range(1, len(outs)):
            if outs[v][ci] != d0:
                pv = json.loads(outs[v][ci])
                where = first_diff(p0, pv)
                what = 'canonical dump differs between processes at %s' % _generalise(where)
                ctx.fail({'case': short_case(case), 'seed_a': SEEDS[0], 'seed_b': SEEDS[v], 'where': where,
                          'process_a': 0, 'process_b': v, 'a': _at(p0, where), 'b': _at(pv, where)}, what,
                         classes_of(case))
                break
    return parsed0


def _generalise(where):
    import re
    parts = [p for p in (where or '/').split('/') if p]
    return '/' + '/'.join(re.sub(r'\[\d+\]', '[]', p) for p in parts[:2])


def _at(o, where):
    try:
        import re
        for tok in re.findall(r'/([^/\[]+)|\[(\d+)\]', where or ''):
            o = o[tok[0]] if tok[0] else o[int(tok[1])]
        return json.dumps(o)[:300]
    except Exception:
        return None


# ------------------------------------------------------------------ vars cases: predicate + model
def leaf_paths(case):
    ps = []
    for n, doc in case['vfiles'].items():
        for v in (doc.get('global') or {}):
            ps.append(('global', v))
        for s, d in (doc.get('stages') or {}).items():
            for v in d:
                ps.append(('stages', str(s), v))
    return sorted(set(ps))


def get_path(doc, p):
    o = doc
    for k in p:
        if not isinstance(o, dict):
            return None
        o2 = {str(a): b for a, b in o.items()}
        if k not in o2:
            return None
        o = o2[k]
    return o


def last_def(case, p):
    val, found = None, False
    for n in case['given']:
        d = case['vfiles'][n]
        o = {str(a): b for a, b in d.items()}
        cur = o
        ok = True
        for k in p:
            cur = {str(a): b for a, b in cur.items()} if isinstance(cur, dict) else None
            if cur is None or k not in cur:
                ok = False
                break
            cur = cur[k]
        if ok:
            val, found = cur, True
    return found, val


def check_vars(ctx, cases, parsed, terms, term_cases, layer_terms=None):
    for case, dump in zip(cases, parsed):
        paths = leaf_paths(case)
        if 'session' in case:
            ctx.count('session:vars_load')
            ctx.count('session:vars_load:%s' % ('other_content' if case['session']['loads'][case['session']['load']].get('override')
                                                else 'same_content'))
        lm = dump.get('layer_many')
        if lm is not None and layer_terms is not None:
            # layer_many_variable_files on the list as given: last file wins + Det.Model.layer_many
            if 'error' in lm:
                ctx.fail({'case': short_case(case), 'how': 'layer_many_variable_files', 'error': lm['error']},
                         'loading valid user variable files raised', [])
            else:
                for p_ in paths:
                    found, want = last_def(case, p_)
                    got = get_path(lm['uv'], p_)
                    if got != want or type(got) != type(want):
                        ctx.fail({'case': short_case(case), 'how': 'layer_many_variable_files', 'variable': list(p_),
                                  'got': got, 'last_file_gives': want},
                                 'a user variable does not have the value of the last file given that defines it', [])
                        break
            layer_terms.append((cpair(cpair(clist(sorted(case['vfiles'].items()), lambda kv: cpair(cstr(kv[0]), cjv(kv[1]))),
                                            clist(case['given'], cstr)),
                                      copt(None if 'error' in lm else lm['uv'], cjv)),
                                {'case': short_case(case), 'impl_layer_many': lm}))
        multi = sum(1 for p in paths if sum(1 for n in set(case['given']) if get_path(case['vfiles'][n], p) is not None) >= 2)
        ctx.case([case['given'], case['vfiles'], case['flowir']], multi >= 1 and len(set(case['given'])) >= 2)
        ctx.count('vars:files=%d' % len(set(case['given'])))
        ctx.count('vars:repeated_path' if len(set(case['given'])) < len(case['given']) else 'vars:distinct_paths')
        ctx.count('vars:doubly_defined>=1' if multi else 'vars:no_overlap')
        sc = short_case(case)
        for how in ('init', 'parametrize'):
            r = dump[how]
            if 'error' in r:
                ctx.fail({'case': sc, 'how': how, 'error': r['error']}, 'loading valid user variable files raised', [])
                uv = None
            else:
                uv = r['uv']
                if r['layered'] != dedup_last(case['given']):
                    ctx.disagree({'case': sc, 'how': how}, r['layered'], dedup_last(case['given']),
                                 'C15 S1: files layered by %s vs Det.Model.dedup_last' % how)
                for p in paths:
                    found, want = last_def(case, p)
                    got = get_path(uv, p)
                    if got != want or type(got) != type(want):
                        ctx.fail({'case': sc, 'how': how, 'variable': list(p), 'got': got, 'last_file_gives': want},
                                 'a user variable does not have the value of the last file given that defines it', [])
                        break
                # resolved configurations: a user variable (stage, else global) beats every package level value
                for cname, conf in r['components'].items():
                    if not isinstance(conf, dict):
                        continue
                    s = str(conf['stage'])
                    for name in NAMES:
                        f1, v1 = last_def(case, ('stages', s, name))
                        f2, v2 = last_def(case, ('global', name))
                        if f1 or f2:
                            want = v1 if f1 else v2
                            got = conf['variables'].get(name)
                            if got != want or type(got) != type(want):
                                ctx.fail({'case': sc, 'how': how, 'component': cname, 'variable': name, 'got': got,
                                          'want': want},
                                         'the resolved configuration of a component does not use the last-wins user variable', [])
                                break
            # model
            tbl = clist(sorted(case['vfiles'].items()), lambda kv: cpair(cstr(kv[0]), cjv(kv[1])))
            files = clist(case['given'], cstr)
            ps = clist(paths, lambda p: clist(list(p), cstr))
            before = r.get('stage_vars_before', {}) if 'error' not in r else {}
            stages = clist(sorted(before.items()), lambda kv: cpair(cstr(kv[0]), cjv(kv[1])))
            impl_uv = copt(uv, cjv)
            impl_inj = clist(sorted((r.get('stage_vars') or {}).items()) if 'error' not in r else [],
                             lambda kv: cpair(cstr(kv[0]), cjv(kv[1])))
            terms.append(cpair(cpair(cpair(tbl, files), cpair(ps, stages)), cpair(impl_uv, impl_inj)))
            term_cases.append({'case': sc, 'how': how, 'impl_user_variables': uv})
        if 'error' not in dump['init']:
            ctx.sample({'given': case['given'], 'files': case['vfiles'], 'layered': dump['init']['layered'],
                        'user_variables': dump['init']['uv']}, limit=4)


def check_pkgs(ctx, cases, parsed, ref_terms):
    for case, dump in zip(cases, parsed):
        ok = 'error' not in dump
        ncomp = len(dump.get('names', []))
        ctx.case([case['format'], case['doc'], case['given'], case['vfiles']], ok and ncomp >= 2)
        ctx.count('pkg:%s:%s' % (case['format'], 'loaded' if ok else 'rejected:' + dump['error']))
        if 'session' in case:
            ctx.count('session:pkg_load')
        if case.get('family') == 'replica':
            ctx.count('pkg:replica_family:%s' % ('loaded' if ok else 'rejected:' + dump['error']))
            if ok:
                agg = [n for n in dump['names'] if n.endswith('.agg')]
                ctx.count('pkg:replica_family:aggregate_producers', sum(len([e for e in dump['edges'] if e[1] == a]) for a in agg))
        if case.get('family') == 'dslrep':
            ctx.count('pkg:dsl_replicate_family:%s' % ('loaded' if ok else 'rejected:' + dump['error']))
            if ok:
                ctx.count('pkg:dsl_replicate_family:replicas', sum(1 for n in dump['names'] if n[-1:].isdigit()))
        if case.get('family') == 'stagevars':
            SVH.check_pkg(ctx, case, dump, short_case)
        if not ok:
            continue
        # environment names equal ignoring case: the spelling that is NOT all-lowercase is the one served (the loop of
        # FlowIR.from_dict renames it over the lowercase one, whatever the order of the mapping)
        for plat_, low, ns in env_collisions(case):
            upper = [n for n in ns if n != n.lower()]
            ctx.count('pkg:environment_names_equal_ignoring_case:%s' % ('default' if plat_ == 'default' else 'other_platform'))
        if env_collisions(case) and 'session' not in case:
            env_order_predicate(ctx, case)
        ctx.count('pkg:components', ncomp)
        hashed = sum(1 for h in dump['memoization'].values() if isinstance(h, list) and h[0])
        ctx.count('pkg:memoization_hashes', hashed)
        for n, conf in dump['components'].items():
            if isinstance(conf, dict):
                refs = conf.get('references', [])
                # S4 speaks of the references as the DSL front-end leaves them; the replication of an aggregating
                # component expands each of them in place into the references to the replicas (document order)
                if case['format'] == 'dsl' and not (conf.get('workflowAttributes') or {}).get('aggregate'):
                    ref_terms.append((cpair(clist(refs, cstr), clist(refs, cstr)), {'component': n, 'references': refs}))
        # last file wins, seen through the resolved configurations
        for name in ('x', 'y', 'w', 'foo'):
            want = None
            for f in case['given']:
                if name in case['vfiles'][f].get('global', {}):
                    want = case['vfiles'][f]['global'][name]
            if want is None:
                continue
            if case['format'] == 'flowir':
                for n, conf in dump['components'].items():
                    if isinstance(conf, dict) and name in conf.get('variables', {}) and name not in \
                            (_comp_of(case, n).get('variables') or {}):
                        if conf['variables'][name] != want:
                            ctx.fail({'case': short_case(case), 'component': n, 'variable': name,
                                      'got': conf['variables'][name], 'want': want},
                                     'the resolved configuration of a component does not use the last-wins user variable', [])
            else:
                if dump['user_variables'].get('global', {}).get(name) != want:
                    ctx.fail({'case': short_case(case), 'variable': name, 'got': dump['user_variables'], 'want': want},
                             'a user variable does not have the value of the last file given that defines it', [])
        ctx.sample({'format': case['format'], 'names': dump['names'], 'edges': dump['edges'][:6],
                    'hashes': {k: (v[0] if isinstance(v, list) else v) for k, v in list(dump['memoization'].items())[:3]}},
                   limit=6)


# ------------------------------------------------------------------ ONE object re-parametrized / DOSINI instances
HEADER_REPARAM = HEADER + '\nRequire Import V.Det.Reparam.'


def _stage_table(d):
    return clist(sorted((d or {}).items(), key=lambda kv: int(kv[0])), lambda kv: cpair(cstr(kv[0]), cjv(kv[1])))


def check_cfgs(ctx, pairs):
    terms, tcases = [], []
    for case, dump in pairs:
        sc = short_case(case)
        classes = R.classes_of(case)
        calls = case['calls']
        ctx.count('reparam:%s' % case['format'])
        ctx.count('reparam:calls', len(calls))
        ctx.count('reparam:calls_without_variable_files', sum(1 for c in calls if not c['given']))
        ctx.count('reparam:platform_changes', sum(1 for a, b in zip(calls, calls[1:]) if a['platform'] != b['platform']))
        if classes:
            ctx.count('reparam:in_class_of_open_finding_F15c')
        differing = len(set(json.dumps([c['given'], c['platform']]) for c in calls))
        ctx.case(['cfg', case['format'], case.get('flowir') or case.get('doc') or case.get('files'), case['vfiles'], calls],
                 differing >= 2)
        ok = True
        for i, (call, r) in enumerate(zip(calls, dump['calls'])):
            pseudo = {'vfiles': case['vfiles'], 'given': call['given']}
            if 'error' in r:
                ok = False
                ctx.fail({'case': sc, 'call': i, 'error': r['error']},
                         'a configuration object raised when it was (re-)parametrized with valid options', classes)
                continue
            if r['layered'] != dedup_last(call['given']):
                ctx.disagree({'case': sc, 'call': i}, r['layered'], dedup_last(call['given']),
                             'C15 S1: files layered by a re-parametrized object vs Det.Model.dedup_last')
            for p_ in leaf_paths(pseudo):
                found, want = last_def(pseudo, p_)
                got = get_path(r['uv'], p_)
                if got != want or type(got) != type(want):
                    ctx.fail({'case': sc, 'call': i, 'variable': list(p_), 'got': got, 'last_file_gives': want},
                             'a user variable does not have the value of the last file given that defines it', classes)
                    break
            if case['format'] != 'dsl':
                for cname, conf in r['components'].items():
                    if not isinstance(conf, dict):
                        continue
                    for name in NAMES:
                        f1, v1 = last_def(pseudo, ('stages', str(conf['stage']), name))
                        f2, v2 = last_def(pseudo, ('global', name))
                        if (f1 or f2) and conf['variables'].get(name) != (v1 if f1 else v2):
                            ctx.fail({'case': sc, 'call': i, 'component': cname, 'variable': name,
                                      'got': conf['variables'].get(name), 'want': v1 if f1 else v2},
                                     'the resolved configuration of a component does not use the last-wins user variable',
                                     classes)
                            break
        if ok and not classes:
            plats = sorted(set(c['platform'] or 'default' for c in calls))
            pristine = {}
            for call, r in zip(calls, dump['calls']):
                pristine[call['platform'] or 'default'] = r['stage_vars_before']
            tbl = clist(sorted(case['vfiles'].items()), lambda kv: cpair(cstr(kv[0]), cjv(kv[1])))
            pkg = clist(plats, lambda pl: cpair(cstr(pl), _stage_table(pristine[pl])))
            cl = clist(calls, lambda c: cpair(clist(c['given'], cstr), cstr(c['platform'] or 'default')))
            impl = clist(dump['calls'], lambda r: cpair(copt(r['uv'], cjv), _stage_table(r['stage_vars'])))
            terms.append(cpair(cpair(cpair(tbl, pkg), cl), impl))
            tcases.append({'case': sc, 'impl_answers': [{'uv': r['uv'], 'stage_vars': r['stage_vars']} for r in dump['calls']]})
    bad = ctx.model_mismatches(HEADER_REPARAM, terms, 'check_reparam', chunk=40, name='reparam')
    for i in bad:
        ctx.disagree(tcases[i], tcases[i]['impl_answers'], 'Det.Reparam.answers id/rev',
                     'C15: answers of ONE re-parametrized configuration object vs Det.Reparam.answers')


def _essence(d):
    """what a loaded configuration serves, without what legitimately names the directory it was read from"""
    return {k: d.get(k) for k in ('error', 'uv', 'platform', 'stage_vars', 'stage_vars_every_platform', 'global',
                                  'environments', 'components')}


def check_insts(ctx, pairs):
    for case, dump in pairs:
        sc = short_case(case)
        ctx.count('dosini_instance')
        if 'error' in dump:
            ctx.count('dosini_instance:not_instantiated:' + dump['error'])
            ctx.case(['inst', case['files'], case['vfiles'], case['given'], case['platform']], False)
            continue
        both = [f for f in dump['stage_files'] if f.endswith('.instance.conf')
                and f.replace('.instance.conf', '.conf') in dump['stage_files']]
        ctx.count('dosini_instance:stages_with_both_flavours', len(both))
        pk, pf, inst = dump['package'], dump['package_flavour_of_instance'], dump['instance_flavour_of_instance']
        differ = json.dumps(_essence(pf), sort_keys=True) != json.dumps(_essence(inst), sort_keys=True)
        ctx.count('dosini_instance:%s' % ('flavours_differ' if differ else 'flavours_serve_the_same'))
        ctx.case(['inst', case['files'], case['vfiles'], case['given'], case['platform']], bool(both) and differ)
        for label, d in (('package', pk), ('package flavour of the instance', pf), ('instance flavour of the instance', inst)):
            if 'error' in d:
                ctx.fail({'case': sc, 'load': label, 'error': d['error']}, 'loading a valid DOSINI directory raised', [])
        # the package flavour of an instance directory is the package the instance was made of (same options)
        for label, d in (('the package flavour of the instance directory', pf), ('the package, loaded again', dump['package_again'])):
            if 'error' not in pk and 'error' not in d:
                where = first_diff(_essence(pk), _essence(d))
                if where:
                    ctx.fail({'case': sc, 'where': where, 'package': _at(_essence(pk), where), 'other': _at(_essence(d), where)},
                             '%s does not load like the package at %s' % (label, _generalise(where)), [])
        # the instance flavour serves the user variables the instance was created with
        if 'error' not in inst:
            pseudo = {'vfiles': case['vfiles'], 'given': case['given']}
            for cname, conf in inst['components'].items():
                if not isinstance(conf, dict):
                    continue
                for name in NAMES:
                    f1, v1 = last_def(pseudo, ('stages', str(conf['stage']), name))
                    f2, v2 = last_def(pseudo, ('global', name))
                    if (f1 or f2) and str(conf['variables'].get(name)) != str(v1 if f1 else v2):
                        ctx.fail({'case': sc, 'component': cname, 'variable': name, 'got': conf['variables'].get(name),
                                  'want': v1 if f1 else v2},
                                 'the instance flavour of a DOSINI instance does not serve the last-wins user variable', [])
                        break


def _comp_of(case, node):
    for c in case['doc']['components']:
        nm = 'stage%d.%s' % (c.get('stage', 0), c['name'])
        if node == nm or (node.startswith(nm) and node[len(nm):].isdigit()):
            return c
    return {}


# ------------------------------------------------------------------ in-process: override_object, memoization buffer
def gen_jv(rng, depth, keys):
    r = rng.random()
    if depth <= 0 or r < 0.35:
        c = rng.random()
        if c < 0.5:
            return rng.choice(['a', 'bb', 'executable', 'files', 'x y', '', 'Zed', '10', '9'])
        if c < 0.7:
            return rng.choice([0, 1, 5, -2, 10, 9])
        if c < 0.8:
            return rng.choice([True, False])
        if c < 0.9:
            return None
        return [rng.choice(['b', 'a', 'c', 'B', 'ab']) for _ in range(rng.randint(0, 3))]
    ks = rng.sample(keys, rng.randint(0, min(4, len(keys))))
    return {k: gen_jv(rng, depth - 1, keys) for k in ks}


def inprocess(ctx):
    import experiment.model.frontends.flowir as F
    import experiment.model.graph as G
    rng = ctx.rng
    keys = ['k1', 'k2', 'alpha', 'beta', 'global', 'stages', 'zz', 'A']
    n = 300 if ctx.tier == 'quick' else 3000
    terms, descr = [], []
    for i in range(n):
        old = gen_jv(rng, 3, keys) if rng.random() < 0.9 else rng.choice([None, 'str', 3])
        new = gen_jv(rng, 3, keys)
        if rng.random() < 0.15 and isinstance(old, dict):
            new = permute_keys(rng, copy.deepcopy(old))
        try:
            res = F.FlowIR.override_object(copy.deepcopy(old), copy.deepcopy(new))
            ok = True
        except AttributeError:
            res, ok = None, False
        ctx.case(['override', old, new], isinstance(old, dict) and isinstance(new, dict) and bool(set(old) & set(new)))
        ctx.count('override:%s' % ('raises' if not ok else ('dict' if isinstance(res, dict) else 'scalar')))
        if ok:
            # the predicate for one call: the result is the same map for the key-permuted arguments
            res2 = F.FlowIR.override_object(permute_keys(rng, copy.deepcopy(old)), permute_keys(rng, copy.deepcopy(new)))
            if res2 != res:
                ctx.fail({'old': old, 'new': new, 'a': res, 'b': res2},
                         'override_object gives a different map for key-permuted but equal arguments', [])
        terms.append(cpair(cpair(cjv(old), cjv(new)), ('(Some %s)' % cjv(res)) if ok else 'None'))
        descr.append({'old': old, 'new': new, 'impl': res if ok else 'AttributeError'})
    bad = ctx.model_mismatches(HEADER, terms, 'check_override', chunk=150, name='override')
    for i in bad:
        ctx.disagree(descr[i], descr[i]['impl'], 'override_pi id/rev', 'C15 S2: FlowIR.override_object vs Det.Model.override_pi')

    # memoization buffer
    class Rec(object):
        last = None

        def md5(self, *a):
            real = hashlib.md5(*a)
            rec = self

            class H(object):
                buf = b''

                def update(s, data):
                    s.buf += data
                    real.update(data)
                    rec.last = s

                def hexdigest(s):
                    return real.hexdigest()
            return H()

        def __getattr__(self, name):
            return getattr(hashlib, name)
    rec = Rec()
    orig = G.hashlib
    G.hashlib = rec
    terms, descr = [], []
    try:
        for i in range(n // 2):
            d = gen_jv(rng, 3, ['files', 'command', 'executable', 'arguments', 'backend', 'image', 'k', 'Z'])
            if not isinstance(d, dict):
                d = {'k': d}

            def run(x):
                rec.last = None
                try:
                    h = G.ComponentSpecification._memoization_info_to_hash(x)
                    return h, (rec.last.buf.decode('utf-8') if rec.last else '')
                except Exception as e:
                    return 'raise ' + type(e).__name__, None
            h, buf = run(copy.deepcopy(d))
            h2, buf2 = run(permute_keys(rng, copy.deepcopy(d)))
            ctx.case(['memo', d], any(isinstance(v, dict) and len(v) > 1 for v in d.values()))
            ctx.count('memo:%s' % ('hash' if buf is not None else h))
            if (h, buf) != (h2, buf2):
                ctx.fail({'info': d, 'a': [h, buf], 'b': [h2, buf2]},
                         'the memoization hash of a key-permuted but equal info dictionary differs', [])
            if buf is not None and any(isinstance(x, list) and any(not isinstance(y, str) for y in x) for x in _walk(d)):
                continue  # lists with non-string members are outside the model
            terms.append(cpair(cjv(d), copt(buf, cstr)))
            descr.append({'info': d, 'impl_buffer': buf})
    finally:
        G.hashlib = orig
    bad = ctx.model_mismatches(HEADER, terms, 'check_ser', chunk=150, name='ser')
    for i in bad:
        ctx.disagree(descr[i], descr[i]['impl_buffer'], 'ser_pi id/rev',
                     'C15 S3: _memoization_info_to_hash buffer vs Det.Model.ser_pi')


# ------------------------------------------------------------------ in-process: S5, output references -> data references
S5_SPELLINGS = ['<a>:ref', '<b>:output', '<a>/out.txt:ref', '<b>/dir/o.txt:ref', '<a>:output', '<b>:ref',
                '<b/x<entry-instance/a>>:ref', '<b/x<entry-instance/a>:ref', '<a/y<entry-instance/b>/dir/o.txt>:ref',
                '<a/<entry-instance/b>>:output', 'plain', 'stage0.a:ref-like', '<b/dir/o.txt>:ref', '<a/out.txt>:copy']


def gen_s5_namespace(rng):
    def text(lo, hi):
        return ' '.join(rng.sample(S5_SPELLINGS, rng.randint(lo, hi)))
    consumers = ['c', 'd'][:rng.randint(1, 2)]
    steps = {'a': 'echo', 'b': 'echo'}
    execute = [{'target': '<a>', 'args': {'message': 'hello a'}}, {'target': '<b>', 'args': {'message': 'hello b'}}]
    for c in consumers:
        steps[c] = 'echo'
        args = {'message': text(1, 3)}
        if rng.random() < 0.7:
            args['other'] = text(1, 3)
        execute.append({'target': '<%s>' % c, 'args': args})
    return {
        'entrypoint': {'entry-instance': 'main', 'execute': [{'target': '<entry-instance>', 'args': {}}]},
        'workflows': [{'signature': {'name': 'main', 'parameters': []}, 'steps': steps, 'execute': execute}],
        'components': [{'signature': {'name': 'echo', 'parameters': [{'name': 'message'}, {'name': 'other', 'default': 'dflt'}]},
                        'command': {'executable': 'echo',
                                    'arguments': rng.choice(['%(message)s %(other)s', '%(other)s -- %(message)s',
                                                             '-m %(message)s', '%(message)s %(other)s %(message)s']),
                                    'expandArguments': 'none'}}]}


def s5_inprocess(ctx, only=None):
    """the loop of ComponentFlowIR.convert_outputreferences_to_datareferences on the real code (through
    namespace_to_flowir) vs Det.Model.replace_refs_sorted; the set of reference strings and their replacements are
    recomputed here with the real OutputReference.from_str / .split"""
    import re
    import experiment.model.frontends.dsl as dsl
    rng = ctx.rng
    pat = re.compile(dsl.OutputReferenceVanilla)
    orig = dsl.ComponentFlowIR.convert_outputreferences_to_datareferences
    records = []

    def wrapper(self, uid_to_name, location):
        before = self.flowir.get('command', {}).get('arguments', '')
        params = dict(self.scope.parameters)
        raised = True
        try:
            r = orig(self, uid_to_name, location)
            raised = False
            return r
        finally:
            records.append({'before': before, 'params': params, 'uid_to_name': dict(uid_to_name), 'raised': raised,
                            'after': self.flowir.get('command', {}).get('arguments'), 'step': list(self.scope.location)})
    docs = [c['doc'] for c in corpus_cases() if c['kind'] == 'pkg' and c.get('format') == 'dsl']
    for _ in range(60 if ctx.tier == 'quick' else 600):
        docs.append(gen_s5_namespace(rng))
    for _ in range(5 if ctx.tier == 'quick' else 40):
        docs.append(gen_dsl_pkg(rng)['doc'])
    if only is not None:
        docs = only
    terms, descr = [], []
    dsl.ComponentFlowIR.convert_outputreferences_to_datareferences = wrapper
    try:
        for doc in docs:
            del records[:]
            try:
                dsl.namespace_to_flowir(dsl.Namespace(**copy.deepcopy(doc)))
                outcome = 'converted'
            except Exception as e:
                outcome = 'rejected:' + type(e).__name__
            ctx.count('s5:namespace:' + outcome)
            dsl.ComponentFlowIR.convert_outputreferences_to_datareferences = orig
            try:
                same_for_permuted_keys(ctx, dsl, doc, 's5', copies=1 if only is None else 8)
            finally:
                dsl.ComponentFlowIR.convert_outputreferences_to_datareferences = wrapper
            for rec in records:
                if rec['raised'] or not isinstance(rec['before'], str):
                    ctx.count('s5:component:raised')
                    continue
                found = set()
                for text in [rec['before']] + [v for v in rec['params'].values() if isinstance(v, str)]:
                    for m in pat.finditer(text):
                        if dsl.OutputReference.from_str(m.group(0)).method:
                            found.add(m.group(0))
                mapping = {}
                for r in found:
                    ref = dsl.OutputReference.from_str(r)
                    try:
                        producer, fileref = ref.split(scopes=rec['uid_to_name'])
                    except ValueError:
                        continue
                    stage, name = rec['uid_to_name'][producer]
                    new = 'stage%d.%s' % (stage, name)
                    if fileref:
                        new = '/'.join((new, fileref))
                    mapping[r] = ':'.join((new, ref.method))
                nested = any(a != b and (a in b or a in mapping[b]) for a in mapping for b in mapping)
                ctx.case(['s5', rec['before'], sorted(mapping.items())], len(mapping) >= 2)
                ctx.count('s5:refs=%d%s' % (min(len(mapping), 4), ':nested' if nested else ''))
                terms.append(cpair(cpair(clist(sorted(mapping.items()), lambda kv: cpair(cstr(kv[0]), cstr(kv[1]))),
                                         cstr(rec['before'])), cstr(rec['after'])))
                descr.append({'doc': doc, 'step': rec['step'], 'arguments_before': rec['before'],
                              'replacements': sorted(mapping.items()), 'impl_arguments': rec['after']})
                if nested:
                    ctx.sample({'s5_arguments_before': rec['before'], 'replacements': sorted(mapping.items()),
                                'arguments_after': rec['after']}, limit=2)
    finally:
        dsl.ComponentFlowIR.convert_outputreferences_to_datareferences = orig
    bad = ctx.model_mismatches(HEADER, terms, 'check_replace', chunk=150, name='replace')
    for i in bad:
        ctx.disagree(descr[i], descr[i]['impl_arguments'], 'replace_refs_sorted id/rev',
                     'C15 S5: arguments after convert_outputreferences_to_datareferences vs Det.Model.replace_refs_sorted')


# ------------------------------------------------------------------ in-process: S7, aggregation of replicated references
HEADER_AGG = HEADER + '\nRequire Import V.Det.Aggregate.'


def s7_inprocess(ctx, only=None):
    """the real FlowIR.apply_replicate on generated component lists; for every aggregating component: the collection
    of replicated references it hands to compile_component_aggregate vs the document-ordered list, and the closure
    `aggregate(string)` of the real compile_component_aggregate (built from that collection) on the strings of the
    component and on strings that mix the spellings vs Det.Aggregate.aggregate_list over the document-ordered list.
    Which producers are replicated is taken from the real propagate_replicate; the spellings and the references to
    the replicas are recomputed with the real ParseDataReferenceFull / compile_reference."""
    import experiment.model.frontends.flowir as F
    FI = F.FlowIR
    rng = ctx.rng
    jobs = [(c['doc']['components'], c['doc'].get('variables', {}).get('default', {}).get('global', {}))
            for c in corpus_cases() if c.get('family') == 'replica']
    for _ in range(120 if ctx.tier == 'quick' else 1200):
        comps, _r, count = gen_replica_components(rng, sensitive=rng.random() < 0.3)
        jobs.append((comps, {'x': 'vx', 'y': 'vy', 'nrep': count}))
    if only is not None:
        jobs = only
    rec = {'calls': [], 'instr': None, 'cur': None}
    o_agg, o_rs, o_pr = FI.__dict__['compile_component_aggregate'], FI.__dict__['replace_strings'], FI.__dict__['propagate_replicate']

    def w_agg(cls, component, count, refs_to_replicate):
        call = {'component': copy.deepcopy(component), 'count': count, 'received': refs_to_replicate, 'closure': None}
        rec['cur'] = call
        try:
            return o_agg.__func__(cls, component, count, refs_to_replicate)
        finally:
            rec['cur'] = None
            rec['calls'].append(call)

    def w_rs(cls, obj, func, *a, **kw):
        if rec['cur'] is not None and rec['cur']['closure'] is None:
            rec['cur']['closure'] = func
        return o_rs.__func__(cls, obj, func, *a, **kw)

    def w_pr(cls, *a, **kw):
        rec['instr'] = o_pr.__func__(cls, *a, **kw)
        return rec['instr']
    terms, descr = [], []
    FI.compile_component_aggregate, FI.replace_strings, FI.propagate_replicate = classmethod(w_agg), classmethod(w_rs), classmethod(w_pr)
    try:
        for comps, gvars in jobs:
            rec['calls'], rec['instr'] = [], None
            try:
                FI.apply_replicate(copy.deepcopy(comps), {'global': dict(gvars), 'stages': {}}, False, [], [])
                ctx.count('s7:apply_replicate:ok')
            except Exception as e:
                ctx.count('s7:apply_replicate:raised:' + type(e).__name__)
            for call in rec['calls']:
                comp, count = call['component'], call['count']
                stage = comp.get('stage', 0)
                expected, tm = [], {}
                for ref in comp.get('references', []):
                    sidx, producer, filename, method = FI.ParseDataReferenceFull(ref, stage, application_dependencies=[],
                                                                                special_folders=[])
                    if sidx is None or (sidx, producer) not in rec['instr']:
                        continue
                    rep, is_agg = rec['instr'][(sidx, producer)]
                    if not (rep is not None and rep > 0 and is_agg is False):
                        continue
                    ab = FI.compile_reference(producer, filename, method, stage_index=sidx)
                    rl = FI.compile_reference(producer, filename, method)
                    news = [FI.compile_reference(producer, filename, method, stage_index=sidx, replica_id=k) for k in range(count)]
                    expected.append((ab, rl))
                    tm.setdefault(ab, []).extend(news)
                    tm.setdefault(rl, []).extend(news)
                names = [e[1].split(':')[0].split('/')[0] for e in expected]
                related = any(a != b and (a.endswith(b) or a.startswith(b)) for a in names for b in names)
                ctx.case(['s7', comp.get('references'), comp['command'].get('arguments'), count], len(set(expected)) >= 2)
                ctx.count('s7:aggregate:producers=%d%s' % (min(len(set(expected)), 3), ':related_names' if related else ''))
                received = call['received']
                if not isinstance(received, list) or list(received) != [e[0] for e in expected]:
                    ctx.disagree({'component': comp, 'replicated_references_in_document_order': [e[0] for e in expected]},
                                 '%s %r' % (type(received).__name__, sorted(received) if not isinstance(received, list) else received),
                                 'the list in the order of the references field',
                                 'C15 S7: collection of replicated references handed to compile_component_aggregate vs the '
                                 'document-ordered list of Det.Aggregate.aggregate_list')
                if call['closure'] is None:
                    continue
                if any(' '.join(tm[a]) != ' '.join(tm[r]) for a, r in expected):
                    ctx.count('s7:outside_model:two_producers_share_a_relative_spelling')
                    continue
                strings = [comp['command'].get('arguments', '')] + list(comp.get('references', []))
                sp = [x for e in expected for x in e] + ['plain', '-o']
                for _ in range(2):
                    strings.append(' '.join(rng.choice(sp) for _ in range(rng.randint(1, 4))))
                for st in strings:
                    if not isinstance(st, str):
                        continue
                    out = call['closure'](st)
                    terms.append(cpair(cpair(clist(expected, lambda e: cpair(cpair(cstr(e[0]), cstr(e[1])), clist(tm[e[0]], cstr))),
                                             cstr(st)), cstr(out)))
                    descr.append({'component': comp, 'count': count, 'string': st, 'impl': out,
                                  'replicated_references_in_document_order': expected})
                if related:
                    ctx.sample({'s7_references': comp.get('references'), 'arguments': comp['command'].get('arguments'),
                                'aggregated': call['closure'](comp['command'].get('arguments', ''))}, limit=8)
    finally:
        FI.compile_component_aggregate, FI.replace_strings, FI.propagate_replicate = o_agg, o_rs, o_pr
    bad = ctx.model_mismatches(HEADER_AGG, terms, 'check_aggregate', chunk=150, name='aggregate')
    for i in bad:
        ctx.disagree(descr[i], descr[i]['impl'], 'Det.Aggregate.aggregate_list (document order)',
                     'C15 S7: string rewritten by the closure of compile_component_aggregate vs Det.Aggregate.aggregate_list')


# ------------------------------------------------------------------ in-process: S6, component / environment naming
NAME_POOL = ['a', 'b', 'a-I', 'stage1.a', 'stage0.b', 'x.y', 'b-I', 'stage1.b-I', 'gen', 'stage2.gen', 'a-II',
             'stage0.a', 'stage1.a-I', 'post', 'stage10.post']
ENV_POOL = [None, None, {}, {'DEFAULTS': 'PATH', 'FOO': 'foo'}, {'FOO': 'foo', 'DEFAULTS': 'PATH'},
            {'DEFAULTS': 'PATH', 'FOO': 'bar'}, {'A': '1', 'B': 2, 'C': None}, {'B': 2, 'A': '1'}, {'C': None, 'B': '2', 'A': 1},
            {'ONLY': None}]


def gen_naming_namespace(rng):
    """nested workflows whose step names repeat, collide with de-duplicated names (a, a, a-I) or differ by a
    stage prefix; steps mappings and execute lists in independent random orders; environments that are equal up to
    key order / None values"""
    nwf = rng.choice([1, 2, 2, 3])
    wnames = ['main', 'inner', 'deep'][:nwf]
    workflows = []
    for wi, wn in enumerate(wnames):
        k = rng.randint(1, 4)
        names = rng.sample(NAME_POOL, k)
        if rng.random() < 0.06:
            names[0] = rng.choice(['a1', 'stage1.7'])       # not a valid component name: the namespace is rejected
        steps, args = {}, {}
        for n in names:
            r = rng.random()
            if wi + 1 < nwf and r < 0.45:
                steps[n] = wnames[wi + 1]
                args[n] = {}
            else:
                steps[n] = rng.choice(['echo', 'echo', 'plain'])
                args[n] = {'message': 'hello from %s' % n}
                if steps[n] == 'echo' and rng.random() < 0.7:
                    e = rng.choice(ENV_POOL)
                    if e is not None:
                        args[n]['environment'] = dict(e)
        if wi + 1 < nwf and wnames[wi + 1] not in steps.values():
            steps[names[-1]] = wnames[wi + 1]
            args[names[-1]] = {}
        order = list(steps)
        rng.shuffle(order)
        skeys = list(steps)
        rng.shuffle(skeys)
        workflows.append({'signature': {'name': wn, 'parameters': []},
                          'steps': {n: steps[n] for n in skeys},
                          'execute': [{'target': '<%s>' % n, 'args': args[n]} for n in order]})
    return {
        'entrypoint': {'entry-instance': 'main', 'execute': [{'target': '<entry-instance>', 'args': {}}]},
        'workflows': workflows,
        'components': [
            {'signature': {'name': 'echo', 'parameters': [{'name': 'message'},
                                                          {'name': 'environment', 'default': {'DEFAULTS': 'PATH', 'FOO': 'foo'}}]},
             'command': {'environment': '%(environment)s', 'executable': 'echo', 'arguments': '%(message)s',
                         'expandArguments': 'none'}},
            {'signature': {'name': 'plain', 'parameters': [{'name': 'message'}]},
             'command': {'executable': 'echo', 'arguments': '%(message)s', 'expandArguments': 'none'}}]}


def _naming_of(dsl, doc):
    """(names, envs, env_names) of the real namespace_to_flowir: [(location, stage, name)] in naming order, the
    environment of every component and the command.environment it was given; None if the namespace is rejected"""
    orig = dsl.ComponentFlowIR.convert_outputreferences_to_datareferences
    seen = []

    def wrapper(self, uid_to_name, location):
        seen.append((list(self.scope.location), self.environment, self.flowir.get('command', {}).get('environment'),
                     dict(uid_to_name)))
        return orig(self, uid_to_name, location)
    dsl.ComponentFlowIR.convert_outputreferences_to_datareferences = wrapper
    try:
        try:
            dsl.namespace_to_flowir(dsl.Namespace(**copy.deepcopy(doc)))
        except experiment.model.errors.DSLInvalidError as e:
            if not seen:
                return None, 'DSLInvalidError'
            # rejected after the components were named (e.g. a parameter that is unknown to a component): outside
            # the naming model; the key-permuted copy must be rejected alike (same_for_permuted_keys)
            return None, 'rejected_after_naming'
    finally:
        dsl.ComponentFlowIR.convert_outputreferences_to_datareferences = orig
    uid = seen[-1][3]
    names = [(list(loc), sn[0], sn[1]) for loc, sn in uid.items()]
    if [n[0] for n in names] != [x[0] for x in seen]:
        raise RuntimeError('c15 naming driver: components converted in another order than they were named')
    envs = [None if x[1] is None else [(k, None if v is None else str(v)) for k, v in x[1].items()] for x in seen]
    return (names, envs, [x[2] for x in seen]), 'converted'


def naming_inprocess(ctx, only=None):
    import experiment.model.frontends.dsl as dsl
    global experiment
    import experiment.model.errors
    rng = ctx.rng
    docs = [c['doc'] for c in corpus_cases() if c['kind'] == 'pkg' and c.get('format') == 'dsl']
    for _ in range(80 if ctx.tier == 'quick' else 800):
        docs.append(gen_naming_namespace(rng))
    for _ in range(6 if ctx.tier == 'quick' else 40):
        docs.append(gen_dsl_pkg(rng)['doc'])
    if only is not None:
        docs = only
    nterms, ndescr, eterms, edescr = [], [], [], []
    for doc in docs:
        res, outcome = _naming_of(dsl, doc)
        ctx.count('naming:' + outcome)
        # the predicate: the same names and environment names for a key-permuted but equal document
        for _ in range(1 if only is None else 8):
            res2, outcome2 = _naming_of(dsl, permute_keys(rng, copy.deepcopy(doc)))
            if (res is None) != (res2 is None) or (res is not None and (res[0], res[2]) != (res2[0], res2[2])):
                ctx.fail({'doc': doc, 'a': res and [res[0], res[2]], 'b': res2 and [res2[0], res2[2]]},
                         'component / environment names differ for a key-permuted but equal DSL document', [])
                break
        same_for_permuted_keys(ctx, dsl, doc, 'naming', copies=1 if only is None else 8)
        if outcome == 'rejected_after_naming':
            continue
        wfs = [(w['signature']['name'], list(w['steps'].items()), [x['target'][1:-1] for x in w['execute']])
               for w in doc.get('workflows', [])]
        comps = [c['signature']['name'] for c in doc.get('components', [])]
        ns = '(mk_ns %s %s %s)' % (
            clist(wfs, lambda w: '(mk_wf %s %s %s)' % (cstr(w[0]), clist(w[1], lambda kv: cpair(cstr(kv[0]), cstr(kv[1]))),
                                                        clist(w[2], cstr))),
            clist(comps, cstr), cstr(doc['entrypoint']['entry-instance']))
        impl = None if res is None else res[0]
        nterms.append(cpair(ns, copt(impl, lambda l: clist(l, lambda n: cpair(clist(n[0], cstr),
                                                                              cpair('%d%%N' % n[1], cstr(n[2])))))))
        ndescr.append({'doc': doc, 'impl_names': impl})
        dup = impl is not None and len(set(n[0][-1] for n in impl)) < len(impl)
        ctx.case(['naming', doc], impl is not None and len(impl) >= 2)
        ctx.count('naming:components=%s%s' % ('rejected' if impl is None else min(len(impl), 6), ':repeated_step_name' if dup else ''))
        if res is not None:
            eterms.append(cpair(clist(res[1], lambda e: copt(e, lambda l: clist(l, lambda kv: cpair(cstr(kv[0]), copt(kv[1], cstr))))),
                                clist(res[2], lambda n: copt(n, cstr))))
            edescr.append({'doc': doc, 'environments': res[1], 'impl_environment_names': res[2]})
            ctx.count('naming:distinct_env_names', len(set(x for x in res[2] if x and x.startswith('env'))))
            if dup:
                ctx.sample({'naming': [['/'.join(n[0]), 'stage%d.%s' % (n[1], n[2])] for n in impl], 'environments': res[2]},
                           limit=2)
    bad = ctx.model_mismatches(HEADER, nterms, 'check_names', chunk=100, name='names')
    for i in bad:
        ctx.disagree(ndescr[i], ndescr[i]['impl_names'], 'Det.Model.dsl_names',
                     'C15 S6: component names given by namespace_to_flowir vs Det.Model.dsl_names')
    bad = ctx.model_mismatches(HEADER, eterms, 'check_envs', chunk=100, name='envs')
    for i in bad:
        ctx.disagree(edescr[i], edescr[i]['impl_environment_names'], 'Det.Model.env_names',
                     'C15 S6: environment names given by namespace_to_flowir vs Det.Model.env_names')


# ------------------------------------------------------------------ in-process: S6, which templates replicate
HEADER_REP = HEADER + '\nRequire Import V.Det.Replicate.'
REP_STEP_NAMES = ['generate', 'simulate', 'sample', 'collect', 'summarise', 'merge', 'prepare', 'relay', 'forward',
                  'report', 'plot', 'final', 'check', 'render']
REP_SPELLINGS = ['<%s>:ref', '<%s>:ref', '<%s>:output', '<%s>/out.txt:ref', '"<%s>"/out.txt:ref', '<%s/out.txt>:ref']
REP_TEMPLATES = [
    {'signature': {'name': 'gen', 'parameters': [{'name': 'replicas'}]},
     'workflowAttributes': {'replicate': '%(replicas)s'},
     'command': {'expandArguments': 'none', 'executable': 'echo', 'arguments': 'part %(replica)s'}},
    {'signature': {'name': 'fixed', 'parameters': [{'name': 'msg', 'default': 'hello'}]},
     'workflowAttributes': {'replicate': 2},
     'command': {'expandArguments': 'none', 'executable': 'echo', 'arguments': '%(msg)s %(replica)s'}},
    {'signature': {'name': 'agg', 'parameters': [{'name': 'parts'}, {'name': 'extra', 'default': 'none'}]},
     'workflowAttributes': {'aggregate': True},
     'command': {'expandArguments': 'none', 'executable': 'cat', 'arguments': '%(parts)s %(extra)s'}},
    {'signature': {'name': 'plain', 'parameters': [{'name': 'a', 'default': 'x'}, {'name': 'b', 'default': 'y'}]},
     'command': {'expandArguments': 'none', 'executable': 'echo', 'arguments': 'relay %(a)s %(b)s'}},
    {'signature': {'name': 'use', 'parameters': [{'name': 'p', 'default': '-'}, {'name': 'q', 'default': '-'},
                                                 {'name': 'r', 'default': '-'}]},
     'command': {'expandArguments': 'none', 'executable': 'echo', 'arguments': 'use %(p)s %(q)s %(r)s'}},
    {'signature': {'name': 'user', 'parameters': [{'name': 'p', 'default': '-'}, {'name': 'q', 'default': '-'},
                                                  {'name': 'r', 'default': '-'}]},
     'command': {'expandArguments': 'none', 'executable': 'echo',
                 'arguments': 'replica %(replica)s %(p)s %(q)s %(r)s'}}]


def gen_replicate_namespace(rng, sure=False):
    """DSL 2.0 namespace whose steps have SEVERAL producers of DIFFERENT kinds: 1-2 replicating components (replicate
    from a parameter / a literal), plain components (not downstream of anything; relaying a replicating one; behind an
    aggregator), 1-2 aggregators, and 1-3 consumers whose 1-3 args reference a random mix of them (one reference per
    value, now and then two in one string or none), most of which use %(replica)s exactly when they are expected to
    be replicas (a few the other way round: the namespace is rejected, in every key order); now and then a consumer
    sits in an inner workflow and receives the references through parameters, or an aggregator consumes a
    consumer.  args / steps mappings are in random key orders.
    sure: the boundary family - a consumer of a replicating component AND of its aggregator, aggregator key first"""
    names = rng.sample(REP_STEP_NAMES, len(REP_STEP_NAMES))
    steps, execute, kind, exp = {}, [], {}, {}

    def add(name, template, args, k, e):
        ks = list(args)
        rng.shuffle(ks)
        steps[name] = template
        execute.append({'target': '<%s>' % name, 'args': {x: args[x] for x in ks}})
        kind[name], exp[name] = k, e

    def ref(n):
        return rng.choice(REP_SPELLINGS) % n

    reps = []
    for _ in range(1 if sure else rng.choice([1, 1, 2])):
        n = names.pop()
        if rng.random() < 0.6:
            add(n, 'gen', {'replicas': '%(replicas)s'}, 'R', True)
        else:
            add(n, 'fixed', {'msg': 'hello'} if rng.random() < 0.5 else {}, 'R', True)
        reps.append(n)
    pool = list(reps)
    if rng.random() < 0.4:
        n = names.pop()
        add(n, 'plain', {'a': 'literal'}, 'P', False)
        pool.append(n)
    if rng.random() < 0.5:
        n = names.pop()
        add(n, 'plain', {'a': ref(rng.choice(reps)), 'b': 'text'}, 'P', True)
        pool.append(n)
    aggs = []
    for _ in range(1 if sure else rng.choice([1, 1, 2])):
        n = names.pop()
        args = {'parts': ref(rng.choice([x for x in pool if exp[x]]))}
        if rng.random() < 0.3:
            args['extra'] = ref(rng.choice(pool))
        add(n, 'agg', args, 'A', False)
        aggs.append(n)
    pool += aggs
    if rng.random() < 0.4:
        n = names.pop()
        add(n, 'plain', {'a': ref(rng.choice(aggs))}, 'P', False)
        pool.append(n)
    inner = None
    for ci in range(1 if sure else rng.randint(1, 3)):
        n = names.pop()
        keys = rng.sample(['p', 'q', 'r'], rng.choice([1, 2, 2, 3, 3]))
        args, direct = {}, []
        if sure:
            args = {'p': ref(aggs[0]), 'q': ref(reps[0])}
            direct = [aggs[0], reps[0]]
            if rng.random() < 0.5:
                args['r'] = ref(rng.choice(pool))
        else:
            for k in keys:
                r_ = rng.random()
                if r_ < 0.1:
                    args[k] = 'just-text'
                elif r_ < 0.3:
                    two = [rng.choice(pool), rng.choice(pool)]
                    args[k] = '%s %s' % (ref(two[0]), ref(two[1]))
                    direct += two
                else:
                    x = rng.choice(pool)
                    args[k] = ref(x)
                    direct.append(x)
        e = any(kind[x] == 'R' or (kind[x] != 'A' and exp[x]) for x in direct)
        template = 'user' if ((e and rng.random() < 0.9) or (not e and rng.random() < 0.08)) else 'use'
        if inner is None and not sure and rng.random() < 0.25:
            # the consumer sits in an inner workflow and receives the references through its parameters
            inner = {'signature': {'name': 'inner', 'parameters': [{'name': 'v' + k, 'default': '-'} for k in ['p', 'q', 'r']]},
                     'steps': {'work': template},
                     'execute': [{'target': '<work>', 'args': {k: '%%(v%s)s' % k for k in args}}]}
            add(n, 'inner', {'v' + k: v for k, v in args.items()}, 'W', e)
        else:
            add(n, template, args, 'P', e)
            pool.append(n)
    if rng.random() < 0.3:
        cands = [x for x in pool if kind[x] == 'P' and exp[x]]
        if cands:
            add(names.pop(), 'agg', {'parts': ref(rng.choice(cands)), 'extra': ref(rng.choice(pool))}, 'A', False)
    sk = list(steps)
    rng.shuffle(sk)
    if rng.random() < 0.3:
        rng.shuffle(execute)
    doc = {'entrypoint': {'entry-instance': 'main', 'execute': [{'target': '<entry-instance>', 'args': {'replicas': 2}}]},
           'workflows': [{'signature': {'name': 'main', 'parameters': [{'name': 'replicas', 'default': 1}]},
                          'steps': {k: steps[k] for k in sk}, 'execute': execute}],
           'components': copy.deepcopy(REP_TEMPLATES)}
    if inner:
        doc['workflows'].append(inner)
    return doc


def gen_dsl_replica_pkg(rng, sure=False):
    k = rng.choice([0, 0, 1, 2])
    names = ['%s.yaml' % w for w in rng.sample(WORDS, k)]
    vfiles = {n: {'global': {'replicas': 2, 'note': 'f%d' % fi}} for fi, n in enumerate(names)}
    given = list(names)
    rng.shuffle(given)
    return {'kind': 'pkg', 'format': 'dsl', 'doc': gen_replicate_namespace(rng, sure), 'files': {}, 'inputs': {},
            'vfiles': vfiles, 'given': given, 'platform': None, 'family': 'dslrep'}


def _compiled_of(dsl, doc):
    """acceptance AND compiled result of the real namespace_to_flowir: ('converted', canonical FlowIR) or
    ('rejected', sorted (error class, location in the document))"""
    import experiment.model.errors as E
    try:
        concrete = dsl.namespace_to_flowir(dsl.Namespace(**copy.deepcopy(doc)))
    except E.DSLInvalidError as e:
        return 'rejected', sorted(json.dumps([type(x).__name__, [str(p_) for p_ in (getattr(x, 'location', None) or [])]])
                                  for x in e.underlying_errors)
    except Exception as e:
        return 'rejected', [type(e).__name__]
    return 'converted', json.loads(json.dumps(concrete.raw(), sort_keys=True, default=str))


def same_for_permuted_keys(ctx, dsl, doc, stream, copies=1):
    """the predicate for one DSL document handled in-process: an equal document whose mappings list their keys in
    another order is accepted / rejected alike and compiles to the same FlowIR"""
    a = _compiled_of(dsl, doc)
    for _ in range(copies):
        other = permute_keys(ctx.rng, copy.deepcopy(doc))
        b = _compiled_of(dsl, other)
        if a != b:
            where = 'acceptance' if a[0] != b[0] else (first_diff(a[1], b[1]) or '/')
            ctx.fail({'doc': doc, 'permuted': other, 'stream': stream, 'where': where,
                      'a': [a[0], a[1] if a[0] == 'rejected' else _at(a[1], where)],
                      'b': [b[0], b[1] if b[0] == 'rejected' else _at(b[1], where)]},
                     'a key-permuted but equal DSL document is %s' %
                     ('accepted by one load and rejected by the other' if a[0] != b[0] else
                      ('compiled to a different FlowIR' if a[0] == 'converted' else 'rejected for other reasons')), [])
            break
    return a


def _replicate_table(dsl, stack):
    """the table of Det.Replicate from the scopes of the real ScopeStack: per template instance its location,
    Component?, replicate set, aggregate, and per string parameter (in the order of the mapping) the Components the
    references of the string resolve to, for the two scans (vanilla / nested pattern) in text order; the resolution
    of a reference (trim its location until it names a Component) is redone here with the real regular expressions
    and OutputReference.from_str"""
    import re
    pats = [re.compile(dsl.OutputReferenceVanilla), re.compile(dsl.OutputReferenceNested)]

    def producer_of(location):
        location = list(location)
        while location:
            sc = stack.scopes.get(tuple(location))
            if sc is not None and isinstance(sc.template, dsl.Component):
                return [str(x) for x in sc.location]
            location = location[:-1]
        return None
    rows = []
    for uid, sc in stack.scopes.items():
        is_comp = isinstance(sc.template, dsl.Component)
        repl = is_comp and sc.template.workflowAttributes.replicate not in ["0", 0, "", None]
        agg = is_comp and sc.template.workflowAttributes.aggregate is True
        params = []
        for k, v in sc.parameters.items():
            if not isinstance(v, str):
                continue
            groups = []
            for pat in pats:
                g = []
                for m in pat.finditer(v):
                    pr = producer_of(dsl.OutputReference.from_str(m.group(0)).location)
                    if pr is not None:
                        g.append(pr)
                groups.append(g)
            params.append((k, groups))
        rows.append({'loc': [str(x) for x in uid], 'comp': is_comp, 'repl': bool(repl), 'agg': bool(agg), 'params': params})
    return rows


def _table_term(rows):
    return clist(rows, lambda r: '(mk_inst %s %s %s %s %s)' % (
        clist(r['loc'], cstr), common.cbool(r['comp']), common.cbool(r['repl']), common.cbool(r['agg']),
        clist(r['params'], lambda kv: cpair(cstr(kv[0]), clist(kv[1], lambda g: clist(g, lambda l: clist(l, cstr)))))))


def replicate_inprocess(ctx, only=None):
    """ScopeStack.can_template_replicate of the real code (through namespace_to_flowir: every Component instance, in
    the order and with the caches of the real digest) vs Det.Replicate.can_replicate on the table of instances; and
    the predicate: key-permuted copies of the namespace are accepted alike and compile to the same FlowIR"""
    import experiment.model.frontends.dsl as dsl
    rng = ctx.rng
    docs = [c['doc'] for c in corpus_cases() if c['kind'] == 'pkg' and c.get('format') == 'dsl']
    n = 72 if ctx.tier == 'quick' else 720
    for i in range(n):
        docs.append(gen_replicate_namespace(rng, sure=(i % 6 == 0)))
    for _ in range(5 if ctx.tier == 'quick' else 40):
        docs.append(gen_dsl_pkg(rng)['doc'])
    if only is not None:
        docs = only
    orig = dsl.ScopeStack.can_template_replicate
    calls = []

    def wrapper(self, location):
        r = orig(self, location)
        calls.append((self, [str(x) for x in location], r))
        return r
    terms, descr = [], []
    for doc in docs:
        del calls[:]
        dsl.ScopeStack.can_template_replicate = wrapper
        try:
            outcome = _compiled_of(dsl, doc)[0]
        finally:
            dsl.ScopeStack.can_template_replicate = orig
        ctx.count('replicate:namespace:' + outcome)
        rows = _replicate_table(dsl, calls[0][0]) if calls else []
        by_loc = {tuple(r['loc']): r for r in rows}
        table = _table_term(rows)
        mixed = 0
        for _stack, location, answer in calls:
            row = by_loc.get(tuple(location), {'params': []})
            ks = set()
            for _k, groups in row['params']:
                for g in groups:
                    for pr in g:
                        x = by_loc[tuple(pr)]
                        ks.add('R' if x['repl'] else ('A' if x['agg'] else 'P'))
            several = len([1 for _k, groups in row['params'] if any(groups)]) >= 2
            if several and len(ks) >= 2:
                mixed += 1
            ctx.count('replicate:asked:producer_kinds=%s%s:%s' % (''.join(sorted(ks)) or 'none',
                                                                   ':several_args' if several else '', answer))
            terms.append(cpair(cpair(table, clist(location, cstr)), common.cbool(bool(answer))))
            descr.append({'doc': doc, 'location': location, 'impl_can_replicate': bool(answer), 'instances': rows})
        ctx.case(['replicate', doc], mixed >= 1)
        same_for_permuted_keys(ctx, dsl, doc, 'replicate', copies=2 if only is None else 8)
        if mixed:
            ctx.sample({'replicate_steps': doc['workflows'][0]['execute'],
                        'answers': [['/'.join(c[1]), bool(c[2])] for c in calls]}, limit=2)
    bad = ctx.model_mismatches(HEADER_REP, terms, 'check_replicate', chunk=100, name='replicate')
    for i in bad:
        ctx.disagree(descr[i], descr[i]['impl_can_replicate'], 'Det.Replicate.can_replicate',
                     'C15 S6: answer of ScopeStack.can_template_replicate vs Det.Replicate.can_replicate')


def _walk(o):
    yield o
    if isinstance(o, dict):
        for v in o.values():
            for x in _walk(v):
                yield x
    elif isinstance(o, list):
        for v in o:
            for x in _walk(v):
                yield x


# ------------------------------------------------------------------ static scan
SCAN_FILES = ['python/experiment/model/conf.py', 'python/experiment/model/frontends/flowir.py',
              'python/experiment/model/frontends/dsl.py', 'python/experiment/model/graph.py']
# (file, function, kind, expression) -> ('oracle', model site) | ('benign', one-line justification)
KNOWN_SITES = {
    ('flowir.py', 'FlowIR.override_object', 'iterate-set', 'keys_novel'):
        ('oracle', 'S2 flowir.FlowIR.override_object: for key in keys_novel'),
    ('flowir.py', 'FlowIR.override_object', 'iterate-set', 'keys_common'):
        ('benign', 'each common key only replaces the value stored under an existing key: no order is observable '
                   '(covered by C15_perm_invariant_override: merge_common follows the keys of old)'),
    ('dsl.py', 'ComponentFlowIR.convert_outputreferences_to_datareferences', 'iterate-set', 'arguments_output'):
        ('benign', 'existence search (for ... break / else): the result is a boolean'),
    ('dsl.py', 'lightweight_validate', 'iterate-set', 'set(variables).intersection(parameters)'):
        ('benign', 'only the order of the reported validation errors'),
    ('dsl.py', 'lightweight_validate', 'iterate-set', 'refs'): ('benign', 'only the order of the reported validation errors / a worklist whose result is a set'),
    ('dsl.py', 'lightweight_validate', 'iterate-set', 'refs.difference(may_reference)'):
        ('benign', 'only the order of the reported validation errors'),
    ('flowir.py', 'validate_input_bindings_names', 'materialise-set', 'list(illegal_binding_values)'):
        ('benign', 'text of an error message'),
    ('flowir.py', 'validate_provided_bindings', 'materialise-set', 'list(missing_binding_values)'):
        ('benign', 'text of an error message'),
    ('flowir.py', 'instantiate_dowhile', 'iterate-set', 'inloop_ids'): ('benign', 'text of an error message'),
    ('flowir.py', 'schema_to_option_list', 'materialise-set', 'output_list.extend(unique)'):
        ('benign', 'option list used for membership tests and messages'),
    ('flowir.py', 'Manifest.fromDirectory', 'iterate-fs', 'os.listdir(path)'):
        ('benign', 'fills a dictionary keyed by the entry name (varied by the creation-order runs)'),
    ('flowir.py', 'Manifest.update', 'materialise-set', 'list(shadow)'): ('benign', 'text of a log message'),
    ('flowir.py', 'FlowIR.propagate_replicate', 'set-pop', 'all_replicate.pop()'):
        ('benign', 'pop of a set known to have exactly one element'),
    ('flowir.py', 'FlowIR._validate_interface', 'materialise-set', 'list(duplicates)'):
        ('benign', 'text of an error message'),
    ('flowir.py', 'FlowIR.validate_component', 'iterate-set', 'unknown_platforms'):
        ('benign', 'only the order of the reported validation errors'),
    ('graph.py', 'SubgraphSpanningNodes', 'materialise-set', 'nodes.extend(nodesInPath)'):
        ('benign', 'node list handed to networkx subgraph(): a node set'),
    ('graph.py', 'DataReference.resolve', 'fs-listing', 'glob.glob(reference)'):
        ('benign', 'run-time resolution of a wildcard reference, not part of loading'),
    ('graph.py', 'ComponentSpecification.path_to_stdout', 'fs-listing', 'glob.glob(search)'):
        ('benign', 'run-time lookup, takes max() of the stream indices'),
    ('graph.py', 'WorkflowGraph.active_backends', 'materialise-set', 'list(set(backends))'):
        ('benign', 'used as a set of backend names by its callers'),
    ('graph.py', 'WorkflowGraph._discover_dowhile_placeholders', 'iterate-set', 'matched_components'):
        ('benign', 'removes each element from another set'),
}
# sites of the model that are visible to the scan only as sorted(...) (S3, S4) are checked for presence
SORTED_SITES = [
    ('graph.py', 'ComponentSpecification._memoization_info_to_hash', 'sorted(obj, reverse=True)',
     'S3 graph.ComponentSpecification._memoization_info_to_hash: sorted(obj)'),
    ('dsl.py', 'ComponentFlowIR.convert_outputreferences_to_datareferences', 'sorted(parameters_legacy.union(arguments_legacy))',
     'S4 dsl.ComponentFlowIR.convert_outputreferences_to_datareferences: sorted(parameters_legacy.union(arguments_legacy))'),
    ('dsl.py', 'namespace_to_flowir.hash_environment', 'sorted(environment)',
     'S4 dsl.namespace_to_flowir.hash_environment: sorted(environment)'),
    # S5 after the repair of F15b (before: an 'iterate-set' hit on parameters_output.union(arguments_output), which
    # is an UNKNOWN site again if the sorted() is removed)
    ('dsl.py', 'ComponentFlowIR.convert_outputreferences_to_datareferences',
     'sorted(parameters_output.union(arguments_output))',
     'S5 dsl.ComponentFlowIR.convert_outputreferences_to_datareferences: sorted(parameters_output.union(arguments_output))'),
]
SET_METHODS = {'union', 'intersection', 'difference', 'symmetric_difference'}
# calls that may receive a set without exposing its iteration order
ORDER_BLIND_CALLEES = {'sorted', 'len', 'any', 'all', 'min', 'max', 'sum', 'set', 'frozenset', 'bool', 'isinstance', 'update',
                       'issubset', 'issuperset', 'isdisjoint', 'intersection_update', 'difference_update', 'union',
                       'intersection', 'difference', 'symmetric_difference', 'list', 'tuple', 'enumerate', 'iter', 'next',
                       'join', 'extend', 'str', 'repr', 'type', 'id', 'print'}
# S7-like sites: (file, function, variable, callees, site of Det.Model.oracle_sites): the variable must only ever be
# bound to a list display / list comprehension in the function, and is handed to callees that iterate over it
ORDERED_SITES = [
    ('flowir.py', 'FlowIR.apply_replicate', 'replicated_refs', ('compile_component_aggregate', 'compile_component_replica'),
     'S7 flowir.FlowIR.apply_replicate: replicated_refs is an ordered list, iterated by compile_component_aggregate / '
     'compile_component_replica'),
]
_DEFS = {}     # function name -> [(file, FunctionDef)] over all scanned files


def _iterated_params(fn):
    """parameters of fn that fn iterates over (for / comprehension / list(), tuple(), enumerate(), join, extend) in a way
    that exposes the order"""
    params = [a.arg for a in fn.args.args] + [a.arg for a in fn.args.kwonlyargs]
    absorbed = set()
    for n in ast.walk(fn):
        if isinstance(n, ast.Call) and isinstance(n.func, ast.Name) and n.args and \
                n.func.id in ('sorted', 'len', 'any', 'all', 'min', 'max', 'sum', 'set', 'frozenset'):
            absorbed.add(id(n.args[0]))
    out = set()
    for n in ast.walk(fn):
        its = []
        if isinstance(n, (ast.For, ast.AsyncFor)):
            its.append(n.iter)
        if isinstance(n, (ast.ListComp, ast.GeneratorExp, ast.DictComp)) and id(n) not in absorbed:
            its += [g.iter for g in n.generators]
        if isinstance(n, ast.Call) and id(n) not in absorbed and n.args and (
                (isinstance(n.func, ast.Name) and n.func.id in ('list', 'tuple', 'enumerate', 'iter', 'next')) or
                (isinstance(n.func, ast.Attribute) and n.func.attr in ('join', 'extend'))):
            its.append(n.args[0])
        for it in its:
            if isinstance(it, ast.Name) and it.id in params and id(it) not in absorbed:
                out.add(it.id)
    return out


def _callee_param(call, fn, pos=None, kw=None):
    """the parameter of fn that receives positional argument pos / keyword kw of the call"""
    params = [a.arg for a in fn.args.args]
    if isinstance(call.func, ast.Attribute) and params and params[0] in ('self', 'cls'):
        params = params[1:]
    if kw is not None:
        return kw if kw in params + [a.arg for a in fn.args.kwonlyargs] else None
    return params[pos] if pos < len(params) else None


def _is_set_expr(e, names):
    if isinstance(e, (ast.Set, ast.SetComp)):
        return True
    if isinstance(e, ast.Call):
        f = e.func
        if isinstance(f, ast.Name) and f.id in ('set', 'frozenset'):
            return True
        if isinstance(f, ast.Attribute) and f.attr in SET_METHODS:
            return True
    if isinstance(e, ast.Name) and e.id in names:
        return True
    if isinstance(e, ast.BinOp) and isinstance(e.op, (ast.BitOr, ast.BitAnd, ast.Sub, ast.BitXor)) and \
            (_is_set_expr(e.left, names) or _is_set_expr(e.right, names)):
        return True
    return False


def _is_fs_expr(e):
    if isinstance(e, ast.Call):
        s = ast.unparse(e.func)
        return s in ('os.listdir', 'glob.glob', 'glob.iglob', 'os.walk', 'os.scandir') or \
            s.endswith('.iterdir') or s.endswith('.rglob')
    return False


def _scan_func(fn, qual, rel, hits, sorted_calls):
    names = set()
    for n in ast.walk(fn):
        if isinstance(n, ast.Assign) and _is_set_expr(n.value, set()):
            for t in n.targets:
                if isinstance(t, ast.Name):
                    names.add(t.id)
        if isinstance(n, ast.AnnAssign) and n.value is not None and _is_set_expr(n.value, set()) and isinstance(n.target, ast.Name):
            names.add(n.target.id)
    absorbed = set()   # arguments of calls whose result does not expose the order
    for n in ast.walk(fn):
        if isinstance(n, ast.Call) and isinstance(n.func, ast.Name) and n.args and \
                n.func.id in ('sorted', 'len', 'any', 'all', 'min', 'max', 'sum', 'set', 'frozenset'):
            absorbed.add(id(n.args[0]))
            if n.func.id == 'sorted':
                sorted_calls.add((rel, qual, ast.unparse(n)))

    def rec(kind, e):
        hits.add((rel, qual, kind, ast.unparse(e)))
    for n in ast.walk(fn):
        its = []
        if isinstance(n, (ast.For, ast.AsyncFor)):
            its.append(n.iter)
        if isinstance(n, (ast.ListComp, ast.GeneratorExp, ast.DictComp)) and id(n) not in absorbed:
            its += [g.iter for g in n.generators]
        for it in its:
            if _is_set_expr(it, names):
                rec('iterate-set', it)
            elif _is_fs_expr(it):
                rec('iterate-fs', it)
        if isinstance(n, ast.Call) and id(n) not in absorbed:
            if isinstance(n.func, ast.Name) and n.func.id in ('list', 'tuple', 'enumerate', 'iter', 'next') and n.args:
                if _is_set_expr(n.args[0], names):
                    rec('materialise-set', n)
                elif _is_fs_expr(n.args[0]):
                    rec('materialise-fs', n)
            if isinstance(n.func, ast.Attribute) and n.func.attr == 'pop' and not n.args and \
                    isinstance(n.func.value, ast.Name) and n.func.value.id in names:
                rec('set-pop', n)
            if isinstance(n.func, ast.Attribute) and n.func.attr in ('join', 'extend') and n.args and \
                    _is_set_expr(n.args[0], names):
                rec('materialise-set', n)
        if isinstance(n, ast.Assign) and _is_fs_expr(n.value):
            rec('fs-listing', n.value)
        # a set handed to a function of the scanned files that iterates over the parameter which receives it
        if isinstance(n, ast.Call):
            callee = n.func.attr if isinstance(n.func, ast.Attribute) else (n.func.id if isinstance(n.func, ast.Name) else None)
            if callee and callee not in ORDER_BLIND_CALLEES and callee in _DEFS:
                passed = [(i, None, a) for i, a in enumerate(n.args)] + [(None, k.arg, k.value) for k in n.keywords if k.arg]
                for pos, kw, a in passed:
                    if not _is_set_expr(a, names):
                        continue
                    for _f, d in _DEFS[callee]:
                        prm = _callee_param(n, d, pos, kw)
                        if prm is not None and prm in _iterated_params(d):
                            rec('set-passed-to-iterating-callee', ast.parse('%s(%s=%s)' % (callee, prm, ast.unparse(a))).body[0].value)


def _walk_defs(node, prefix, rel, hits, sorted_calls):
    for ch in ast.iter_child_nodes(node):
        if isinstance(ch, (ast.FunctionDef, ast.AsyncFunctionDef)):
            _scan_func(ch, prefix + ch.name, rel, hits, sorted_calls)
            _walk_defs_nested(ch, prefix + ch.name + '.', rel, sorted_calls)
        elif isinstance(ch, ast.ClassDef):
            _walk_defs(ch, prefix + ch.name + '.', rel, hits, sorted_calls)


def _walk_defs_nested(fn, prefix, rel, sorted_calls):
    """sorted() calls of nested functions are recorded under outer.inner (their iteration hits are already found
    by the walk of the outer function)"""
    for ch in ast.walk(fn):
        if ch is not fn and isinstance(ch, (ast.FunctionDef, ast.AsyncFunctionDef)):
            for n in ast.walk(ch):
                if isinstance(n, ast.Call) and isinstance(n.func, ast.Name) and n.func.id == 'sorted' and n.args:
                    sorted_calls.add((rel, prefix + ch.name, ast.unparse(n)))


def _ordered_site_problem(trees, fname, qual, var, callees):
    """None if, in function qual of file fname, var is only ever bound to list displays / comprehensions and is handed
    to (at least one of) the callees, each of which iterates over the parameter that receives it; else what is wrong"""
    fn = None
    for rel, tree in trees:
        if os.path.basename(rel) != fname:
            continue
        for cls in ast.walk(tree):
            if isinstance(cls, ast.ClassDef) and qual.startswith(cls.name + '.'):
                for ch in cls.body:
                    if isinstance(ch, (ast.FunctionDef, ast.AsyncFunctionDef)) and cls.name + '.' + ch.name == qual:
                        fn = ch
    if fn is None:
        return '%s:%s not found' % (fname, qual)
    binds = []
    for n in ast.walk(fn):
        if isinstance(n, ast.Assign) and any(isinstance(t, ast.Name) and t.id == var for t in n.targets):
            binds.append(n.value)
        if isinstance(n, ast.AnnAssign) and isinstance(n.target, ast.Name) and n.target.id == var and n.value is not None:
            binds.append(n.value)
    if not binds:
        return '%s:%s no longer binds %s' % (fname, qual, var)
    for b in binds:
        if not isinstance(b, (ast.List, ast.ListComp)):
            return '%s:%s binds %s to `%s`, which is not a list display' % (fname, qual, var, ast.unparse(b))
    handed = 0
    for n in ast.walk(fn):
        if isinstance(n, ast.Call):
            callee = n.func.attr if isinstance(n.func, ast.Attribute) else (n.func.id if isinstance(n.func, ast.Name) else None)
            if callee in callees:
                for i, a in enumerate(n.args):
                    if isinstance(a, ast.Name) and a.id == var:
                        for _f, d in _DEFS.get(callee, []):
                            prm = _callee_param(n, d, i, None)
                            if prm is None or prm not in _iterated_params(d):
                                return '%s does not iterate over the parameter that receives %s' % (callee, var)
                            handed += 1
    if not handed:
        return '%s:%s no longer hands %s to %s' % (fname, qual, var, '/'.join(callees))
    return None


def static_scan(ctx):
    import warnings
    hits, sorted_calls = set(), set()
    trees = []
    _DEFS.clear()
    for rel in SCAN_FILES:
        with warnings.catch_warnings():
            warnings.simplefilter('ignore')
            tree = ast.parse(open(os.path.join(common.REPO, rel)).read())
        trees.append((rel, tree))
        for n in ast.walk(tree):
            if isinstance(n, (ast.FunctionDef, ast.AsyncFunctionDef)):
                _DEFS.setdefault(n.name, []).append((os.path.basename(rel), n))
    for rel, tree in trees:
        _walk_defs(tree, '', os.path.basename(rel), hits, sorted_calls)
    oracle_sites = set()
    for h in sorted(hits):
        k = KNOWN_SITES.get(h)
        ctx.count('scan:%s' % (k[0] if k else 'UNKNOWN'))
        if k is None:
            ctx.disagree({'file': h[0], 'function': h[1], 'kind': h[2], 'expression': h[3]},
                         'iteration over an unordered source found in the code', 'no such oracle site in Det.Model',
                         'C15 static scan: new unordered-iteration site %s:%s `%s` (%s)' % (h[0], h[1], h[3], h[2]))
        elif k[0] == 'oracle':
            oracle_sites.add(k[1])
    for key, (kind, site) in KNOWN_SITES.items():
        if kind == 'oracle' and key not in hits:
            ctx.disagree({'site': site}, 'not found by the scan', 'oracle site of Det.Model',
                         'C15 static scan: modelled oracle site %s no longer exists in the code' % site)
    for f, q, expr, site in SORTED_SITES:
        if (f, q, expr) in sorted_calls:
            oracle_sites.add(site)
        else:
            ctx.disagree({'site': site}, 'sorted(...) call not found', 'the model sorts at this site',
                         'C15 static scan: the code no longer sorts at %s' % site)
    for f, q, var, callees, site in ORDERED_SITES:
        why = _ordered_site_problem(trees, f, q, var, callees)
        if why is None:
            oracle_sites.add(site)
        else:
            ctx.disagree({'site': site}, why, 'an ordered list, iterated in document order',
                         'C15 static scan: %s' % why)
    # S1 after the repair: the de-duplication must be the order-preserving one of the model (dedup_last)
    src = open(os.path.join(common.REPO, SCAN_FILES[0])).read()
    n_fix = src.count('variable_files = [p for i, p in enumerate(variable_files) if p not in variable_files[i + 1:]]')
    if n_fix == 2:
        oracle_sites.add('S1 conf.FlowIRExperimentConfiguration.__init__: variable_files de-duplication')
        oracle_sites.add('S1 conf.FlowIRExperimentConfiguration.parametrize: variable_files de-duplication')
    else:
        ctx.note('S1: the de-duplication statements of conf.py are not the ones the model was written against (%d/2): '
                 'relying on the layering runs' % n_fix)
    ctx.extra['scan'] = {'hits': len(hits), 'oracle_sites_found': sorted(oracle_sites)}
    # the model's own list must name exactly the sites found
    term = clist(sorted(oracle_sites), cstr)
    bad = ctx.model_mismatches(HEADER, [term],
                               '(fun l => forallb (fun s => existsb (String.eqb s) l) oracle_sites && '
                               'forallb (fun s => existsb (String.eqb s) oracle_sites) l)', name='sites')
    if bad and n_fix == 2:
        ctx.disagree({'sites_found': sorted(oracle_sites)}, sorted(oracle_sites), 'Det.Model.oracle_sites',
                     'C15 static scan: oracle sites of the code vs Det.Model.oracle_sites')


# ------------------------------------------------------------------ run / replay
def stagevars_inprocess(ctx):
    SVH.inprocess(ctx, corpus=[(c['doc_stagevars'], c.get('platform')) for c in corpus_cases() if c['kind'] == 'stagevars'])


def corpus_cases():
    out = []
    if os.path.isdir(CORPUS):
        for f in sorted(os.listdir(CORPUS)):
            if f.endswith('.json'):
                c = json.load(open(os.path.join(CORPUS, f)))['case']
                c = _from_corpus(c)
                out.append(c)
    return out


def _from_corpus(c):
    def unwrap(d):
        if isinstance(d, dict):
            if list(d.keys()) == ['__intkeys__']:
                return {int(k): unwrap(v) for k, v in d['__intkeys__'].items()}
            return {k: unwrap(v) for k, v in d.items()}
        if isinstance(d, list):
            return [unwrap(x) for x in d]
        return d
    return unwrap(c)


def check_process_state(ctx):
    """a process is modelled WITHOUT state (Det.Model.session, Det.Reparam): the mutable module / class level
    containers of the anchored modules must be after all the loads of a process what they were before"""
    seen = set()
    while STATE_CHANGES:
        ch = STATE_CHANGES.pop(0)
        if ch['container'] in seen:
            continue
        seen.add(ch['container'])
        ctx.disagree({'container': ch['container'], 'process': ch['process'], 'run': ch['run']},
                     ch['after'], ch['before'],
                     'C15: module / class level container %s after the loads of a process vs before (the model of a '
                     'process keeps no state)' % ch['container'])
    ctx.count('process_state:runs_checked')


def explore(ctx, vars_cases, pkg_cases):
    if vars_cases:
        outs = run_processes(ctx, vars_cases, 'vars')
        parsed = compare_processes(ctx, vars_cases, outs)
        terms, tc, lt = [], [], []
        vcases, vparsed = expand_loads(vars_cases, parsed)
        check_vars(ctx, vcases, vparsed, terms, tc, lt)
        bad = ctx.model_mismatches(HEADER, terms, 'check_case', chunk=60, name='vars')
        for i in bad:
            ctx.disagree(tc[i], tc[i]['impl_user_variables'], 'Det.Model.load_variables / inject_stage (see check_case)',
                         'C15 S1+S2: user variables after %s vs Det.Model.load_variables' % tc[i]['how'])
        bad = ctx.model_mismatches(HEADER, [t for t, _ in lt], 'check_layer', chunk=100, name='layer')
        for i in bad:
            ctx.disagree(lt[i][1], lt[i][1]['impl_layer_many'], 'Det.Model.layer_many id/rev',
                         'C15 S2: layer_many_variable_files on the list as given vs Det.Model.layer_many')
        # the loads of a session, in the order process 0 performed them, against Det.Model.session
        st, sd = [], []
        for case, dump in zip(vars_cases, parsed):
            if 'loads' not in case:
                continue
            n = len(case['loads'])
            shared = sum(1 for i in range(n) for j in range(i) if set(case['loads'][i]['given']) & set(case['loads'][j]['given'])
                         and case['loads'][i]['given'] != case['loads'][j]['given'])
            ctx.count('session:vars')
            ctx.count('session:pairs_of_different_loads_sharing_a_file', shared)
            for how in ('init', 'parametrize'):
                uvs = [None if 'error' in d[how] else d[how]['uv'] for d in dump['session']]
                st.append(cpair(clist(range(n), lambda i: cpair(clist(sorted(load_table(case, i).items()),
                                                                       lambda kv: cpair(cstr(kv[0]), cjv(kv[1]))),
                                                                 clist(case['loads'][i]['given'], cstr))),
                                clist(uvs, lambda u: copt(u, cjv))))
                sd.append({'case': short_case(case), 'how': how, 'impl_user_variables_per_load': uvs})
        bad = ctx.model_mismatches(HEADER, st, 'check_session', chunk=40, name='session')
        for i in bad:
            ctx.disagree(sd[i], sd[i]['impl_user_variables_per_load'], 'Det.Model.session id/rev',
                         'C15: user variables of the loads of one process vs Det.Model.session (%s)' % sd[i]['how'])
    if pkg_cases:
        outs = run_processes(ctx, pkg_cases, 'pkg')
        parsed_all = compare_processes(ctx, pkg_cases, outs)
        check_cfgs(ctx, [(c, d) for c, d in zip(pkg_cases, parsed_all) if c['kind'] == 'cfg'])
        check_insts(ctx, [(c, d) for c, d in zip(pkg_cases, parsed_all) if c['kind'] == 'inst'])
        parsed = [d for c, d in zip(pkg_cases, parsed_all) if c['kind'] == 'pkg']
        # several different packages in one process: every package is one pkg case for the predicates
        for c, d in zip(pkg_cases, parsed_all):
            if c['kind'] == 'multi':
                ctx.count('multi:sessions_of_different_packages')
                tl = [set(pd.get('top_level_folders') or []) - {'conf', 'data', 'input', 'bin'} for pd in d['packages']]
                cn = [set(x.get('name') for x in (p_['doc'].get('components') or []) if isinstance(x, dict))
                      if p_.get('format') == 'flowir' else set() for p_ in c['packages']]
                if any(tl[i] & cn[j] for i in range(len(tl)) for j in range(len(cn)) if i != j):
                    ctx.count('multi:top_level_folder_of_one_package_is_component_name_of_another')
                parsed += d['packages']
        pkg_cases = [c for c in pkg_cases if c['kind'] == 'pkg'] + \
            [p_ for c in pkg_cases if c['kind'] == 'multi' for p_ in c['packages']]
        ref_terms = []
        vcases, vparsed = expand_loads(pkg_cases, parsed)
        check_pkgs(ctx, vcases, vparsed, ref_terms)
        bad = ctx.model_mismatches(HEADER, [t for t, _ in ref_terms], 'check_refs', chunk=300, name='refs')
        for i in bad:
            ctx.disagree(ref_terms[i][1], ref_terms[i][1]['references'], 'sorted, duplicate free',
                         'C15 S4: references of a DSL component vs Det.Model.references_of')
    check_process_state(ctx)


def run(ctx):
    rng = ctx.rng
    ctx.rule = ('vars case = (FlowIR document, 1-5 user variable files over a small variable pool, order given with '
                'optional repeated path), loaded through __init__ and parametrize in 6 processes (hash seeds '
                '0,1,2,3,random,4 x key-permuted documents x file creation orders); non-trivial = at least two distinct '
                'files and at least one variable defined by two of them.  pkg case = FlowIR / DSL 2 package on disk '
                '(references, replicas, environments, nested workflows with repeated step names, 0-3 variable files) '
                'instantiated as an Experiment in the same 6 processes; non-trivial = loads and has >= 2 components.  '
                'override / memo cases = random nested dictionaries through override_object / '
                '_memoization_info_to_hash in-process, with key-permuted copies.  s5 case = one component of a generated '
                'DSL namespace whose step arguments hold 1-6 output references (plain, with paths, nested inside the path '
                'of another one): arguments before / after convert_outputreferences_to_datareferences; non-trivial = at '
                'least two references are replaced.  naming case = DSL namespace with 1-3 nested workflows, step names '
                'that repeat / collide with de-duplicated names / carry stage prefixes, environments equal up to key order '
                'and None values, through namespace_to_flowir as generated and key-permuted; non-trivial = converted '
                'with >= 2 components.  session = a vars / pkg case with 3-6 loads performed one after the other in ONE '
                'process, whose lists of variable files share files (other order, subsets, same list twice, repeated path, '
                'now and then another content of a file); process v starts with load v mod n, so every load is also '
                'performed by a process that has not touched the files before; every load is one case for the predicate '
                'and the models (load_variables, layer_many, session).  replica pkg = FlowIR package with 2-3 replicating '
                'producers with suffix / prefix related names (gen, mygen, remygen...) and an aggregating consumer using '
                'relative / absolute spellings, loaded replicated in the 6 processes.  s7 case = one aggregating component '
                'through the real apply_replicate: collection of replicated references and the aggregate() closure on '
                'the strings of the component vs Det.Aggregate.aggregate_list; non-trivial = >= 2 replicated references.  '
                'replicate case = DSL namespace with 1-2 replicating components, plain components (independent / relaying a '
                'replicating one / behind an aggregator), 1-2 aggregators and 1-3 consumers (also inside an inner workflow) '
                'whose 1-3 args reference a mix of them and which use %(replica)s (mostly) when they are replicas: every '
                'answer of the real can_template_replicate vs Det.Replicate.can_replicate, and the namespace as generated '
                'and key-permuted must be accepted alike and compile to the same FlowIR (also asked of every s5 / naming '
                'namespace); non-trivial = a step with several reference-holding args whose producers are of >= 2 kinds.  '
                'dsl replicate pkg = such a namespace as a package on disk, loaded replicated in the 6 processes.  '
                'cfg case = ONE configuration object of an in-memory FlowIRConcrete / DOSINI / FlowIR-file / DSL 2.0 '
                'package answering 3-5 calls (0-5 variable files: none, subsets, reversed, same options again; platform '
                'default / plat): process v constructs it with call v mod n and re-parametrizes it with the others, every '
                'answer byte-identical to a fresh load in another process and equal to Det.Reparam.answers; non-trivial = '
                '>= 2 different option sets.  inst case = DOSINI package instantiated by experimentFromPackage with user '
                'variable files / platform, then package / package flavour of the instance / instance flavour loaded; '
                'non-trivial = both flavours of a stage file present and the flavours serve different values.  Every child '
                'process lists directories in its own order (file system, ascending, descending, rotated, even-odd, '
                'odd-even reversed).  stagevars pkg = FlowIR package with 2-4 stages whose STAGE-level variables '
                '(workdir / label / out / deep) reference pool variables (base, root, tag, site) that are global and '
                'overridden at stage level by some stages and by a platform; mostly one stage references a variable it '
                'does not define but another stage does; loaded replicated in the 6 processes and compared with the '
                'recomputed stage variables.  stagevars case = such a document (also unknown references, integers, a '
                'stage without components, platform plat) through the real FlowIRConcrete.instance() vs '
                'Det.StageVars.walk and vs the same document without the variables of the other stages; non-trivial = '
                'a stage references a variable only other stages define at stage level and >= 2 stages are visited.  '
                'multi case = 2-3 DIFFERENT packages loaded by ONE process one after the other (a replica-family package '
                'whose components are referenced in the relative form, a package directory with 1-3 extra top-level '
                'folders of which 3 in 4 times some are named like components of the former, sometimes a third FlowIR / '
                'DSL package), process v starts with package v mod n; every package is a pkg case.  45 % of the FlowIR '
                'pkg cases list an environment name twice (lowercase + one other spelling, different contents), 30 % '
                'have a second platform whose environments mostly do the same')
    quick = ctx.tier == 'quick'
    vars_cases = [c for c in corpus_cases() if c['kind'] == 'vars']
    pkg_cases = [c for c in corpus_cases() if c['kind'] == 'pkg']
    ctx.count('corpus', len(vars_cases) + len(pkg_cases))
    for _ in range(140 if quick else 1200):
        vars_cases.append(gen_vars_case(rng))
    for _ in range(10 if quick else 60):
        pkg_cases.append(gen_flowir_pkg(rng))
    for _ in range(10 if quick else 60):
        pkg_cases.append(gen_dsl_pkg(rng))
    # several loads in ONE process that share variable files (each process performs them in its own order)
    for _ in range(14 if quick else 120):
        vars_cases.append(gen_session_case(rng, 'vars'))
    for _ in range(2 if quick else 12):
        pkg_cases.append(gen_session_case(rng, 'pkg'))
    # replicated loads: aggregating consumer of >= 2 replicating producers with prefix / suffix related names
    for i in range(6 if quick else 50):
        pkg_cases.append(gen_replica_pkg(rng, sensitive=(i % 2 == 0)))
    # DSL 2.0 packages whose steps consume replicating, aggregating and plain components at once (replicated loads)
    for i in range(4 if quick else 30):
        pkg_cases.append(gen_dsl_replica_pkg(rng, sure=(i % 2 == 0)))
    # packages with STAGE-level variables that reference variables other stages override (replicated loads)
    for _ in range(6 if quick else 40):
        pkg_cases.append(SVH.gen_stagevars_pkg(rng))
    # ONE configuration object re-parametrized (every package kind), DOSINI instances with both flavours of stage files
    for c in corpus_cases():
        if c['kind'] in ('cfg', 'inst', 'multi'):
            pkg_cases.append(c)
    # several DIFFERENT packages loaded by ONE process (top-level folders of one = component names of another)
    for _ in range(5 if quick else 40):
        pkg_cases.append(gen_multi_case(rng))
    for fmt, n in (('memory', 8 if quick else 60), ('dosini', 6 if quick else 40), ('flowir', 4 if quick else 30),
                   ('dsl', 4 if quick else 24)):
        for _ in range(n):
            pkg_cases.append(R.gen_cfg_case(rng, fmt, gen_vars_case, gen_dsl_pkg))
    for _ in range(6 if quick else 40):
        pkg_cases.append(R.gen_inst_case(rng, gen_vars_case))
    import time
    for stage in (static_scan, lambda c: explore(c, vars_cases, pkg_cases), inprocess, s5_inprocess, s7_inprocess,
                  naming_inprocess, replicate_inprocess, stagevars_inprocess):
        t0 = time.time()
        stage(ctx)
        if os.environ.get('C15_TIMING'):
            print('C15 timing: %s %.1fs' % (getattr(stage, '__name__', 'explore'), time.time() - t0))
    ctx.extra['processes'] = {'hash_seeds': SEEDS, 'document_variants': len(SEEDS),
                              'directory_listing_orders': ['as listed by the file system', 'ascending', 'descending',
                                                           'rotated', 'even entries then odd entries',
                                                           'odd entries then even entries, reversed']}


def replay(ctx, path):
    d = json.load(open(path))
    c = d.get('case') or d.get('first', {}).get('case') or {}
    if isinstance(c, dict) and 'case' in c:
        c = c['case']
    if isinstance(c, dict) and c.get('kind') is None and isinstance(c.get('doc'), dict):
        # an in-process DSL case (S5 reference rewriting / S6 naming)
        naming_inprocess(ctx, [c['doc']])
        s5_inprocess(ctx, [c['doc']])
        replicate_inprocess(ctx, [c['doc']])
        for f in ctx.failures:
            print('REPRODUCED: %s: %s' % (f['what'], json.dumps(f['case'])[:600]))
        for f in ctx.disagreements:
            print('DISAGREEMENT: %s' % (json.dumps(f, default=str)[:600],))
        return 1 if (ctx.failures or ctx.disagreements) else 0
    if isinstance(c, dict) and c.get('kind') == 'stagevars':
        c = _from_corpus(c)
        SVH.inprocess(ctx, only=[(c['doc_stagevars'], c.get('platform'))])
        for f in ctx.failures:
            print('REPRODUCED: %s: %s' % (f['what'], json.dumps(f['case'], default=str)[:600]))
        for f in ctx.disagreements:
            print('DISAGREEMENT: %s' % (json.dumps(f, default=str)[:600],))
        return 1 if (ctx.failures or ctx.disagreements) else 0
    if not isinstance(c, dict) or c.get('kind') not in ('vars', 'pkg', 'cfg', 'inst', 'multi'):
        if isinstance(c, dict) and 'old' in c and 'new' in c:
            import experiment.model.frontends.flowir as F
            print('override_object(%r, %r) = %r' % (c['old'], c['new'], F.FlowIR.override_object(copy.deepcopy(c['old']), copy.deepcopy(c['new']))))
            return 1
        print('replay file names no loadable case (proof / scan obligation): re-run ./check C15')
        return 2
    case = _from_corpus(c)
    if 'session' in case:
        # one load of a session: replay the whole session
        ss = case.pop('session')
        case['vfiles'], case['loads'] = ss['vfiles'], ss['loads']
        case['given'] = case['loads'][0]['given']
    if case['kind'] == 'pkg' and case.get('format') == 'flowir':
        s7_inprocess(ctx, [(case['doc']['components'], case['doc'].get('variables', {}).get('default', {}).get('global', {}))])
    if case['kind'] == 'vars':
        explore(ctx, [case], [])
    else:
        explore(ctx, [], [case])
    for f in ctx.failures:
        print('REPRODUCED: %s: %s' % (f['what'], json.dumps(f['case'])[:600]))
    for f in ctx.disagreements:
        print('DISAGREEMENT: %s' % (json.dumps(f, default=str)[:600],))
    return 1 if (ctx.failures or ctx.disagreements) else 0
