"""C03 — Replication expands a workflow without changing its dataflow.
Implementation driven: the real FlowIRConcrete(flowir).replicate() (-> FlowIR.apply_replicate -> propagate_replicate,
compile_component_replica, compile_component_aggregate, ParseDataReferenceFull, compile_reference) and, for the
cases that replicate without error, the real WorkflowGraph.graphFromFlowIR(..., primitive=False) (nodes, edges,
per-node references).  Nothing is faked."""
import json

from common import clist, cstr, cbool, copt, cpair

PROP = 'C03'
COQ_DIR = 'Repl'
ASSUMPTIONS = [
    'component names are drawn from [A-Za-z0-9_-] (no regular-expression metacharacters: compile_component_aggregate '
    'interpolates the reference unescaped into a regex; the "." of "stageN." is modelled as a literal dot), no "#" '
    '(DoWhile placeholders are outside this property), no application dependencies, no top-level folders',
    'replica counts are non-negative integers given literally or as a whole-string %(name)s variable whose value is a '
    'decimal string defined at component, stage or global scope; aggregate is a boolean',
    'workflows are generated acyclic (the model receives the components in a topological order, the implementation '
    'receives them grouped by stage as FlowIRConcrete stores them)',
    'the structured theorems are over parsed references; the textual layer is tied to them by C03_textual_refines '
    '(reference strings of copies), C03_textual_refines_aggregate (reference strings of aggregators), '
    'C03_textual_arguments_replica (argument tokens of copies) and C03_textual_dataflow (nodes and edges of the textual '
    'expansion = those of the structured one); their computable hypotheses (no_overlap, agg_sep, comp_guard, args_sep, '
    'rt_ok) are evaluated inside Coq on every case by struct_check together with the conclusions; argument strings of '
    'aggregators and the parse/print round trip (rt_ok) are covered by the correspondence, not by a theorem',
]
HEADER = 'Require Import V.Repl.Model.\nOpen Scope string_scope.'

METHODS = ['ref', 'copy', 'output', 'link', 'extract']
NAMES = ['A', 'B', 'BA', 'AB', 'A0', 'A1', 'A00', 'a', 'a1', 'B0', 'AA', 'x-A', 'A_B', 'C', 'D', 'Ca', '0', '1', 'A10']
CLEAN_NAMES = ['Gen', 'Sim', 'Post', 'Plot', 'Merge', 'Fit', 'Obs', 'Mix', 'Run', 'Sum', 'Tab', 'Viz']
FILES = [None, None, None, 'out.txt', 'd/f.dat', 'A', 'ref']
OTHER_REFS = ['data/file.txt:copy', 'input/x.csv:ref', '/abs/path/file:ref', 'conf/A:ref', 'bin/tool:ref',
              'data/A:ref', 'input/stage0.A:ref']
FILLER = ['-n', '3', '--in', 'x', '-v', 'A', 'stage0', '--f=y']


# ------------------------------------------------------------------ reference helpers (spec side)
def compile_ref(stage, prod, fname, method, replica=None):
    p = prod if replica is None else '%s%d' % (prod, replica)
    r = '%s:%s' % (p, method) if fname is None else '%s/%s:%s' % (p, fname, method)
    return r if stage is None else 'stage%d.%s' % (stage, r)


def parse_real(text, stage):
    """the implementation's own parser (used only to read the implementation's output for the predicate)"""
    import experiment.model.frontends.flowir as F
    try:
        s, p, f, m = F.FlowIR.ParseDataReferenceFull(text, stage)
    except Exception as e:  # noqa
        return ('unparsable', text)
    if s is None:
        return ('other', text)
    return (s, p, f, m)


# ------------------------------------------------------------------ generator
def gen_workflow(rng, mode='mixed'):
    """returns a workflow: dict(comps=[...] in topological order, gvars, svars).
    comp: dict(stage, name, refs=[(text, parsed)], args, rep (None|int|'%(v)s'), agg (bool), cvars)"""
    names = NAMES if mode != 'clean' else CLEAN_NAMES
    nstage = rng.choice([1, 2, 2, 3])
    ncomp = rng.randint(2, 8)
    stages = sorted(rng.randrange(nstage) for _ in range(ncomp))
    # stages must be 0..k contiguous for FlowIRConcrete
    remap = {s: i for i, s in enumerate(sorted(set(stages)))}
    stages = [remap[s] for s in stages]
    # replica counts of ten or more matter: copy names and aggregated inputs must follow the numeric index order
    N = rng.choice([1, 2, 2, 3, 3, 4, 11, 12])
    gvars, svars = {}, {}
    comps = []
    used = set()
    pool = rng.sample(names, min(len(names), rng.choice([3, 4, 6])))
    for k in range(ncomp):
        st = stages[k]
        for _ in range(30):
            nm = rng.choice(pool if rng.random() < 0.8 else names)
            if (st, nm) not in used:
                break
        else:
            continue
        used.add((st, nm))
        c = {'stage': st, 'name': nm, 'refs': [], 'args': '', 'rep': None, 'agg': False, 'cvars': {}}
        # producers
        prods = []
        if comps:
            npro = rng.choice([0, 1, 1, 2, 2, 3])
            cands = list(range(len(comps)))
            rng.shuffle(cands)
            prods = sorted(cands[:npro])
        seen = set()
        for pi in prods:
            p = comps[pi]
            f = rng.choice(FILES)
            m = rng.choice(METHODS[:3] if rng.random() < 0.7 else METHODS)
            tup = (p['stage'], p['name'], f, m)
            if tup in seen:
                continue
            seen.add(tup)
            rel = (p['stage'] == st) and rng.random() < 0.55
            c['refs'].append(compile_ref(None if rel else p['stage'], p['name'], f, m))
            # a second reference to the SAME producer with another file/method: both must be rewired
            if rng.random() < 0.2:
                f2 = rng.choice(FILES)
                m2 = rng.choice(METHODS[:3])
                tup2 = (p['stage'], p['name'], f2, m2)
                if tup2 not in seen and (f2, m2) != (f, m):
                    seen.add(tup2)
                    rel2 = (p['stage'] == st) and rng.random() < 0.55
                    c['refs'].append(compile_ref(None if rel2 else p['stage'], p['name'], f2, m2))
        if rng.random() < 0.2:
            c['refs'].insert(rng.randrange(len(c['refs']) + 1), rng.choice(OTHER_REFS))
        if mode == 'mixed' and rng.random() < 0.006:
            c['refs'].append(compile_ref(rng.choice([None, st]), 'Ghost', None, 'ref'))     # unknown component
        # replicate / aggregate
        r = rng.random()
        if (not prods and r < 0.6) or (prods and r < 0.12):
            n = N if rng.random() < 0.9 else rng.choice([0, 1, 2, 3, 5])
            how = rng.random()
            if how < 0.5:
                c['rep'] = n
            else:
                v = rng.choice(['n', 'count', 'N'])
                c['rep'] = '%%(%s)s' % v
                where = rng.random()
                val = str(n) if rng.random() < 0.8 else n
                if where < 0.4 and gvars.get(v, val) == val:
                    gvars[v] = val
                elif where < 0.6 and svars.get(st, {}).get(v, val) == val and v not in gvars:
                    svars.setdefault(st, {})[v] = val
                else:
                    c['cvars'][v] = val
        if prods and rng.random() < 0.22:
            c['agg'] = True
        elif not prods and rng.random() < 0.04:
            c['agg'] = True
        # arguments
        toks = []
        for t in c['refs']:
            u = rng.random()
            if u < 0.15:
                continue
            use = t
            if u > 0.85:
                ps = parse_spec(t, st)
                if ps[0] != 'other':
                    alt = compile_ref(None if t.startswith('stage') else ps[0], ps[1], ps[2], ps[3])
                    if ps[0] == st:
                        use = alt
            v = rng.random()
            if v < 0.25:
                use += rng.choice(['/out.txt', '/d/x.dat', '/a/b/c', '/o.txt,', '/*.csv'])
            toks.append(use)
            if rng.random() < 0.3:
                toks.append(rng.choice(FILLER))
        if rng.random() < 0.5:
            toks.insert(0, rng.choice(FILLER))
        c['args'] = ' '.join(toks)
        comps.append(c)
    return {'comps': comps, 'gvars': gvars, 'svars': svars}


# ------------------------------------------------------------------ independent structured specification (python)
SPECIAL = ['input', 'data', 'bin', 'conf']


def parse_spec(text, stage):
    """reference grammar as documented: [stageN.]producer[/file]:method ; special folders, absolute paths and paths
    with a separator are not component references"""
    if text.count(':') != 1:
        return ('other', text)
    ref, m = text.split(':')
    if ref.startswith('/'):
        return ('other', text)
    head, sep, rest = ref.partition('/')
    f = rest if sep else None
    if sep and head in SPECIAL:
        return ('other', text)
    if '.' in head:
        a, b = head.split('.', 1)
        if a.startswith('stage') and a[5:].isdigit():
            return (int(a[5:]), b, f, m)
        return ('other', text) if False else (stage, head, f, m)
    if head in SPECIAL or '%(' in head:
        return ('other', text)
    return (stage, head, f, m)


def resolve_count(wf, c):
    r = c['rep']
    if r is None or isinstance(r, int):
        return r
    v = r[2:-2]
    for scope in (c['cvars'], wf['svars'].get(c['stage'], {}), wf['gvars']):
        if v in scope:
            return int(scope[v])
    raise KeyError(v)


def spec_expand(wf):
    """returns ('error', why) or ('ok', info, out) with out = list of dict(stage,name,replica,refs=[parsed],origin)"""
    comps = wf['comps']
    ids = {(c['stage'], c['name']): c for c in comps}
    info = {}
    for c in comps:      # topological order
        cid = (c['stage'], c['name'])
        vals = set()
        own = resolve_count(wf, c)
        if own is not None:
            vals.add(own)
        for t in c['refs']:
            ps = parse_spec(t, c['stage'])
            if ps[0] == 'other':
                continue
            pid = (ps[0], ps[1])
            if pid not in ids:
                return ('error', 'unknown')
            if pid not in info:
                return ('error', 'not-topological')
            pr, pa = info[pid]
            if not pa and pr is not None:
                vals.add(pr)
        if len(vals) > 1:
            return ('error', 'inconsistent')
        info[cid] = (vals.pop() if vals else None, bool(c['agg']))

    def replicated(pid):
        r, a = info[pid]
        return (r is not None and r > 0 and not a)
    out = []
    for c in comps:
        cid = (c['stage'], c['name'])
        r, a = info[cid]
        parsed = [parse_spec(t, c['stage']) for t in c['refs']]
        if a:
            refs = []
            for ps in parsed:
                if ps[0] != 'other' and replicated((ps[0], ps[1])):
                    n = info[(ps[0], ps[1])][0]
                    refs += [(ps[0], '%s%d' % (ps[1], i), ps[2], ps[3]) for i in range(n)]
                else:
                    refs.append(ps)
            out.append({'stage': c['stage'], 'name': c['name'], 'replica': None, 'refs': refs, 'origin': cid})
        elif r is not None and r > 0:
            for i in range(r):
                refs = [(ps[0], '%s%d' % (ps[1], i), ps[2], ps[3]) if (ps[0] != 'other' and replicated((ps[0], ps[1])))
                        else ps for ps in parsed]
                out.append({'stage': c['stage'], 'name': '%s%d' % (c['name'], i), 'replica': i, 'refs': refs,
                            'origin': cid})
        else:
            out.append({'stage': c['stage'], 'name': c['name'], 'replica': None, 'refs': parsed, 'origin': cid})
    return ('ok', info, out)


def classes_of(wf, info):
    """known-finding classes of an input (predicates on the input only)"""
    cls = set()
    comps = wf['comps']
    ids = set((c['stage'], c['name']) for c in comps)

    def replicated(pid):
        r, a = info[pid]
        return (r is not None and r > 0 and not a)
    for c in comps:
        cid = (c['stage'], c['name'])
        r, a = info[cid]
        # replica names that collide with an existing component
        if replicated(cid):
            for i in range(r):
                if (c['stage'], '%s%d' % (c['name'], i)) in ids:
                    cls.add('replica_name_collides_with_component')
        if not (a or (r is not None and r > 0)):
            continue
        decl = [(t, parse_spec(t, c['stage'])) for t in c['refs']]
        if a:
            reps = [p1 for (_, p1) in decl if p1[0] != 'other' and replicated((p1[0], p1[1]))]
            if len(set(reps)) != len(reps):
                cls.add('aggregator_declares_reference_twice')
        n = r or 0
        for (t1, p1) in decl:
            if p1[0] == 'other' or not replicated((p1[0], p1[1])):
                continue
            n1 = info[(p1[0], p1[1])][0]
            keys = [compile_ref(p1[0], p1[1], p1[2], p1[3]), compile_ref(None, p1[1], p1[2], p1[3])]
            for (t2, p2) in decl:
                texts = set()
                if p2 == p1:
                    # own rewritten form may contain the relative key (names made of one repeated digit)
                    texts |= set(compile_ref(p1[0], p1[1], p1[2], p1[3], i) for i in range(n1))
                    hit = any(keys[1] in x for x in texts)
                else:
                    texts.add(t2)
                    if p2[0] != 'other':
                        texts.add(compile_ref(p2[0], p2[1], p2[2], p2[3]))
                        texts.add(compile_ref(None, p2[1], p2[2], p2[3]))
                        if replicated((p2[0], p2[1])):
                            texts |= set(compile_ref(p2[0], p2[1], p2[2], p2[3], i)
                                         for i in range(info[(p2[0], p2[1])][0]))
                    hit = any(k in x for k in keys for x in texts)
                if hit:
                    cls.add('overlapping_reference_spellings')
    return sorted(cls)


# ------------------------------------------------------------------ driving the implementation
def to_flowir(wf, order=None):
    comps = []
    idx = list(range(len(wf['comps']))) if order is None else order
    for k in idx:
        c = wf['comps'][k]
        d = {'stage': c['stage'], 'name': c['name'],
             'command': {'executable': 'echo', 'arguments': c['args']},
             'references': list(c['refs'])}
        wa = {}
        if c['rep'] is not None:
            wa['replicate'] = c['rep']
        if c['agg']:
            wa['aggregate'] = True
        if wa:
            d['workflowAttributes'] = wa
        if c['cvars']:
            d['variables'] = dict(c['cvars'])
        comps.append(d)
    var = {'global': dict(wf['gvars'])}
    if wf['svars']:
        var['stages'] = {int(s): dict(v) for s, v in wf['svars'].items()}
    return {'components': comps, 'variables': {'default': var}}


def run_replicate(wf, order=None):
    """('ok', [ (stage, name, refs, args, replica, replicate, aggregate) ]) or ('error', class name)"""
    import experiment.model.frontends.flowir as F
    try:
        conc = F.FlowIRConcrete(to_flowir(wf, order), None, {})
        rep = conc.replicate(ignore_errors=True)
    except Exception as e:
        return ('error', type(e).__name__)
    out = []
    for c in rep['components']:
        va = c.get('variables', {}) or {}
        wa = c.get('workflowAttributes', {}) or {}
        out.append((c['stage'], c['name'], list(c.get('references', []) or []), c.get('command', {}).get('arguments', ''),
                    va.get('replica'), wa.get('replicate'), bool(wa.get('aggregate'))))
    return ('ok', out)


def run_graph(wf, order=None):
    """('ok', nodes, edges, refs per node) or ('error', class)"""
    import experiment.model.graph as G
    try:
        g = G.WorkflowGraph.graphFromFlowIR(to_flowir(wf, order), {}, primitive=False)
        gr = g.graph
        nodes = sorted(gr.nodes)
        edges = sorted((a, b) for a, b in gr.edges)
        refs = {n: list(gr.nodes[n]['componentSpecification'].rawDataReferences) for n in nodes}
        return ('ok', nodes, edges, refs)
    except Exception as e:
        return ('error', type(e).__name__, str(e)[:300])


# ------------------------------------------------------------------ Coq printing
def cN(n):
    assert isinstance(n, int) and n >= 0
    return '%d%%N' % n


def cassoc(d):
    return clist(sorted(d.items()), lambda kv: '(%s, %s)' % (cstr(str(kv[0])), cstr(str(kv[1]))))


def coq_wf(wf):
    cs = []
    for c in wf['comps']:
        r = c['rep']
        rs = 'RNone' if r is None else ('(RLit %s)' % cN(r) if isinstance(r, int) else '(RVar %s)' % cstr(r[2:-2]))
        cs.append('{| t_stage := %s; t_name := %s; t_refs := %s; t_args := %s; t_rep := %s; t_agg := %s; t_vars := %s |}'
                  % (cN(c['stage']), cstr(c['name']), clist(c['refs'], cstr), cstr(c['args']), rs, cbool(c['agg']),
                     cassoc(c['cvars'])))
    sv = clist(sorted(wf['svars'].items()), lambda kv: '(%s, %s)' % (cN(int(kv[0])), cassoc(kv[1])))
    return '{| w_comps := %s; w_gvars := %s; w_svars := %s |}' % (clist(cs), cassoc(wf['gvars']), sv)


def coq_out(im):
    if im[0] == 'error':
        return '(@None (list ocomp))'
    os_ = []
    for (st, nm, refs, args, replica, replicate, agg) in im[1]:
        os_.append('{| o_stage := %s; o_name := %s; o_refs := %s; o_args := %s; o_replica := %s; o_replicate := %s |}'
                   % (cN(st), cstr(nm), clist(refs, cstr), cstr(args), copt(replica, cN),
                      copt(replicate if replica is not None else None, cN)))
    return '(Some %s)' % clist(os_)


def coq_graph(g):
    if g is None or g[0] != 'ok':
        return '(@None (list string * list (string * string)))'
    return '(Some (%s, %s))' % (clist(g[1], cstr), clist(g[2], lambda e: '(%s, %s)' % (cstr(e[0]), cstr(e[1]))))


# ------------------------------------------------------------------ property predicate on the implementation's output
def predicate(ctx, wf, sp, im, g, cls):
    """the property as stated, evaluated on what the real code returned"""
    case = {'workflow': wf}
    if sp[0] == 'error':
        if im[0] != 'error':
            ctx.fail(case, 'a workflow that cannot be replicated consistently (%s) was expanded without an error' % sp[1], cls)
        return
    if im[0] == 'error':
        ctx.fail(case, 'replicate() raised %s on a well-formed acyclic workflow' % im[1], cls)
        return
    info, out = sp[1], sp[2]
    exp = sorted(((o['stage'], o['name'], o['replica'], tuple(o['refs'])) for o in out), key=repr)
    got = sorted(((o[0], o[1], o[4], tuple(parse_real(r, o[0]) for r in o[2])) for o in im[1]), key=repr)
    case['expected'] = exp
    case['got'] = got
    ids_got = [(o[0], o[1]) for o in im[1]]
    if len(set(ids_got)) != len(ids_got):
        dup = sorted(set(i for i in ids_got if ids_got.count(i) > 1))
        ctx.fail(case, 'the expansion contains two components with the same identifier', cls)
        _ = dup
    if sorted(ids_got) != sorted((o['stage'], o['name']) for o in out):
        ctx.fail(case, 'the expansion does not consist of exactly the expected copies (suffix 0..N-1), aggregators and '
                       'unchanged components', cls)
    elif [(a[0], a[1], a[2]) for a in exp] != [(a[0], a[1], a[2]) for a in got]:
        ctx.fail(case, 'a copy does not know its own replica index', cls)
    elif exp != got:
        ctx.fail(case, 'references of the expansion differ from the expected rewiring (copy i -> copy i of replicated '
                       'producers, aggregator -> all copies in index order, everything else unchanged)', cls)
    known = set(ids_got)
    for o in im[1]:
        for r in o[2]:
            pr = parse_real(r, o[0])
            if pr[0] == 'unparsable' or (pr[0] != 'other' and (pr[0], pr[1]) not in known):
                ctx.fail(case, 'a reference in the expansion names a component that does not exist', cls)
                break
    if g is not None:
        if g[0] != 'ok':
            ctx.fail(case, 'the replicated graph of a well-formed workflow could not be built (%s)' % g[1], cls)
        else:
            en = sorted('stage%d.%s' % (o['stage'], o['name']) for o in out)
            ee = sorted(set(('stage%d.%s' % (r[0], r[1]), 'stage%d.%s' % (o['stage'], o['name']))
                            for o in out for r in o['refs'] if r[0] != 'other'))
            if en != g[1]:
                ctx.fail(case, 'nodes of the replicated graph are not the expected copies', cls)
            elif ee != [tuple(e) for e in g[2]]:
                ctx.fail(case, 'edges of the replicated graph are not the expected relation', cls)


def shuffled_order(rng, wf):
    idx = list(range(len(wf['comps'])))
    rng.shuffle(idx)
    return idx


def explore(ctx, cases, with_graph=True):
    """cases: list of (workflow, order given to the implementation)"""
    terms = []
    for wf, order in cases:
        sp = spec_expand(wf)
        im = run_replicate(wf, order)
        cls = classes_of(wf, sp[1]) if sp[0] == 'ok' else []
        g = None
        if with_graph and sp[0] == 'ok' and im[0] == 'ok' and not cls:
            g = run_graph(wf, order)
            ctx.count('graph_built' if g[0] == 'ok' else 'graph_error')
        nrep = sum(1 for o in sp[2] if o['replica'] is not None) if sp[0] == 'ok' else 0
        nagg = sum(1 for c in wf['comps'] if c['agg']) if sp[0] == 'ok' else 0
        nontriv = nrep >= 2 and any(len(c['refs']) > 0 for c in wf['comps'])
        ctx.case(to_flowir(wf), nontriv)
        ctx.count('components_%d' % len(wf['comps']))
        ctx.count('outcome_' + (sp[1] if sp[0] == 'error' else 'expanded'))
        if sp[0] == 'ok':
            ctx.count('replica_copies_%s' % ('0' if nrep == 0 else '1-3' if nrep < 4 else '4-9' if nrep < 10 else '10+'))
            ctx.count('with_aggregator' if nagg else 'without_aggregator')
            ctx.count('class_' + ('+'.join(cls) if cls else 'none'))
            if any(isinstance(c['rep'], str) for c in wf['comps']):
                ctx.count('count_via_variable')
        predicate(ctx, wf, sp, im, g, cls)
        terms.append(('(%s, %s, %s)' % (coq_wf(wf), coq_out(im), coq_graph(g)), wf, im, g))
        if nontriv and not cls:
            ctx.sample({'workflow': to_flowir(wf), 'replicated': im[1] if im[0] == 'ok' else im[1]}, limit=3)
    bad = ctx.model_mismatches(HEADER, [t[0] for t in terms], 'check_case', chunk=120)
    for k, i in enumerate(bad):
        _, wf, im, g = terms[i]
        m = ctx.model_eval(HEADER, '(struct_check %s, expand_t %s)' % (coq_wf(wf), coq_wf(wf))) if k < 2 else ''
        ctx.disagree({'workflow': wf}, {'replicate': im, 'graph': g}, m,
                     'C03 expansion: FlowIRConcrete.replicate()/graphFromFlowIR vs Repl.Model.expand_t (+ structured agreement)')


WITNESS_F3 = {'gvars': {}, 'svars': {}, 'comps': [
    {'stage': 0, 'name': 'A', 'refs': [], 'args': 'hi', 'rep': 2, 'agg': False, 'cvars': {}},
    {'stage': 0, 'name': 'BA', 'refs': [], 'args': 'hi', 'rep': None, 'agg': False, 'cvars': {}},
    {'stage': 0, 'name': 'C', 'refs': ['A:ref', 'BA:ref'], 'args': 'A:ref BA:ref', 'rep': None, 'agg': False, 'cvars': {}}]}
WITNESS_F3B = {'gvars': {}, 'svars': {}, 'comps': [
    {'stage': 0, 'name': 'a', 'refs': [], 'args': 'hi', 'rep': 2, 'agg': False, 'cvars': {}},
    {'stage': 0, 'name': 'a1', 'refs': [], 'args': 'hi', 'rep': None, 'agg': False, 'cvars': {}}]}


WITNESS_F3C = {'gvars': {}, 'svars': {}, 'comps': [
    {'stage': 0, 'name': 'A', 'refs': [], 'args': 'hi', 'rep': 2, 'agg': False, 'cvars': {}},
    {'stage': 0, 'name': 'C', 'refs': ['A:ref', 'stage0.A:ref'], 'args': 'hi', 'rep': None, 'agg': True, 'cvars': {}}]}


def run(ctx):
    rng = ctx.rng
    ctx.rule = ('random acyclic workflows (2-8 components, 1-3 stages) over a small alphabet of component names '
                '(prefix/suffix/substring pairs, names ending in digits, equal names in different stages), relative and '
                'absolute spellings, files and 5 methods, non-component references, replica counts literal or via '
                'component/stage/global variables, aggregators, chains; 35% of the cases use non-overlapping names; the '
                'implementation receives the components in a shuffled order; non-trivial = at least two replica copies '
                'are produced and some component has references; distinct by the whole workflow')
    n = 1100 if ctx.tier == 'quick' else 12000
    cases = [(WITNESS_F3, None), (WITNESS_F3B, None), (WITNESS_F3C, None)]
    for k in range(n):
        mode = 'clean' if rng.random() < 0.35 else 'mixed'
        wf = gen_workflow(rng, mode)
        cases.append((wf, shuffled_order(rng, wf)))
    explore(ctx, cases)


def replay(ctx, path):
    d = json.load(open(path))
    c = d.get('case') or d.get('first', {}).get('case')
    if not c or 'workflow' not in c:
        print('replay file names no input (proof obligation): re-run ./check C03')
        return 2
    wf = c['workflow']
    wf['svars'] = {int(k): v for k, v in wf.get('svars', {}).items()}
    explore(ctx, [(wf, None)])
    for f in ctx.failures:
        print('REPRODUCED: %s' % f['what'])
    for f in ctx.disagreements:
        print('DISAGREEMENT: %s' % (f['correspondence'],))
    return 1 if (ctx.failures or ctx.disagreements) else 0
