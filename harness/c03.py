"""C03 — Replication expands a workflow without changing its dataflow.
Implementation driven: the real FlowIRConcrete(flowir, ctor_platform).replicate(platform=..., ignore_errors=True)
(-> instance(platform) -> FlowIR.apply_replicate -> propagate_replicate, compile_component_replica,
compile_component_aggregate, ParseDataReferenceFull, compile_reference), FlowIR.apply_replicate driven directly with
component dictionaries and one set of variables, and, for the cases that replicate without error, the real
WorkflowGraph.graphFromFlowIR(..., platform=..., primitive=False) (-> FlowIRExperimentConfiguration.replicate();
nodes, edges, per-node references).  Nothing is faked.

A workflow (dict) has the keys comps / gvars / svars (the default platform) and optionally
  platforms  ['default', P, ...]            pvars  {P: {'gvars': {...}, 'svars': {stage: {...}}}}
  ctor       platform given to FlowIRConcrete(...)          req   platform given to replicate(platform=...)
  entry      'concrete' (default) | 'direct' (FlowIR.apply_replicate)
and a component optionally  agg_sp  (workflowAttributes.aggregate as written: bool / text / '%(v)s'; when absent the
boolean `agg` is written as true / left out),  over  {P: {'rep': ..., 'agg_sp': ..., 'vars': {...}}}  (override.P),
extra  {slot: text}  (strings in other sections of the definition, see SLOTS).  The values of cvars / override
variables and of `extra` may spell references (used as %(v)s in command.arguments): replication rewrites EVERY string
of a component, and every one is observed."""
import json

from common import clist, cstr, cbool, copt, cpair

PROP = 'C03'
COQ_DIR = 'Repl'
ASSUMPTIONS = [
    'component names are drawn from [A-Za-z0-9_-] (no regular-expression metacharacters: compile_component_aggregate '
    'interpolates the reference unescaped into a regex; the "." of "stageN." is modelled as a literal dot), no "#" '
    '(DoWhile placeholders are outside this property), no application dependencies, no top-level folders',
    'replica counts are non-negative integers given literally, as a decimal text or as a whole-string %(name)s variable '
    'whose value is a decimal string defined at component, stage or global scope of the default or of another platform, or '
    'in the component\'s override section of that platform; aggregate is a boolean, one of the texts to_bool accepts '
    '(true/false/yes/no/y/n in any case; rarely another text, which must be refused) or a whole-string %(name)s variable '
    'with such a value; variables are plain values (not defined in terms of other variables); no blueprints',
    'the graph entry point is driven only for workflows without the one-letter spellings y/n and without a replicate or '
    'a non-boolean aggregate in the override section of the platform expanded for: the validation that graphFromFlowIR '
    'runs AFTER the expansion refuses them (convert_component_types knows no y/n; the schema check refuses the '
    'replicate the copies carry in their override section and any aggregate there that is not a YAML boolean), which '
    'is outside this property; those workflows are expanded through FlowIRConcrete.replicate() only',
    'besides name / references / arguments the strings read back from every returned component are its variables and '
    '8 places of the definition (command.executable / environment / interpreter, executors pre / post payload, '
    'resourceManager kubernetes.image / lsf.queue / lsf.resourceString); workflows that fill those places are not driven '
    'through graphFromFlowIR (its validation of these sections is outside this property); the expected text of a copy is '
    'defined token-wise (a token = a declared spelling, optionally followed by /path) outside the open finding classes',
    'workflows are generated acyclic (the model receives the components in a topological order, the implementation '
    'receives them grouped by stage as FlowIRConcrete stores them)',
    'the structured theorems are over parsed references; the textual layer is tied to them by C03_textual_refines '
    '(reference strings of copies), C03_textual_refines_aggregate (reference strings of aggregators), '
    'C03_textual_arguments_replica (argument tokens of copies) and C03_textual_dataflow (nodes and edges of the textual '
    'expansion = those of the structured one); their computable hypotheses (no_overlap, agg_sep, comp_guard, args_sep, '
    'rt_ok) are evaluated inside Coq on every case by struct_check together with the conclusions; argument strings of '
    'aggregators and the parse/print round trip (rt_ok) are covered by the correspondence, not by a theorem',
]
HEADER = 'Require Import V.Repl.Model V.Repl.Platform V.Repl.Everywhere.\nOpen Scope string_scope.'

METHODS = ['ref', 'copy', 'output', 'link', 'extract']
NAMES = ['A', 'B', 'BA', 'AB', 'A0', 'A1', 'A00', 'a', 'a1', 'B0', 'AA', 'x-A', 'A_B', 'C', 'D', 'Ca', '0', '1', 'A10']
CLEAN_NAMES = ['Gen', 'Sim', 'Post', 'Plot', 'Merge', 'Fit', 'Obs', 'Mix', 'Run', 'Sum', 'Tab', 'Viz']
FILES = [None, None, None, 'out.txt', 'd/f.dat', 'A', 'ref']
OTHER_REFS = ['data/file.txt:copy', 'input/x.csv:ref', '/abs/path/file:ref', 'conf/A:ref', 'bin/tool:ref',
              'data/A:ref', 'input/stage0.A:ref']
FILLER = ['-n', '3', '--in', 'x', '-v', 'A', 'stage0', '--f=y']
# where else a component definition holds free text that may spell a reference (label = path in the definition)
SLOTS = ['command.executable', 'command.environment', 'command.interpreter', 'executors.pre.0.payload',
         'executors.post.0.payload', 'resourceManager.kubernetes.image', 'resourceManager.lsf.queue',
         'resourceManager.lsf.resourceString']
REF_VARS = ['conf', 'inp', 'src', 'restart', 'in-2']
SUFFIXES = ['/out.txt', '/d/x.dat', '/a/b/c', '/o.txt,', '/*.csv']


def slot_set(d, label, val):
    parts = label.split('.')
    if parts[0] == 'executors':
        d.setdefault('executors', {}).setdefault(parts[1], []).append(
            {'name': 'lsf-dm-in' if parts[1] == 'pre' else 'lsf-dm-out', 'payload': val})
        return
    cur = d
    for k in parts[:-1]:
        cur = cur.setdefault(k, {})
    cur[parts[-1]] = val


def slot_get(d, label):
    cur = d
    for k in label.split('.'):
        if isinstance(cur, list):
            cur = cur[int(k)] if int(k) < len(cur) else None
        elif isinstance(cur, dict):
            cur = cur.get(k)
        else:
            return None
    return cur


# ------------------------------------------------------------------ reference helpers (spec side)
def compile_ref(stage, prod, fname, method, replica=None):
    p = prod if replica is None else '%s%d' % (prod, replica)
    r = '%s:%s' % (p, method) if fname is None else '%s/%s:%s' % (p, fname, method)
    return r if stage is None else 'stage%d.%s' % (stage, r)


def parse_real(text, stage):
    """the implementation's own parser (used only to read the implementation's output for the predicate)"""
    import experiment.model.frontends.flowir as F
    try:
        s, p, f, m = F.FlowIR.ParseDataReferenceFull(text, stage)
    except Exception as e:  # noqa
        return ('unparsable', text)
    if s is None:
        return ('other', text)
    return (s, p, f, m)


# ------------------------------------------------------------------ generator
def gen_workflow(rng, mode='mixed'):
    """returns a workflow: dict(comps=[...] in topological order, gvars, svars).
    comp: dict(stage, name, refs=[(text, parsed)], args, rep (None|int|'%(v)s'), agg (bool), cvars)"""
    names = NAMES if mode != 'clean' else CLEAN_NAMES
    nstage = rng.choice([1, 2, 2, 3])
    ncomp = rng.randint(2, 8)
    stages = sorted(rng.randrange(nstage) for _ in range(ncomp))
    # stages must be 0..k contiguous for FlowIRConcrete
    remap = {s: i for i, s in enumerate(sorted(set(stages)))}
    stages = [remap[s] for s in stages]
    # replica counts of ten or more matter: copy names and aggregated inputs must follow the numeric index order
    N = rng.choice([1, 2, 2, 3, 3, 4, 11, 12])
    gvars, svars = {}, {}
    comps = []
    used = set()
    pool = rng.sample(names, min(len(names), rng.choice([3, 4, 6])))
    for k in range(ncomp):
        st = stages[k]
        for _ in range(30):
            nm = rng.choice(pool if rng.random() < 0.8 else names)
            if (st, nm) not in used:
                break
        else:
            continue
        used.add((st, nm))
        c = {'stage': st, 'name': nm, 'refs': [], 'args': '', 'rep': None, 'agg': False, 'cvars': {}}
        # producers
        prods = []
        if comps:
            npro = rng.choice([0, 1, 1, 2, 2, 3])
            cands = list(range(len(comps)))
            rng.shuffle(cands)
            prods = sorted(cands[:npro])
        seen = set()
        for pi in prods:
            p = comps[pi]
            f = rng.choice(FILES)
            m = rng.choice(METHODS[:3] if rng.random() < 0.7 else METHODS)
            tup = (p['stage'], p['name'], f, m)
            if tup in seen:
                continue
            seen.add(tup)
            rel = (p['stage'] == st) and rng.random() < 0.55
            c['refs'].append(compile_ref(None if rel else p['stage'], p['name'], f, m))
            # a second reference to the SAME producer with another file/method: both must be rewired
            if rng.random() < 0.2:
                f2 = rng.choice(FILES)
                m2 = rng.choice(METHODS[:3])
                tup2 = (p['stage'], p['name'], f2, m2)
                if tup2 not in seen and (f2, m2) != (f, m):
                    seen.add(tup2)
                    rel2 = (p['stage'] == st) and rng.random() < 0.55
                    c['refs'].append(compile_ref(None if rel2 else p['stage'], p['name'], f2, m2))
        if rng.random() < 0.2:
            c['refs'].insert(rng.randrange(len(c['refs']) + 1), rng.choice(OTHER_REFS))
        if mode == 'mixed' and rng.random() < 0.006:
            c['refs'].append(compile_ref(rng.choice([None, st]), 'Ghost', None, 'ref'))     # unknown component
        # replicate / aggregate
        r = rng.random()
        if (not prods and r < 0.6) or (prods and r < 0.12):
            n = N if rng.random() < 0.9 else rng.choice([0, 1, 2, 3, 5])
            how = rng.random()
            if how < 0.5:
                c['rep'] = n
            else:
                v = rng.choice(['n', 'count', 'N'])
                c['rep'] = '%%(%s)s' % v
                where = rng.random()
                val = str(n) if rng.random() < 0.8 else n
                if where < 0.4 and gvars.get(v, val) == val:
                    gvars[v] = val
                elif where < 0.6 and svars.get(st, {}).get(v, val) == val and v not in gvars:
                    svars.setdefault(st, {})[v] = val
                else:
                    c['cvars'][v] = val
        if prods and rng.random() < 0.22:
            c['agg'] = True
        elif not prods and rng.random() < 0.04:
            c['agg'] = True
        # arguments
        toks = []
        for t in c['refs']:
            u = rng.random()
            if u < 0.15:
                continue
            use = t
            if u > 0.85:
                ps = parse_spec(t, st)
                if ps[0] != 'other':
                    alt = compile_ref(None if t.startswith('stage') else ps[0], ps[1], ps[2], ps[3])
                    if ps[0] == st:
                        use = alt
            v = rng.random()
            if v < 0.25:
                use += rng.choice(['/out.txt', '/d/x.dat', '/a/b/c', '/o.txt,', '/*.csv'])
            toks.append(use)
            if rng.random() < 0.3:
                toks.append(rng.choice(FILLER))
        if rng.random() < 0.5:
            toks.insert(0, rng.choice(FILLER))
        c['args'] = ' '.join(toks)
        comps.append(c)
    return {'comps': comps, 'gvars': gvars, 'svars': svars}


# ------------------------------------------------------------------ independent structured specification (python)
SPECIAL = ['input', 'data', 'bin', 'conf']


def parse_spec(text, stage):
    """reference grammar as documented: [stageN.]producer[/file]:method ; special folders, absolute paths and paths
    with a separator are not component references"""
    if text.count(':') != 1:
        return ('other', text)
    ref, m = text.split(':')
    if ref.startswith('/'):
        return ('other', text)
    head, sep, rest = ref.partition('/')
    f = rest if sep else None
    if sep and head in SPECIAL:
        return ('other', text)
    if '.' in head:
        a, b = head.split('.', 1)
        if a.startswith('stage') and a[5:].isdigit():
            return (int(a[5:]), b, f, m)
        return ('other', text) if False else (stage, head, f, m)
    if head in SPECIAL or '%(' in head:
        return ('other', text)
    return (stage, head, f, m)


def resolve_count(wf, c):
    r = c['rep']
    if r is None or isinstance(r, int):
        return r
    v = r[2:-2]
    for scope in (c['cvars'], wf['svars'].get(c['stage'], {}), wf['gvars']):
        if v in scope:
            return int(scope[v])
    raise KeyError(v)


def spec_expand(wf):
    """returns ('error', why) or ('ok', info, out) with out = list of dict(stage,name,replica,refs=[parsed],origin)"""
    comps = wf['comps']
    ids = {(c['stage'], c['name']): c for c in comps}
    info = {}
    for c in comps:      # topological order
        cid = (c['stage'], c['name'])
        vals = set()
        own = resolve_count(wf, c)
        if own is not None:
            vals.add(own)
        for t in c['refs']:
            ps = parse_spec(t, c['stage'])
            if ps[0] == 'other':
                continue
            pid = (ps[0], ps[1])
            if pid not in ids:
                return ('error', 'unknown')
            if pid not in info:
                return ('error', 'not-topological')
            pr, pa = info[pid]
            if not pa and pr is not None:
                vals.add(pr)
        if len(vals) > 1:
            return ('error', 'inconsistent')
        info[cid] = (vals.pop() if vals else None, bool(c['agg']))

    def replicated(pid):
        r, a = info[pid]
        return (r is not None and r > 0 and not a)
    out = []
    for c in comps:
        cid = (c['stage'], c['name'])
        r, a = info[cid]
        parsed = [parse_spec(t, c['stage']) for t in c['refs']]
        if a:
            refs = []
            for ps in parsed:
                if ps[0] != 'other' and replicated((ps[0], ps[1])):
                    n = info[(ps[0], ps[1])][0]
                    refs += [(ps[0], '%s%d' % (ps[1], i), ps[2], ps[3]) for i in range(n)]
                else:
                    refs.append(ps)
            out.append({'stage': c['stage'], 'name': c['name'], 'replica': None, 'refs': refs, 'origin': cid})
        elif r is not None and r > 0:
            for i in range(r):
                refs = [(ps[0], '%s%d' % (ps[1], i), ps[2], ps[3]) if (ps[0] != 'other' and replicated((ps[0], ps[1])))
                        else ps for ps in parsed]
                out.append({'stage': c['stage'], 'name': '%s%d' % (c['name'], i), 'replica': i, 'refs': refs,
                            'origin': cid})
        else:
            out.append({'stage': c['stage'], 'name': c['name'], 'replica': None, 'refs': parsed, 'origin': cid})
    return ('ok', info, out)


def classes_of(wf, info):
    """known-finding classes of an input (predicates on the input only)"""
    cls = set()
    comps = wf['comps']
    ids = set((c['stage'], c['name']) for c in comps)

    def replicated(pid):
        r, a = info[pid]
        return (r is not None and r > 0 and not a)
    for c in comps:
        cid = (c['stage'], c['name'])
        r, a = info[cid]
        # replica names that collide with an existing component
        if replicated(cid):
            for i in range(r):
                if (c['stage'], '%s%d' % (c['name'], i)) in ids:
                    cls.add('replica_name_collides_with_component')
        if not (a or (r is not None and r > 0)):
            continue
        decl = [(t, parse_spec(t, c['stage'])) for t in c['refs']]
        if a:
            reps = [p1 for (_, p1) in decl if p1[0] != 'other' and replicated((p1[0], p1[1]))]
            if len(set(reps)) != len(reps):
                cls.add('aggregator_declares_reference_twice')
        n = r or 0
        for (t1, p1) in decl:
            if p1[0] == 'other' or not replicated((p1[0], p1[1])):
                continue
            n1 = info[(p1[0], p1[1])][0]
            keys = [compile_ref(p1[0], p1[1], p1[2], p1[3]), compile_ref(None, p1[1], p1[2], p1[3])]
            for (t2, p2) in decl:
                texts = set()
                if p2 == p1:
                    # own rewritten form may contain the relative key (names made of one repeated digit)
                    texts |= set(compile_ref(p1[0], p1[1], p1[2], p1[3], i) for i in range(n1))
                    hit = any(keys[1] in x for x in texts)
                else:
                    texts.add(t2)
                    if p2[0] != 'other':
                        texts.add(compile_ref(p2[0], p2[1], p2[2], p2[3]))
                        texts.add(compile_ref(None, p2[1], p2[2], p2[3]))
                        if replicated((p2[0], p2[1])):
                            texts |= set(compile_ref(p2[0], p2[1], p2[2], p2[3], i)
                                         for i in range(info[(p2[0], p2[1])][0]))
                    hit = any(k in x for k in keys for x in texts)
                if hit:
                    cls.add('overlapping_reference_spellings')
    return sorted(cls)


# ------------------------------------------------------------------ spelling / platform layer (spec side)
TRUE_WORDS = ['true', 'y', 'yes']
FALSE_WORDS = ['false', 'n', 'no']
TRUE_SP = [True, 'true', 'True', 'TRUE', 'yes', 'Yes', 'YES', 'y', 'Y']
FALSE_SP = [False, 'false', 'False', 'no', 'No', 'n', 'N']
PLATFORMS = ['hpc', 'lsf', 'cloud-1']
FLAG_VARS = ['doAggregate', 'agg', 'flag']


def is_var(x):
    return isinstance(x, str) and x.startswith('%(') and x.endswith(')s')


def target_platform(wf):
    """the platform the expansion is asked for: replicate(platform=req) else the one of the object else default"""
    if wf.get('entry', 'concrete') == 'direct':
        return 'default'
    return wf.get('req') or wf.get('ctor') or 'default'


def written_flag(c):
    if 'agg_sp' in c:
        return c['agg_sp']
    return True if c['agg'] else None


def effective(wf):
    """the workflow as the platform it is expanded for sees it, by the documented order of inheritance:
    default global < platform global; default stage (minus what the platform defines globally) < platform stage;
    component < its override for the platform; visible to a component: global < stage < component.
    -> ('ok', plain workflow with integer/None counts and boolean flags) | ('error', why)"""
    p = target_platform(wf)
    if p not in wf.get('platforms', ['default']):
        return ('error', 'unknown-platform')
    pv = wf.get('pvars', {}).get(p, {}) if p != 'default' else {}
    pg = pv.get('gvars', {})
    g = dict(wf['gvars'])
    g.update(pg)
    comps = []
    for c in wf['comps']:
        st = c['stage']
        sv = {k: v for k, v in wf['svars'].get(st, {}).items() if k not in pg}
        sv.update(pv.get('svars', {}).get(st, {}))
        o = c.get('over', {}).get(p, {}) if p != 'default' else {}
        cv = dict(c['cvars'])
        cv.update(o.get('vars', {}))

        def value(x):
            if is_var(x):
                for scope in (cv, sv, g):
                    if x[2:-2] in scope:
                        return str(scope[x[2:-2]])
                raise KeyError(x)
            return x
        rep = o['rep'] if o.get('rep') is not None else c['rep']
        flag = o['agg_sp'] if o.get('agg_sp') is not None else written_flag(c)
        try:
            rep = value(rep)
            flag = value(flag)
        except KeyError:
            return ('error', 'unknown-variable')
        if isinstance(rep, str):
            if not (rep.isdigit() and rep.isascii()):
                return ('error', 'count-not-a-number')
            rep = int(rep)
        if flag is None:
            flag = False
        elif not isinstance(flag, bool):
            if flag.lower() in TRUE_WORDS:
                flag = True
            elif flag.lower() in FALSE_WORDS:
                flag = False
            else:
                return ('error', 'aggregate-not-a-boolean')
        comps.append({'stage': st, 'name': c['name'], 'refs': c['refs'], 'args': c['args'], 'rep': rep, 'agg': flag,
                      'cvars': {}, 'evars': {k: str(v) for k, v in cv.items()}, 'extra': dict(c.get('extra', {}))})
    return ('ok', {'comps': comps, 'gvars': {}, 'svars': {}})


def graph_safe(wf):
    """the validation after the expansion (not part of this property) accepts the workflow: see ASSUMPTIONS"""
    p = target_platform(wf)
    words = []
    if any(c.get('extra') for c in wf['comps']):
        return False
    for c in wf['comps']:
        words.append(written_flag(c))
        words += list(c['cvars'].values())
        for q, o in c.get('over', {}).items():
            words.append(o.get('agg_sp'))
            words += list(o.get('vars', {}).values())
            if q == p and (o.get('rep') is not None or not isinstance(o.get('agg_sp'), (bool, type(None)))):
                return False
    scopes = [wf['gvars']] + list(wf['svars'].values())
    for pv in wf.get('pvars', {}).values():
        scopes += [pv.get('gvars', {})] + list(pv.get('svars', {}).values())
    for sc in scopes:
        words += list(sc.values())
    return not any(isinstance(x, str) and x.lower() in ('y', 'n') for x in words)


def put_var(rng, wf, c, name, val, platform=None):
    """define `name` somewhere the component sees it (component / stage / global scope of the default platform, or
    of `platform`: its global / stage variables or the component's override section)"""
    u = rng.random()
    st = c['stage']
    if platform is None:
        if u < 0.4:
            c['cvars'][name] = val
        elif u < 0.7:
            wf['svars'].setdefault(st, {})[name] = val
        else:
            wf['gvars'][name] = val
    else:
        pv = wf.setdefault('pvars', {}).setdefault(platform, {'gvars': {}, 'svars': {}})
        if u < 0.3:
            c.setdefault('over', {}).setdefault(platform, {}).setdefault('vars', {})[name] = val
        elif u < 0.6:
            pv['svars'].setdefault(st, {})[name] = val
        else:
            pv['gvars'][name] = val


def spell_flag(rng, wf, c, value, platform=None, junk=0.0):
    """a way of writing the boolean `value` (a later definition of the same variable in a nearer scope may change
    what it reads: the specification reads the finished workflow)"""
    words = TRUE_SP if value else FALSE_SP
    if rng.random() < junk:
        words = ['maybe', '1', 'si']
    if rng.random() < 0.5:
        return rng.choice(words)
    name = rng.choice(FLAG_VARS)
    put_var(rng, wf, c, name, rng.choice(words), platform)
    return '%%(%s)s' % name


def respell(rng, wf):
    """dimension 1: how workflowAttributes.aggregate (and a literal count) is written"""
    for c in wf['comps']:
        if c['agg']:
            if rng.random() < 0.8:
                c['agg_sp'] = spell_flag(rng, wf, c, True, junk=0.02)
        elif rng.random() < 0.3:
            c['agg_sp'] = spell_flag(rng, wf, c, False, junk=0.02)
        if isinstance(c['rep'], int) and rng.random() < 0.3:
            c['rep'] = str(c['rep']) if rng.random() < 0.95 else 'two'
    return wf


def platformise(rng, wf):
    """dimension 2: a second platform on which the counts (and some flags) differ, and the platforms the object is
    built for / the expansion is asked for"""
    p = rng.choice(PLATFORMS)
    wf['platforms'] = ['default', p] if rng.random() < 0.8 else ['default', p, 'other']
    pv = wf.setdefault('pvars', {}).setdefault(p, {'gvars': {}, 'svars': {}})
    n2 = rng.choice([1, 2, 3, 4, 5, 11])
    for c in wf['comps']:
        st = c['stage']
        if c['rep'] is not None and rng.random() < 0.88:
            r = c['rep']
            if is_var(r):
                v = r[2:-2]
                val = str(n2) if rng.random() < 0.8 else n2
                if v in c['cvars']:
                    c.setdefault('over', {}).setdefault(p, {}).setdefault('vars', {})[v] = val
                elif v in wf['svars'].get(st, {}):
                    # a platform's global variable hides the default platform's stage variable
                    if rng.random() < 0.5:
                        pv['gvars'][v] = val
                    else:
                        pv['svars'].setdefault(st, {})[v] = val
                else:
                    if rng.random() < 0.7:
                        pv['gvars'][v] = val
                    else:
                        pv['svars'].setdefault(st, {})[v] = val
            else:
                u = rng.random()
                o = c.setdefault('over', {}).setdefault(p, {})
                if u < 0.4:
                    o['rep'] = n2
                elif u < 0.6:
                    o['rep'] = str(n2)
                else:
                    v = rng.choice(['pn', 'n'])
                    o['rep'] = '%%(%s)s' % v
                    put_var(rng, wf, c, v, str(n2), p)
        elif c['rep'] is None and not c['refs'] and rng.random() < 0.1:
            c.setdefault('over', {}).setdefault(p, {})['rep'] = n2          # replicated on this platform only
        if rng.random() < 0.12:
            # the flag differs on this platform
            now = c['agg']
            c.setdefault('over', {}).setdefault(p, {})['agg_sp'] = spell_flag(rng, wf, c, not now, p)
        elif c['agg'] and rng.random() < 0.2:
            c.setdefault('over', {}).setdefault(p, {})['agg_sp'] = spell_flag(rng, wf, c, True, p)
    wf['ctor'] = rng.choice([None, 'default', p, p])
    wf['req'] = rng.choice([None, 'default', p, p, p]) if rng.random() < 0.96 else rng.choice(['', 'nope'])
    return wf


def shadow(rng, wf):
    """dimension 1b: the same variable defined in a farther scope with another value - the nearer scope wins"""
    for c in wf['comps']:
        st = c['stage']
        for x, other in ((c['rep'], lambda v: str(int(v) + rng.choice([1, 2])) if str(v).isdigit() else '7'),
                         (c.get('agg_sp'), lambda v: 'no' if str(v).lower() in TRUE_WORDS else 'yes')):
            if not is_var(x) or rng.random() < 0.4:
                continue
            v = x[2:-2]
            scopes = [c['cvars'], wf['svars'].setdefault(st, {}), wf['gvars']]
            near = [i for i in range(3) if v in scopes[i]]
            far = [i for i in range(3) if near and i > near[0] and v not in scopes[i]]
            if far:
                scopes[rng.choice(far)][v] = other(scopes[near[0]][v])
    for st in [k for k, d in wf['svars'].items() if not d]:
        del wf['svars'][st]
    return wf


def decorate(rng, wf):
    u = rng.random()
    if rng.random() < 0.35:
        shadow(rng, wf)
    if u < 0.45:
        respell(rng, wf)
        if rng.random() < 0.35:
            shadow(rng, wf)
        if rng.random() < 0.45:
            wf['entry'] = 'direct'
    elif u < 0.8:
        platformise(rng, wf)
    else:
        respell(rng, wf)
        platformise(rng, wf)
    return wf


def ref_text(rng, c, single=False):
    """a text that spells references the component declares - as declared or in the other spelling, as they are or
    with a path after the method - between words that are no references"""
    st = c['stage']
    refs = list(c['refs'])
    rng.shuffle(refs)
    toks = []
    for t in refs[:1 if single else rng.choice([1, 1, 1, 2])]:
        use = t
        ps = parse_spec(t, st)
        if ps[0] != 'other' and ps[0] == st and rng.random() < 0.4:
            use = compile_ref(None if t.startswith('stage') else ps[0], ps[1], ps[2], ps[3])
        if rng.random() < 0.35:
            use += rng.choice(SUFFIXES)
        if not single and rng.random() < 0.3:
            toks.append(rng.choice(FILLER))
        toks.append(use)
    return ' '.join(toks)


def sprinkle(rng, wf, p_comp=0.5):
    """dimension 3: WHERE a component spells its producers besides `references` and command.arguments - in its own
    variables (used as %(v)s on the command line; on a second platform also in override.<platform>.variables, with or
    without another spelling in the definition) and in other sections of the definition (SLOTS)"""
    plat = wf['platforms'][1] if 'platforms' in wf and wf.get('entry', 'concrete') != 'direct' else None
    for c in wf['comps']:
        if not c['refs'] or rng.random() >= p_comp:
            continue
        if rng.random() < 0.8:
            for _ in range(rng.choice([1, 1, 2])):
                free = [v for v in REF_VARS if v not in c['cvars']]
                if not free:
                    break
                v = rng.choice(free)
                if plat is not None and rng.random() < 0.3:
                    c.setdefault('over', {}).setdefault(plat, {}).setdefault('vars', {})[v] = ref_text(rng, c)
                    if rng.random() < 0.5:
                        c['cvars'][v] = ref_text(rng, c)
                    else:
                        c['cvars'][v] = 'none'
                else:
                    c['cvars'][v] = ref_text(rng, c)
                toks = c['args'].split(' ') if c['args'] else []
                toks.insert(rng.randrange(len(toks) + 1), '%%(%s)s' % v)
                c['args'] = ' '.join(toks)
        if rng.random() < 0.4:
            for lab in rng.sample(SLOTS, rng.choice([1, 1, 2])):
                c.setdefault('extra', {})[lab] = ref_text(rng, c, single=lab in ('command.executable', 'command.environment'))
    return wf


# ------------------------------------------------------------------ driving the implementation
def to_flowir(wf, order=None):
    comps = []
    idx = list(range(len(wf['comps']))) if order is None else order
    for k in idx:
        c = wf['comps'][k]
        d = {'stage': c['stage'], 'name': c['name'],
             'command': {'executable': 'echo', 'arguments': c['args']},
             'references': list(c['refs'])}
        wa = {}
        if c['rep'] is not None:
            wa['replicate'] = c['rep']
        if written_flag(c) is not None:
            wa['aggregate'] = written_flag(c)
        if wa:
            d['workflowAttributes'] = wa
        if c['cvars']:
            d['variables'] = dict(c['cvars'])
        for p, o in sorted(c.get('over', {}).items()):
            od = {}
            owa = {}
            if o.get('rep') is not None:
                owa['replicate'] = o['rep']
            if o.get('agg_sp') is not None:
                owa['aggregate'] = o['agg_sp']
            if owa:
                od['workflowAttributes'] = owa
            if o.get('vars'):
                od['variables'] = dict(o['vars'])
            if od:
                d.setdefault('override', {})[p] = od
        for lab, val in sorted(c.get('extra', {}).items()):
            slot_set(d, lab, val)
        comps.append(d)
    var = {'global': dict(wf['gvars'])}
    if wf['svars']:
        var['stages'] = {int(s): dict(v) for s, v in wf['svars'].items()}
    out = {'components': comps, 'variables': {'default': var}}
    if 'platforms' in wf:
        out['platforms'] = list(wf['platforms'])
        for p in wf['platforms']:
            if p == 'default':
                continue
            pv = wf.get('pvars', {}).get(p, {})
            out['variables'][p] = {'global': dict(pv.get('gvars', {})),
                                   'stages': {int(s): dict(v) for s, v in pv.get('svars', {}).items()}}
    return out


def run_replicate(wf, order=None):
    """('ok', [ (stage, name, refs, args, replica, replicate, aggregate) ]) or ('error', class name)"""
    import experiment.model.frontends.flowir as F
    try:
        fl = to_flowir(wf, order)
        if wf.get('entry', 'concrete') == 'direct':
            # the functions the property names, driven directly: component dictionaries + one set of variables
            var = fl['variables']['default']
            rep = {'components': F.FlowIR.apply_replicate(
                fl['components'], {'global': var['global'], 'stages': var.get('stages', {})}, False, [], [])}
        else:
            conc = F.FlowIRConcrete(fl, wf.get('ctor'), {})
            if 'req' in wf:
                rep = conc.replicate(platform=wf['req'], ignore_errors=True)
            else:
                rep = conc.replicate(ignore_errors=True)
    except Exception as e:
        return ('error', type(e).__name__)
    out = []
    by = {(c['stage'], c['name']): c for c in wf['comps']}
    for c in rep['components']:
        va = c.get('variables', {}) or {}
        wa = c.get('workflowAttributes', {}) or {}
        # the component of the input this one was made from (only to know which other strings to read back)
        org = None
        sfx = str(va.get('replica'))
        if 'replica' in va and c['name'].endswith(sfx):
            org = by.get((c['stage'], c['name'][:-len(sfx)]))
        if org is None:
            org = by.get((c['stage'], c['name']))
        extra = None
        if org is not None:
            extra = {}
            for lab in sorted(org.get('extra', {})):
                x = slot_get(c, lab)
                extra[lab] = x if isinstance(x, str) else '<%r>' % (x,)
        out.append((c['stage'], c['name'], list(c.get('references', []) or []), c.get('command', {}).get('arguments', ''),
                    va.get('replica'), wa.get('replicate'), wa.get('aggregate'),
                    {str(k): str(v) for k, v in va.items() if k != 'replica'}, extra))
    return ('ok', out)


def run_graph(wf, order=None):
    """('ok', nodes, edges, refs per node) or ('error', class)"""
    import experiment.model.graph as G
    try:
        p = target_platform(wf)
        if 'platforms' in wf:
            g = G.WorkflowGraph.graphFromFlowIR(to_flowir(wf, order), {}, platform=p, primitive=False)
        else:
            g = G.WorkflowGraph.graphFromFlowIR(to_flowir(wf, order), {}, primitive=False)
        gr = g.graph
        nodes = sorted(gr.nodes)
        edges = sorted((a, b) for a, b in gr.edges)
        refs = {n: list(gr.nodes[n]['componentSpecification'].rawDataReferences) for n in nodes}
        return ('ok', nodes, edges, refs)
    except Exception as e:
        return ('error', type(e).__name__, str(e)[:300])


# ------------------------------------------------------------------ Coq printing
def cN(n):
    assert isinstance(n, int) and n >= 0
    return '%d%%N' % n


def cassoc(d):
    return clist(sorted(d.items()), lambda kv: '(%s, %s)' % (cstr(str(kv[0])), cstr(str(kv[1]))))


def coq_wf(wf):
    cs = []
    for c in wf['comps']:
        r = c['rep']
        rs = 'RNone' if r is None else ('(RLit %s)' % cN(r) if isinstance(r, int) else '(RVar %s)' % cstr(r[2:-2]))
        cs.append('{| t_stage := %s; t_name := %s; t_refs := %s; t_args := %s; t_rep := %s; t_agg := %s; t_vars := %s |}'
                  % (cN(c['stage']), cstr(c['name']), clist(c['refs'], cstr), cstr(c['args']), rs, cbool(c['agg']),
                     cassoc(c['cvars'])))
    sv = clist(sorted(wf['svars'].items()), lambda kv: '(%s, %s)' % (cN(int(kv[0])), cassoc(kv[1])))
    return '{| w_comps := %s; w_gvars := %s; w_svars := %s |}' % (clist(cs), cassoc(wf['gvars']), sv)


def c_cspec(r):
    if r is None:
        return 'CNone'
    if isinstance(r, int):
        return '(CLit %s)' % cN(r)
    return '(CVar %s)' % cstr(r[2:-2]) if is_var(r) else '(CText %s)' % cstr(r)


def c_aspec(a):
    if a is None:
        return 'ANone'
    if isinstance(a, bool):
        return '(ABool %s)' % cbool(a)
    return '(AVar %s)' % cstr(a[2:-2]) if is_var(a) else '(AText %s)' % cstr(a)


def c_pvars(gv, sv):
    return '{| p_global := %s; p_stages := %s |}' % (
        cassoc(gv), clist(sorted(sv.items()), lambda kv: '(%s, %s)' % (cN(int(kv[0])), cassoc(kv[1]))))


def coq_rwf(wf):
    cs = []
    for c in wf['comps']:
        ov = clist(sorted(c.get('over', {}).items()),
                   lambda kv: '(%s, {| ov_rep := %s; ov_agg := %s; ov_vars := %s |})' % (
                       cstr(kv[0]), c_cspec(kv[1].get('rep')), c_aspec(kv[1].get('agg_sp')), cassoc(kv[1].get('vars', {}))))
        cs.append('{| r_stage := %s; r_name := %s; r_refs := %s; r_args := %s; r_rep := %s; r_agg := %s; r_vars := %s; '
                  'r_over := %s |}' % (cN(c['stage']), cstr(c['name']), clist(c['refs'], cstr), cstr(c['args']),
                                       c_cspec(c['rep']), c_aspec(written_flag(c)), cassoc(c['cvars']), ov))
    pvs = [('default', c_pvars(wf['gvars'], wf['svars']))]
    for p in wf.get('platforms', ['default']):
        if p != 'default':
            pv = wf.get('pvars', {}).get(p, {})
            pvs.append((p, c_pvars(pv.get('gvars', {}), pv.get('svars', {}))))
    return '{| rw_platforms := %s; rw_vars := %s; rw_comps := %s |}' % (
        clist(wf.get('platforms', ['default']), cstr), clist(pvs, lambda kv: '(%s, %s)' % (cstr(kv[0]), kv[1])), clist(cs))


def coq_entry(wf):
    """constructor platform, requested platform, driven directly?"""
    return '%s, %s, %s' % (copt(wf.get('ctor'), cstr), copt(wf.get('req'), cstr),
                           cbool(wf.get('entry', 'concrete') == 'direct'))


def coq_out(im):
    if im[0] == 'error':
        return '(@None (list ocomp))'
    os_ = []
    for (st, nm, refs, args, replica, replicate, agg, _va, _ex) in im[1]:
        os_.append('{| o_stage := %s; o_name := %s; o_refs := %s; o_args := %s; o_replica := %s; o_replicate := %s |}'
                   % (cN(st), cstr(nm), clist(refs, cstr), cstr(args), copt(replica, cN),
                      copt(replicate if replica is not None else None, cN)))
    return '(Some %s)' % clist(os_)


def coq_xs(wf):
    return clist([c.get('extra', {}) for c in wf['comps']], cassoc)


def coq_ximpl(im):
    # nothing to compare when no component of the result carries a variable or one of the other strings
    if im[0] == 'error' or any(o[8] is None for o in im[1]) or not any(o[7] or o[8] for o in im[1]):
        return '(@None (list ximpl))'
    return '(Some %s)' % clist(im[1], lambda o: '(%s, %s, %s, %s)' % (cN(o[0]), cstr(o[1]), cassoc(o[7]), cassoc(o[8])))


def coq_graph(g):
    if g is None or g[0] != 'ok':
        return '(@None (list string * list (string * string)))'
    return '(Some (%s, %s))' % (clist(g[1], cstr), clist(g[2], lambda e: '(%s, %s)' % (cstr(e[0]), cstr(e[1]))))


# ------------------------------------------------------------------ property predicate on the implementation's output
TOKEN_REF = None


def names_component(tok, stage):
    """(stage, producer) when the token reads as [stageN.]producer[/file]:method[/path], else None"""
    global TOKEN_REF
    import re
    if TOKEN_REF is None:
        TOKEN_REF = re.compile(r'^(?:stage([0-9]+)[.])?([A-Za-z0-9_-]+)(?:/[^:]*)?:[a-z]+(?:[/,].*)?$')
    m = TOKEN_REF.match(tok)
    if m is None or m.group(2) in SPECIAL:
        return None
    return (int(m.group(1)) if m.group(1) is not None else stage, m.group(2))


def spec_string(c, info, i, text):
    """what copy i of component c must read where the definition reads `text`: a blank-separated token that is a
    declared spelling of a replicated producer (either spelling, possibly followed by a path) names copy i of that
    producer, in the absolute spelling; every other token is as written"""
    table = []
    for t in c['refs']:
        ps = parse_spec(t, c['stage'])
        r = info.get((ps[0], ps[1])) if ps[0] != 'other' else None
        if r is None or r[1] or not r[0]:
            continue
        new = compile_ref(ps[0], ps[1], ps[2], ps[3], i)
        table += [(compile_ref(ps[0], ps[1], ps[2], ps[3]), new), (compile_ref(None, ps[1], ps[2], ps[3]), new)]
    out = []
    for tok in text.split(' '):
        for k, new in table:
            if tok == k or tok.startswith(k + '/'):
                tok = new + tok[len(k):]
                break
        out.append(tok)
    return ' '.join(out)


def predicate_strings(ctx, case, efw, info, out, im, cls):
    """copy i consumes from copy i of each replicated producer WHEREVER the definition spells the producer (a
    variable that ends up on the command line, the executable, an executors payload ...); outside the replicated
    region every string is as written; no string of the result names a component that was replaced by its copies.
    Evaluated outside the classes of the open findings (there the expected text is not defined by the tokens)."""
    if cls:
        return
    comps = {(c['stage'], c['name']): c for c in efw['comps']}
    made = {(o['stage'], o['name']): o for o in out}
    gone = set(k for k, (r, a) in info.items() if r and not a)
    for o in im[1]:
        so = made.get((o[0], o[1]))
        if so is None or o[8] is None:
            continue
        c = comps[so['origin']]
        seen = [('variables.' + k, c['evars'].get(k), v) for k, v in sorted(o[7].items())]
        seen += [('variables.' + k, v, None) for k, v in sorted(c['evars'].items()) if k not in o[7]]
        seen += [(lab, c['extra'].get(lab), v) for lab, v in sorted(o[8].items())]
        for lab, written, got in seen:
            if written is None or got is None:
                ctx.fail(case, 'the variables of a component of the expansion are not those of its definition', cls)
                return
            if c['agg']:
                pass
            elif so['replica'] is not None:
                if got != spec_string(c, info, so['replica'], written):
                    ctx.fail(case, 'a string of copy i outside `references` (a variable, executable, environment, '
                                   'executors or resourceManager text) does not name copy i of the replicated producer '
                                   'it spells: %s of stage%d.%s' % (lab, o[0], o[1]), cls)
                    return
            elif got != written:
                ctx.fail(case, 'a string of a component outside the replicated region was changed', cls)
                return
            for tok in got.split():
                pid = names_component(tok, o[0])
                if pid in gone and pid not in made:
                    ctx.fail(case, 'a string of the expansion (%s of stage%d.%s) names a component that does not exist: '
                                   'it was replaced by its copies' % (lab, o[0], o[1]), cls)
                    return


def predicate(ctx, wf, sp, im, g, cls, efw=None):
    """the property as stated, evaluated on what the real code returned"""
    case = {'workflow': wf}
    if sp[0] == 'error':
        if im[0] != 'error':
            ctx.fail(case, 'a workflow that cannot be replicated consistently (%s) was expanded without an error' % sp[1], cls)
        return
    if im[0] == 'error':
        ctx.fail(case, 'replicate() raised %s on a well-formed acyclic workflow' % im[1], cls)
        return
    info, out = sp[1], sp[2]
    exp = sorted(((o['stage'], o['name'], o['replica'], tuple(o['refs'])) for o in out), key=repr)
    got = sorted(((o[0], o[1], o[4], tuple(parse_real(r, o[0]) for r in o[2])) for o in im[1]), key=repr)
    case['expected'] = exp
    case['got'] = got
    ids_got = [(o[0], o[1]) for o in im[1]]
    if len(set(ids_got)) != len(ids_got):
        dup = sorted(set(i for i in ids_got if ids_got.count(i) > 1))
        ctx.fail(case, 'the expansion contains two components with the same identifier', cls)
        _ = dup
    if sorted(ids_got) != sorted((o['stage'], o['name']) for o in out):
        ctx.fail(case, 'the expansion does not consist of exactly the expected copies (suffix 0..N-1), aggregators and '
                       'unchanged components', cls)
    elif [(a[0], a[1], a[2]) for a in exp] != [(a[0], a[1], a[2]) for a in got]:
        ctx.fail(case, 'a copy does not know its own replica index', cls)
    elif exp != got:
        ctx.fail(case, 'references of the expansion differ from the expected rewiring (copy i -> copy i of replicated '
                       'producers, aggregator -> all copies in index order, everything else unchanged)', cls)
    known = set(ids_got)
    for o in im[1]:
        for r in o[2]:
            pr = parse_real(r, o[0])
            if pr[0] == 'unparsable' or (pr[0] != 'other' and (pr[0], pr[1]) not in known):
                ctx.fail(case, 'a reference in the expansion names a component that does not exist', cls)
                break
    if efw is not None:
        predicate_strings(ctx, case, efw, info, out, im, cls)
    if g is not None:
        if g[0] != 'ok':
            ctx.fail(case, 'the replicated graph of a well-formed workflow could not be built (%s)' % g[1], cls)
        else:
            en = sorted('stage%d.%s' % (o['stage'], o['name']) for o in out)
            ee = sorted(set(('stage%d.%s' % (r[0], r[1]), 'stage%d.%s' % (o['stage'], o['name']))
                            for o in out for r in o['refs'] if r[0] != 'other'))
            if en != g[1]:
                ctx.fail(case, 'nodes of the replicated graph are not the expected copies', cls)
            elif ee != [tuple(e) for e in g[2]]:
                ctx.fail(case, 'edges of the replicated graph are not the expected relation', cls)


def shuffled_order(rng, wf):
    idx = list(range(len(wf['comps'])))
    rng.shuffle(idx)
    return idx


def explore(ctx, cases, with_graph=True):
    """cases: list of (workflow, order given to the implementation)"""
    terms = []
    for wf, order in cases:
        ef = effective(wf)
        sp = spec_expand(ef[1]) if ef[0] == 'ok' else ef
        im = run_replicate(wf, order)
        cls = classes_of(ef[1], sp[1]) if sp[0] == 'ok' else []
        direct = wf.get('entry', 'concrete') == 'direct'
        g = None
        if with_graph and sp[0] == 'ok' and im[0] == 'ok' and not cls and not direct and graph_safe(wf):
            g = run_graph(wf, order)
            ctx.count('graph_built' if g[0] == 'ok' else 'graph_error')
        nrep = sum(1 for o in sp[2] if o['replica'] is not None) if sp[0] == 'ok' else 0
        nagg = sum(1 for c in ef[1]['comps'] if c['agg']) if sp[0] == 'ok' else 0
        nontriv = nrep >= 2 and any(len(c['refs']) > 0 for c in wf['comps'])
        decorated = any(k in wf for k in ('platforms', 'ctor', 'req', 'entry')) or \
            any('agg_sp' in c or 'over' in c for c in wf['comps'])
        ctx.case({'flowir': to_flowir(wf), 'ctor': wf.get('ctor'), 'req': wf.get('req', 'unset'),
                  'entry': wf.get('entry', 'concrete')} if decorated else to_flowir(wf), nontriv)
        ctx.count('components_%d' % len(wf['comps']))
        ctx.count('outcome_' + (sp[1] if sp[0] == 'error' else 'expanded'))
        ctx.count('entry_' + ('apply_replicate_direct' if direct else
                              'concrete_replicate+graph' if g is not None else 'concrete_replicate'))
        if 'platforms' in wf:
            tp = target_platform(wf)
            act = wf.get('ctor') or 'default'
            ctx.count('platform_requested_%s' % ('none' if not wf.get('req') else 'default' if tp == 'default' else 'other'))
            if tp != act and ef[0] == 'ok':
                alt = effective(dict(wf, req=None))
                same = alt[0] == 'ok' and [(c['rep'], c['agg']) for c in alt[1]['comps']] == \
                    [(c['rep'], c['agg']) for c in ef[1]['comps']]
                ctx.count('requested_platform_differs_from_active' + ('' if same else '_and_changes_counts_or_flags'))
        for c in wf['comps']:
            for a in [c.get('agg_sp')] + [o.get('agg_sp') for o in c.get('over', {}).values()]:
                if a is not None:
                    ctx.count('flag_written_as_' + ('variable' if is_var(a) else 'bool' if isinstance(a, bool) else 'text'))
        if sp[0] == 'ok':
            ctx.count('replica_copies_%s' % ('0' if nrep == 0 else '1-3' if nrep < 4 else '4-9' if nrep < 10 else '10+'))
            ctx.count('with_aggregator' if nagg else 'without_aggregator')
            ctx.count('class_' + ('+'.join(cls) if cls else 'none'))
            if any(is_var(c['rep']) for c in wf['comps']):
                ctx.count('count_via_variable')
            if any(ec['agg'] and ec['rep'] is None and not isinstance(written_flag(c), bool)
                   for c, ec in zip(wf['comps'], ef[1]['comps'])):
                ctx.count('aggregator_without_own_count_flag_not_a_literal_bool')
        predicate(ctx, wf, sp, im, g, cls, ef[1] if ef[0] == 'ok' else None)
        where = set()
        for c in wf['comps']:
            vals = list(c['cvars'].values()) + [x for o in c.get('over', {}).values() for x in o.get('vars', {}).values()]
            if any(isinstance(x, str) and ':' in x for x in vals):
                where.add('a_variable')
            for lab in c.get('extra', {}):
                where.add(lab.split('.')[0])
        for x in sorted(where):
            ctx.count('reference_spelled_in_' + x)
        terms.append(('((%s, %s, %s, %s), %s, %s)' % (coq_rwf(wf), coq_entry(wf), coq_out(im), coq_graph(g), coq_xs(wf),
                                                     coq_ximpl(im)), wf, im, g))
        if nontriv and not cls:
            ctx.sample({'workflow': to_flowir(wf), 'replicated': im[1] if im[0] == 'ok' else im[1]}, limit=3)
    bad = ctx.model_mismatches(HEADER, [t[0] for t in terms], 'check_xcase', chunk=120)
    for k, i in enumerate(bad):
        _, wf, im, g = terms[i]
        m = ''
        if k < 2:
            sel = 'select %s %s' % (coq_rwf(wf), cstr(target_platform(wf)))
            m = ctx.model_eval(HEADER, '(%s, match %s with Some t => (struct_check t, expand_x t %s) | None => (true, None) end)'
                               % (sel, sel, coq_xs(wf)))
        ctx.disagree({'workflow': wf}, {'replicate': im, 'graph': g}, m,
                     'C03 expansion: FlowIRConcrete.replicate(platform)/apply_replicate/graphFromFlowIR vs '
                     'Repl.Platform.replicate_concrete = Repl.Model.expand_t of the selected workflow (+ structured agreement; '
                     'variables and the other strings of every component: Repl.Everywhere.expand_x)')


WITNESS_F3 = {'gvars': {}, 'svars': {}, 'comps': [
    {'stage': 0, 'name': 'A', 'refs': [], 'args': 'hi', 'rep': 2, 'agg': False, 'cvars': {}},
    {'stage': 0, 'name': 'BA', 'refs': [], 'args': 'hi', 'rep': None, 'agg': False, 'cvars': {}},
    {'stage': 0, 'name': 'C', 'refs': ['A:ref', 'BA:ref'], 'args': 'A:ref BA:ref', 'rep': None, 'agg': False, 'cvars': {}}]}
WITNESS_F3B = {'gvars': {}, 'svars': {}, 'comps': [
    {'stage': 0, 'name': 'a', 'refs': [], 'args': 'hi', 'rep': 2, 'agg': False, 'cvars': {}},
    {'stage': 0, 'name': 'a1', 'refs': [], 'args': 'hi', 'rep': None, 'agg': False, 'cvars': {}}]}


WITNESS_F3C = {'gvars': {}, 'svars': {}, 'comps': [
    {'stage': 0, 'name': 'A', 'refs': [], 'args': 'hi', 'rep': 2, 'agg': False, 'cvars': {}},
    {'stage': 0, 'name': 'C', 'refs': ['A:ref', 'stage0.A:ref'], 'args': 'hi', 'rep': None, 'agg': True, 'cvars': {}}]}


def _c(stage, name, refs=(), rep=None, agg=False, args=None, **kw):
    d = {'stage': stage, 'name': name, 'refs': list(refs), 'args': ' '.join(refs) if args is None else args, 'rep': rep,
         'agg': agg, 'cvars': {}}
    d.update(kw)
    return d


# fixed corpus for the boundaries of the spelling / platform / entry-point dimensions (every one must expand as the
# specification says on the unchanged tree)
CORPUS = [
    # an aggregator that asks for no replicas itself, flag through a global variable; its consumer stays single
    {'gvars': {'k': '3', 'collect': 'yes'}, 'svars': {}, 'comps': [
        _c(0, 'Gen', rep='%(k)s'), _c(0, 'Sim', ['Gen:ref']), _c(1, 'Sum', ['stage0.Sim:ref'], agg=True, agg_sp='%(collect)s'),
        _c(1, 'Tab', ['Sum:ref'])]},
    # one-letter spelling, apply_replicate driven directly; the flag of the stage scope beats the global one
    {'gvars': {'on': 'n'}, 'svars': {1: {'on': 'Y'}}, 'entry': 'direct', 'comps': [
        _c(0, 'Gen', rep='2'), _c(1, 'Merge', ['stage0.Gen/out.txt:copy'], agg=True, agg_sp='%(on)s'),
        _c(1, 'Mix', ['stage0.Gen:ref'], agg=True, agg_sp='y'), _c(1, 'Viz', ['stage0.Gen:ref'], agg_sp='N')]},
    # a flag that reads false keeps the component inside the replicated region; a boolean variable value
    {'gvars': {'keep': False, 'all': True}, 'svars': {}, 'comps': [
        _c(0, 'Obs', rep=2), _c(0, 'Fit', ['Obs:ref'], agg_sp='%(keep)s'), _c(0, 'Run', ['Fit:output'], agg_sp='No'),
        _c(1, 'Plot', ['stage0.Run:ref', 'stage0.Obs:ref'], agg=True, agg_sp='%(all)s')]},
    # a text that is no boolean must be refused
    {'gvars': {}, 'svars': {}, 'comps': [_c(0, 'Obs', rep=2), _c(0, 'Fit', ['Obs:ref'], agg=True, agg_sp='maybe')]},
    # the count differs per platform through a global variable: object built for default, expansion asked for hpc
    {'gvars': {'k': '2'}, 'svars': {}, 'platforms': ['default', 'hpc'], 'pvars': {'hpc': {'gvars': {'k': '5'}, 'svars': {}}},
     'ctor': None, 'req': 'hpc', 'comps': [
        _c(0, 'Gen', rep='%(k)s'), _c(0, 'Sim', ['Gen:ref']), _c(1, 'Sum', ['stage0.Sim:ref'], agg=True)]},
    # ... and the other way round, with the count in the override section (literal on default)
    {'gvars': {}, 'svars': {}, 'platforms': ['default', 'lsf'], 'pvars': {'lsf': {'gvars': {}, 'svars': {}}},
     'ctor': 'lsf', 'req': 'default', 'comps': [
        _c(0, 'Gen', rep=1, over={'lsf': {'rep': 4}}), _c(1, 'Post', ['stage0.Gen:ref']),
        _c(1, 'Sum', ['Post:ref'], agg=True)]},
    # the default platform's stage variable is hidden by the other platform's global one; no request: active platform
    {'gvars': {}, 'svars': {0: {'k': '3'}}, 'platforms': ['default', 'hpc'],
     'pvars': {'hpc': {'gvars': {'k': '2'}, 'svars': {}}}, 'ctor': 'hpc', 'comps': [
        _c(0, 'Gen', rep='%(k)s'), _c(0, 'Sim', ['Gen:ref'])]},
    # the flag differs on the platform (override), the override's own variable decides; unknown platform refused
    {'gvars': {}, 'svars': {}, 'platforms': ['default', 'hpc'], 'pvars': {'hpc': {'gvars': {}, 'svars': {}}},
     'ctor': 'default', 'req': 'hpc', 'comps': [
        _c(0, 'Gen', rep=3), _c(0, 'Sim', ['Gen:ref'], over={'hpc': {'agg_sp': '%(f)s', 'vars': {'f': 'TRUE'}}}),
        _c(1, 'Tab', ['stage0.Sim:ref'])]},
    {'gvars': {}, 'svars': {}, 'platforms': ['default', 'hpc'], 'pvars': {'hpc': {'gvars': {}, 'svars': {}}},
     'ctor': 'default', 'req': 'nope', 'comps': [_c(0, 'Gen', rep=3), _c(0, 'Sim', ['Gen:ref'])]},
    # the producer spelled in the consumer's own variables, used on the command line: path after the method, the
    # other spelling of a reference with a file; the aggregator spells its input in a variable too
    {'gvars': {}, 'svars': {}, 'comps': [
        _c(0, 'Gen', rep=3),
        _c(0, 'Sim', ['Gen:ref', 'stage0.Gen/r.bin:copy'], args='-c %(conf)s -n %(steps)s %(restart)s r.bin',
           cvars={'conf': 'Gen:ref/conf.dat', 'restart': '-r Gen/r.bin:copy', 'steps': '10'}),
        _c(0, 'Sum', ['Sim:output'], agg=True, args='%(inputs)s', cvars={'inputs': 'stage0.Sim:output'})]},
    # a replication point that consumes another replicated producer across stages; the producer spelled in the
    # executable, the environment, executors payloads and a resourceManager option; apply_replicate driven directly
    {'gvars': {}, 'svars': {}, 'entry': 'direct', 'comps': [
        _c(0, 'Obs', rep=2), _c(0, 'Tab'),
        _c(1, 'Fit', ['stage0.Obs:ref', 'stage0.Tab:ref'], rep=2, args='%(src)s',
           cvars={'src': 'stage0.Obs:ref/*.csv stage0.Tab:ref'},
           extra={'command.executable': 'stage0.Obs:ref/bin/fit', 'command.environment': 'stage0.Obs:ref',
                  'executors.pre.0.payload': '-s stage0.Obs:ref/d/x.dat', 'executors.post.0.payload': 'stage0.Tab:ref',
                  'resourceManager.lsf.resourceString': 'stage0.Obs:ref'}),
        _c(1, 'Plot', ['Fit:output'], agg=True, extra={'resourceManager.kubernetes.image': 'Fit:output'})]},
    # the spelling in the variable differs per platform (override.<platform>.variables decides for that platform)
    {'gvars': {}, 'svars': {}, 'platforms': ['default', 'hpc'], 'pvars': {'hpc': {'gvars': {}, 'svars': {}}},
     'ctor': None, 'req': 'hpc', 'comps': [
        _c(0, 'Gen', rep=2),
        _c(0, 'Sim', ['Gen:ref', 'Gen/out.txt:copy'], args='%(inp)s', cvars={'inp': 'Gen/out.txt:copy'},
           over={'hpc': {'vars': {'inp': 'stage0.Gen:ref/out.txt'}}}),
        _c(1, 'Post', ['stage0.Sim:ref'], args='-i %(inp)s', cvars={'inp': 'stage0.Sim:ref/a/b/c'})]},
]


def systematic(rng):
    """one generated workflow with an aggregator written in every spelling through both entry points, and one
    workflow with a second platform expanded for every (constructor platform, requested platform) pair"""
    import copy
    out = []
    base = None
    for _ in range(200):
        wf = gen_workflow(rng, 'clean')
        sp = spec_expand(wf)
        if sp[0] == 'ok' and any(c['agg'] and c['rep'] is None and c['refs'] for c in wf['comps']) and \
                any(o['replica'] is not None for o in sp[2]):
            base = wf
            break
    if base is not None:
        k = [i for i, c in enumerate(base['comps']) if c['agg'] and c['rep'] is None and c['refs']][0]
        st = base['comps'][k]['stage']
        for entry in ('concrete', 'direct'):
            for word in TRUE_SP:
                forms = [('text', word)]
                if word is not True:
                    forms += [('cvars', word), ('svars', word), ('gvars', word)]
                for where, w in forms:
                    wf = copy.deepcopy(base)
                    wf['entry'] = entry
                    c = wf['comps'][k]
                    if where == 'text':
                        c['agg_sp'] = w
                    else:
                        c['agg_sp'] = '%(isAggregating)s'
                        if where == 'cvars':
                            c['cvars']['isAggregating'] = w
                        elif where == 'svars':
                            wf['svars'].setdefault(st, {})['isAggregating'] = w
                        else:
                            wf['gvars']['isAggregating'] = w
                    out.append(wf)
    for _ in range(200):
        wf = platformise(rng, gen_workflow(rng, 'clean'))
        p = wf['platforms'][1]
        a, b = effective(dict(wf, ctor=None, req=None)), effective(dict(wf, ctor=None, req=p))
        if a[0] == 'ok' and b[0] == 'ok' and spec_expand(a[1])[0] == 'ok' and spec_expand(b[1])[0] == 'ok' and \
                [c['rep'] for c in a[1]['comps']] != [c['rep'] for c in b[1]['comps']]:
            for ctor in (None, 'default', p):
                for req in ('unset', None, 'default', p):
                    w2 = copy.deepcopy(wf)
                    w2['ctor'] = ctor
                    w2.pop('req', None)
                    if req != 'unset':
                        w2['req'] = req
                    out.append(w2)
            break
    # every place x spelling x entry point of ONE reference of one generated replicated consumer
    for _ in range(200):
        wf = gen_workflow(rng, 'clean')
        sp = spec_expand(wf)
        if sp[0] != 'ok':
            continue
        info = sp[1]
        pick = None
        for k, c in enumerate(wf['comps']):
            r, a = info[(c['stage'], c['name'])]
            if a or not r or r < 2:
                continue
            for t in c['refs']:
                ps = parse_spec(t, c['stage'])
                if ps[0] != 'other' and info[(ps[0], ps[1])][0] and not info[(ps[0], ps[1])][1]:
                    pick = (k, ps)
                    break
            if pick:
                break
        if pick is None:
            continue
        k, ps = pick
        st = wf['comps'][k]['stage']
        spellings = [compile_ref(ps[0], ps[1], ps[2], ps[3])]
        if ps[0] == st:
            spellings.append(compile_ref(None, ps[1], ps[2], ps[3]))
        for entry in ('concrete', 'direct'):
            for text in spellings:
                for sfx in ('', '/d/x.dat'):
                    for place in ['variable', 'override'] + SLOTS:
                        if place == 'override' and entry == 'direct':
                            continue
                        w2 = copy.deepcopy(wf)
                        c = w2['comps'][k]
                        if entry == 'direct':
                            w2['entry'] = 'direct'
                        if place == 'variable':
                            c['cvars']['src'] = text + sfx
                            c['args'] = (c['args'] + ' %(src)s').strip()
                        elif place == 'override':
                            w2['platforms'] = ['default', 'hpc']
                            w2['pvars'] = {'hpc': {'gvars': {}, 'svars': {}}}
                            w2['ctor'], w2['req'] = None, 'hpc'
                            c['cvars']['src'] = 'none'
                            c.setdefault('over', {}).setdefault('hpc', {}).setdefault('vars', {})['src'] = text + sfx
                            c['args'] = (c['args'] + ' %(src)s').strip()
                        else:
                            c.setdefault('extra', {})[place] = text + sfx
                        out.append(w2)
        break
    return out


def run(ctx):
    rng = ctx.rng
    ctx.rule = ('random acyclic workflows (2-8 components, 1-3 stages) over a small alphabet of component names '
                '(prefix/suffix/substring pairs, names ending in digits, equal names in different stages), relative and '
                'absolute spellings, files and 5 methods, non-component references, replica counts literal or via '
                'component/stage/global variables, aggregators, chains; 35% of the cases use non-overlapping names; the '
                'implementation receives the components in a shuffled order. A further third of the cases are such '
                'workflows decorated along two more dimensions: (1) spelling - workflowAttributes.aggregate written as a '
                'boolean, as any of the texts true/false/yes/no/y/n in several letter cases or as %(variable)s defined at '
                'component, stage or global scope (2% a text that is no boolean), the same variable defined with another value in '
                'a farther scope (the nearer one wins), literal counts written as text, expanded '
                'through FlowIRConcrete.replicate(), graphFromFlowIR(primitive=False) or FlowIR.apply_replicate driven '
                'directly; (2) platform - a second platform on which counts and flags differ through its global / stage '
                'variables (also hiding a stage variable of the default platform) or the component\'s override section '
                '(workflowAttributes and variables), the object built for one platform (none/default/other) and the '
                'expansion requested for one (unset/none/default/other, rarely empty or unknown), the graph built for '
                'the requested platform; plus a fixed corpus and two systematic families (every spelling x entry point '
                'of one aggregator; every constructor x requested platform pair of one workflow). (3) place - 30-40% of '
                'all generated workflows also spell declared references (either spelling, with / without a path after the '
                'method) in variables of the consumer used as %(v)s on its command line (also override.<platform>.variables) '
                'and in 8 other places of the definition (command.executable / environment / interpreter, executors '
                'payloads, resourceManager options); all of them are read back from every returned component; a third '
                'systematic family: one reference x spelling x suffix x place x entry point. non-trivial = at '
                'least two replica copies are produced and some component has references; distinct by the whole '
                'workflow and entry')
    n = 1100 if ctx.tier == 'quick' else 12000
    nd = 380 if ctx.tier == 'quick' else 4200
    cases = [(WITNESS_F3, None), (WITNESS_F3B, None), (WITNESS_F3C, None)]
    cases += [(wf, None) for wf in CORPUS]
    for k in range(n):
        mode = 'clean' if rng.random() < 0.35 else 'mixed'
        wf = gen_workflow(rng, mode)
        if rng.random() < 0.3:
            sprinkle(rng, wf)
        cases.append((wf, shuffled_order(rng, wf)))
    cases += [(wf, None) for wf in systematic(rng)]
    for k in range(nd):
        mode = 'clean' if rng.random() < 0.6 else 'mixed'
        wf = decorate(rng, gen_workflow(rng, mode))
        if rng.random() < 0.4:
            sprinkle(rng, wf)
        cases.append((wf, shuffled_order(rng, wf)))
    explore(ctx, cases)


def _intkeys(d):
    return {int(k): v for k, v in (d or {}).items()}


def replay(ctx, path):
    d = json.load(open(path))
    c = d.get('case') or d.get('first', {}).get('case')
    if not c or 'workflow' not in c:
        print('replay file names no input (proof obligation): re-run ./check C03')
        return 2
    wf = c['workflow']
    wf['svars'] = _intkeys(wf.get('svars'))
    for pv in wf.get('pvars', {}).values():
        pv['svars'] = _intkeys(pv.get('svars'))
    explore(ctx, [(wf, None)])
    for f in ctx.failures:
        print('REPRODUCED: %s' % f['what'])
    for f in ctx.disagreements:
        print('DISAGREEMENT: %s' % (f['correspondence'],))
    return 1 if (ctx.failures or ctx.disagreements) else 0
