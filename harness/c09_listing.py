"""C09 — real directories for Manifest.fromDirectory (the folder list taken from a DIRECTORY LISTING).

A listing is a list of (name, kind, variant).  kind is what the model is told about the entry (coq/Ref/Model.v: ekind);
variant is one of several ways this file realises that kind on disk (the model does not see it):

  dir        empty | content (a sub-directory and a file) | deep
  file       empty | text
  fifo       fifo
  link_dir   abs (absolute link to a directory outside the package) | rel (relative link out of the package) |
             sibling (relative link to another listed directory, when there is one) | chain (link -> link -> directory) |
             dot (link to '.') | dotdot (link to '..')
  link_file  abs | rel | sibling | chain
  link_fifo  abs
  dangling   missing (absolute target that does not exist) | relmissing | loop (link to itself) | todangling (link to a
             dangling link)

The kind of every created entry is re-read with os.lstat / os.stat (kind_on_disk) and must agree with the declared kind:
the oracle of the run is the file system itself, not the code under test."""
import os
import stat

KIND_COQ = {'dir': 'KDir', 'file': 'KFile', 'fifo': 'KOther', 'link_dir': 'KLinkDir', 'link_file': 'KLinkFile',
            'link_fifo': 'KLinkOther', 'dangling': 'KDangling'}
VARIANTS = {
    'dir': ['empty', 'content', 'deep'],
    'file': ['empty', 'text'],
    'fifo': ['fifo'],
    'link_dir': ['abs', 'rel', 'sibling', 'chain', 'dot', 'dotdot'],
    'link_file': ['abs', 'rel', 'sibling', 'chain'],
    'link_fifo': ['abs'],
    'dangling': ['missing', 'relmissing', 'loop', 'todangling'],
}
DIRLIKE = ('dir', 'link_dir')        # os.path.isdir follows symbolic links
FILELIKE = ('file', 'link_file')     # so does os.path.isfile

# entry names: plain folders, names of known components of the contexts, reserved folders, application-dependency names,
# hidden entries, dots / dashes / loop prefix, a stage-like name, and names that cannot be written in a reference
NAMES = ['models', 'lib', 'hooks', 'A', 'comp-1', 'gen_2', 'x.y.z', 'a.b', '3#loop', 'data', 'bin', 'input', 'foo', 'bar',
         'foo.bar', '.git', '.hidden', 'README.md', 'appx', 'Appx', 'UPPER', 'x y', 'a:b', '%(v)s', 'stage2', 'stage0.x',
         'out.d', 'r[1]', 'weights.bin', '..data', 'A1', 'Data', 'conf']
SAFE_E2E = ['models', 'lib', 'hooks', 'A', 'comp-1', 'gen_2', 'x.y.z', 'a.b', 'foo', 'bar', 'foo.bar', 'README.md', 'appx',
            'UPPER', 'out.d', 'weights.bin', 'A1', 'Data', 'stage2']

ROOTS = ['dir', 'slash', 'link', 'file', 'missing', 'dangling']
ROOT_COQ = {'dir': 'KDir', 'slash': 'KDir', 'link': 'KLinkDir', 'file': 'KFile', 'missing': 'KDangling', 'dangling': 'KDangling'}


def kind_on_disk(path):
    """the kind of an entry as lstat() and stat() report it"""
    try:
        l = os.lstat(path)
    except OSError:
        return 'dangling'

    def cls(m):
        return 'dir' if stat.S_ISDIR(m) else 'file' if stat.S_ISREG(m) else 'fifo'
    if not stat.S_ISLNK(l.st_mode):
        return cls(l.st_mode)
    try:
        s = os.stat(path)
    except OSError:
        return 'dangling'
    return 'link_' + cls(s.st_mode)


def _touch(p, text=''):
    with open(p, 'w') as f:
        f.write(text)


def materialise(base, listing):
    """create base/pkg with the entries of the listing (helpers live in base/outside) -> path of the package"""
    pkg = os.path.join(base, 'pkg')
    out = os.path.join(base, 'outside')
    os.makedirs(pkg)
    os.makedirs(out)
    links = []
    for k, (name, kind, var) in enumerate(listing):
        p = os.path.join(pkg, name)
        if kind == 'dir':
            os.makedirs(p)
            if var in ('content', 'deep'):
                os.makedirs(os.path.join(p, 'sub'))
                _touch(os.path.join(p, 'f.txt'), 'x')
            if var == 'deep':
                os.makedirs(os.path.join(p, 'sub', 'out.d', 'more'))
                os.symlink('..', os.path.join(p, 'sub', 'up'))
        elif kind == 'file':
            _touch(p, 'text\n' if var == 'text' else '')
        elif kind == 'fifo':
            os.mkfifo(p)
        else:
            links.append((k, name, kind, var, p))
    for k, name, kind, var, p in links:
        want = {'link_dir': 'dir', 'link_file': 'file', 'link_fifo': 'fifo'}.get(kind)
        if kind == 'dangling':
            if var == 'loop':
                os.symlink(name, p)
            elif var == 'relmissing':
                os.symlink(os.path.join('..', 'outside', 'gone%d' % k), p)
            elif var == 'todangling':
                mid = os.path.join(out, 'mid%d' % k)
                os.symlink(os.path.join(out, 'gone%d' % k), mid)
                os.symlink(mid, p)
            else:
                os.symlink(os.path.join(out, 'gone%d' % k), p)
            continue
        if var == 'dot':
            os.symlink('.', p)
            continue
        if var == 'dotdot':
            os.symlink('..', p)
            continue
        target = os.path.join(out, 't%d' % k)
        if want == 'dir':
            os.makedirs(os.path.join(target, 'large'))
            _touch(os.path.join(target, 'weights.bin'), 'w')
        elif want == 'file':
            _touch(target, 'shared')
        else:
            os.mkfifo(target)
        if var == 'sibling':
            sib = [n for (n, kd, _v) in listing if kd == want and n != name]
            os.symlink(sib[0] if sib else os.path.join('..', 'outside', 't%d' % k), p)
        elif var == 'rel':
            os.symlink(os.path.join('..', 'outside', 't%d' % k), p)
        elif var == 'chain':
            mid = os.path.join(out, 'mid%d' % k)
            os.symlink('t%d' % k, mid)
            os.symlink(mid, p)
        else:
            os.symlink(target, p)
    for name, kind, var in listing:
        got = kind_on_disk(os.path.join(pkg, name))
        if got != kind:
            raise RuntimeError('c09_listing: entry %r was meant to be %s/%s but the file system reports %s' % (name, kind, var, got))
    return pkg


def root_path(base, pkg, root):
    """the path handed to Manifest.fromDirectory for a root variant"""
    if root == 'dir':
        return pkg
    if root == 'slash':
        return pkg + '/'
    if root == 'link':
        p = os.path.join(base, 'pkg-link')
        if not os.path.lexists(p):
            os.symlink(pkg, p)
        return p
    if root == 'file':
        p = os.path.join(base, 'a-file')
        _touch(p, 'x')
        return p
    if root == 'dangling':
        p = os.path.join(base, 'pkg-dangling')
        if not os.path.lexists(p):
            os.symlink(os.path.join(base, 'nowhere'), p)
        return p
    return os.path.join(base, 'no-such-directory')


def gen_listing(rng, names=None, force_conf=False):
    names = list(names or NAMES)
    n = rng.randint(1, 9)
    chosen = rng.sample(names, min(n, len(names)))
    listing = []
    # about 2 of 5 entries are symbolic links, the rest plain directories / files
    weights = [('dir', 5), ('file', 3), ('link_dir', 4), ('link_file', 2), ('dangling', 2), ('fifo', 1), ('link_fifo', 1)]
    bag = [k for k, w in weights for _ in range(w)]
    for nm in chosen:
        if nm == 'conf' and force_conf:
            continue
        kind = rng.choice(bag)
        listing.append((nm, kind, rng.choice(VARIANTS[kind])))
    if force_conf:
        listing.append(('conf', 'dir', 'empty'))
    return sorted(listing)


# one directory holding every (kind, variant) once; names chosen so that references into them are well formed
def systematic_listing():
    out = []
    for kind in sorted(VARIANTS):
        for var in VARIANTS[kind]:
            out.append(('%s_%s' % (kind.replace('_', ''), var), kind, var))
    return sorted(out)


# fixed boundary listings (independent of VERIF_SEED)
CORPUS_LISTINGS = [
    # a shared folder linked into the package next to plain folders and a file
    [('README.md', 'file', 'text'), ('conf', 'dir', 'empty'), ('lib', 'dir', 'content'), ('models', 'link_dir', 'abs')],
    # the name of a known component is a FILE / a dangling link in the package: still a component reference
    [('A', 'file', 'empty'), ('comp-1', 'dangling', 'missing'), ('gen_2', 'link_file', 'abs'), ('hooks', 'link_dir', 'chain')],
    # hidden entries, a reserved name that is a link, a loop and a fifo
    [('.git', 'dir', 'content'), ('.hidden', 'link_dir', 'rel'), ('data', 'link_dir', 'abs'), ('loop', 'dangling', 'loop'),
     ('pipe', 'fifo', 'fifo'), ('x.y.z', 'link_dir', 'sibling')],
    # only links
    [('bar', 'link_dir', 'dot'), ('foo', 'link_dir', 'dotdot'), ('foo.bar', 'link_file', 'chain'), ('old', 'dangling', 'todangling')],
    [],
]
