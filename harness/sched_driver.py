"""Deterministic driver of the REAL experiment.runtime.control.Controller over fake components.

Used by C01 and C02.  The Controller object, its _schedule / finalize_submit_components /
_fake_finish_with_state / finishedCheck / postMortemCheck / _restartComponent / kill_all_components /
_stopComponents / run() (loop body and verdict) are the real code.  Fakes (trusted, mirroring workflow.py):
the component objects (subclass of ComponentState with its constructor bypassed, own finish()/run()/restart()
protocol), their engines, the experiment/graph containers, and the rx delivery: the controller's pool is an
ImmediateScheduler and the harness decides when a component's notifyPostMortem / notifyFinished subject
emits, i.e. the harness is the thread scheduler.  Controller.run() executes in a helper thread that is parked
inside a fake _event_scheduler.wait(); one 'Tick' releases exactly one loop iteration, so there is never any
real concurrency.

Workflow description W: list of dicts {stage, is_repeat, is_aggregate, is_replica, preds, shutdown_on,
restart_on, max_r}.  outcome[c] = list of exit reasons of successive executions (last one repeats).
Events: ('Tick',) ('Exit', c) ('PM', c) ('Fin', c); ('Sleep',) ('Wake',) = Controller.sleep()/wake_up();
('Patch', new_components, new_edges, outcomes) = the controller part of elaunch's LivePatcher.live_patch (only while
the controller sleeps): the experiment is switched to a NEW graph object that holds the old nodes and edges plus the
patched-in ones, and Controller.parse_workflow_graph() is called under comp_lock.
"""
import copy
import logging
import threading
import types
import weakref

import networkx
import reactivex
import reactivex.scheduler
import reactivex.subject

import experiment.appenv
import experiment.model.codes as codes
import experiment.runtime.control as control
import experiment.runtime.workflow as workflow
import experiment.runtime.errors
import experiment.runtime.monitor

FINAL = (codes.FINISHED_STATE, codes.FAILED_STATE, codes.SHUTDOWN_STATE)
RC = codes.restartCodes


class FakeEngine(object):
    def __init__(self, comp):
        self.comp = comp
        self.phase = 'idle'      # idle | active | exited
        self.reason = None
        self.kill_req = False
        self._shutdown = False
        self.restarts = 0
        self.resub = 0
        self.job = types.SimpleNamespace(reference=comp.ref, stageIndex=comp.stage)

    def isAlive(self):
        return self.phase != 'exited'

    def exitReason(self):
        return self.reason if self.phase == 'exited' else None

    def returncode(self):
        if self.phase != 'exited':
            return None
        return 0 if self.reason == 'Success' else 1

    def kill(self):
        if self.isAlive():
            self.kill_req = True

    @property
    def isShutdown(self):
        return self._shutdown

    def shutdown(self):
        if self.isAlive():
            raise AssertionError('An engine must be non-active (dead) to be shutdown')
        self._shutdown = True

    def resubmissionAttempts(self):
        return self.resub

    # push-notification plumbing of repeating observers: never emits here
    stateUpdates = property(lambda s: reactivex.never())

    def optimizer_disable(self, propagate):
        pass

    def notify_producer_successful_run(self, ref):
        pass


class FakeComp(workflow.ComponentState):
    """Subclass so that isinstance checks of the controller pass; constructor bypassed."""

    def __init__(self, idx, d, drv, cname=None):
        self.idx = idx
        self.d = d
        self.drv = drv
        self.stage = d['stage']
        # component names are unique within a stage only: the j-th component of every stage is called c<j>, so
        # components of different stages share their name and differ in their reference (stage<i>.c<j>)
        self.cname = cname or ('c%d' % idx)
        self.ref = 'stage%d.%s' % (d['stage'], self.cname)
        self.controllerState = None
        self.log = logging.getLogger('verif.comp')
        self._finishedCalled = False
        self.pending = None
        self.runs = 0
        self._fin = reactivex.subject.Subject()
        self._pm = reactivex.subject.Subject()
        self._pm_self = reactivex.subject.Subject()
        self._in_finish = False
        self._engine = FakeEngine(self)
        cs = types.SimpleNamespace(isAggregating=d['is_aggregate'], isAggregatingLoopedNodes=False, isLooping=False,
                                   isReplicating=d['is_replica'],
                                   workflowAttributes={'shutdownOn': list(d['shutdown_on']), 'isRepeat': d['is_repeat'],
                                                       'restartHookOn': list(d['restart_on'])})
        self._spec = types.SimpleNamespace(
            reference=self.ref, workflowAttributes=cs.workflowAttributes, componentSpecification=cs,
            isRepeat=d['is_repeat'], isMigrated=False, isMigratable=False, stageIndex=d['stage'], isStaged=False,
            identification=self.ref, name=self.cname)
        self.repeatingDisposable = None

    # --- overridden protocol (trusted mirror of workflow.ComponentState)
    engine = property(lambda s: s._engine)
    specification = property(lambda s: s._spec)
    name = property(lambda s: s.specification.name)
    stageIndex = property(lambda s: s.stage)
    isStaged = property(lambda s: s._spec.isStaged)
    finishCalled = property(lambda s: s._finishedCalled)
    notifyFinished = property(lambda s: s._fin)
    notifyPostMortem = property(lambda s: s._pm_self if s._in_finish else s._pm)
    producers = property(lambda s: [s.drv.comps[p] for p in s.d['preds']])
    # memoization: no hash is ever available, so a configured CDB is consulted for nothing
    memoization_hash = property(lambda s: None)
    memoization_hash_fuzzy = property(lambda s: None)
    memoization_info = property(lambda s: {})
    memoization_info_fuzzy = property(lambda s: {})

    def __hash__(self):
        return self.idx

    def __eq__(self, o):
        return self is o

    def stageIn(self, stageData=True):
        pass

    def run(self):
        if self.state != codes.SHUTDOWN_STATE:
            self._engine.phase = 'active'
            self.runs += 1

    def restart(self, reason=None, code=None):
        if self._engine.isShutdown:
            raise experiment.runtime.errors.CannotRestartShutdownEngineError(self.ref)
        e = self._engine
        if e.restarts + 1 > self.d['max_r']:
            return RC['RestartMaxAttemptsExceeded']
        if reason == 'SubmissionFailed':
            e.resub += 1
        else:
            e.restarts += 1
        e.phase = 'active'
        e.reason = None
        self.runs += 1
        return RC['RestartInitiated']

    def finish(self, finalState):
        # the REAL ComponentState.finish protocol; only its subscription to the component's own post-mortem
        # notification is routed to a private subject, so that the harness can let the component take its
        # pending final state when the engine exits without delivering the controller's notification yet
        self._in_finish = True
        try:
            return workflow.ComponentState.finish(self, finalState)
        finally:
            self._in_finish = False


class SpyLock(object):
    """Replacement of Controller.comp_lock (an RLock): counts the threads that wait for it, so that the harness can
    hold the lock ("a scheduler pass is under way"), let a notification arrive and see it park at the lock."""

    def __init__(self):
        self._l = threading.RLock()
        self.cv = threading.Condition()
        self.waiters = 0

    def acquire(self, blocking=True, timeout=-1):
        if self._l.acquire(False):
            return True
        if not blocking:
            return False
        with self.cv:
            self.waiters += 1
            self.cv.notify_all()
        try:
            return self._l.acquire(True, timeout)
        finally:
            with self.cv:
                self.waiters -= 1

    def release(self):
        self._l.release()

    def __enter__(self):
        self.acquire()
        return self

    def __exit__(self, *a):
        self.release()


class ManualEvent(object):
    """Replacement of Controller._event_scheduler: parks the run() thread until the harness ticks."""

    def __init__(self):
        self.cv = threading.Condition()
        self.parked = False
        self.go = False

    def set(self):
        pass

    def clear(self):
        pass

    def wait(self, timeout=None):
        with self.cv:
            self.parked = True
            self.cv.notify_all()
            while not self.go:
                self.cv.wait()
            self.go = False
            self.parked = False


class Driver(object):
    def __init__(self, W, outcome, with_cdb=False):
        W = copy.deepcopy(W)            # a live patch extends the description in place
        outcome = dict((k, list(v)) for k, v in outcome.items())
        self.W = W
        self.outcome = outcome
        self.n = len(W)
        self.nstages = max(d['stage'] for d in W) + 1
        g = networkx.DiGraph()
        self.comps = []
        per_stage = {}
        for i, d in enumerate(W):
            j = per_stage.get(d['stage'], 0)
            per_stage[d['stage']] = j + 1
            self.comps.append(FakeComp(i, d, self, cname='c%d' % j))
        self.idx_of = dict((c.ref, c.idx) for c in self.comps)
        for i, d in enumerate(W):
            c = self.comps[i]
            g.add_node(c.ref, stageIndex=d['stage'], component=weakref.ref(c))
        for i, d in enumerate(W):
            for p in d['preds']:
                g.add_edge(self.comps[p].ref, self.comps[i].ref)
        wg = types.SimpleNamespace(graph=g, _placeholders={}, _documents={})
        exp = types.SimpleNamespace(experimentGraph=wg,
                                    instanceDirectory=types.SimpleNamespace(hooksDir='/nonexistent-verif-hooks'),
                                    numStages=lambda: self.nstages)
        control.WaitOnStability = lambda *a, **k: True
        self.slow_pm = False         # offer split post-mortems (PMB/PME) among the enabled events
        self.sleepy = False          # offer Controller.sleep() / wake_up() among the enabled events
        self.patcher = None          # callable(driver) -> ('Patch', new, edges, outcomes) or None, offered while asleep
        self.patches = 0
        self.exp = exp
        self.inflight = {}           # c -> (thread, gate): post-mortems parked inside the stability wait
        self._parked = threading.Event()

        def fake_sleep(secs):
            # postMortemCheck -> _restartComponent sleeps 25 s before it asks whether the system is stable, WITHOUT
            # holding comp_lock: a post-mortem started with begin_pm() parks here until end_pm() releases it
            t = threading.current_thread()
            gate = getattr(t, 'verif_gate', None)
            if gate is not None and secs == 25.0:
                self._parked.set()
                gate.wait()
        control.time.sleep = fake_sleep
        tr = experiment.runtime.monitor.MonitorExceptionTracker.defaultTracker()
        tr.isSystemStable = lambda *a, **k: True
        tr.printStatus = lambda *a, **k: None
        experiment.appenv.HybridConfiguration.defaultConfiguration = classmethod(
            lambda cls: types.SimpleNamespace(handleMigration=lambda *a, **k: None))
        # with_cdb: the controller is given a (never matching) central database, i.e. memoization is switched on
        cdb = types.SimpleNamespace(cdb_get_document_component=lambda **kw: [],
                                    cdb_query_component_files_exist=lambda *a, **k: False) if with_cdb else None
        self.ctl = control.Controller(exp, experiment_name='verif', cdb=cdb)
        self.ctl.comp_lock = SpyLock()
        self.lockfin = False         # finished-notifications arrive while comp_lock is held (a pass is under way)
        self.atomicity = []          # what a notification changed before it held the lock
        self.ctl.controllerPool = reactivex.scheduler.ImmediateScheduler()
        self.ctl._observe_completionCheck = lambda stage: None
        self.ev = ManualEvent()
        self.ctl._event_scheduler = self.ev
        self.db = types.SimpleNamespace(monitorComponent=lambda c: None)
        self.pmq = []
        self.finq = []
        self.fin_emitted = set()
        self.cur = -1
        self.thread = None
        self.verdict = None      # per stage result of run(): 'ok' | exception class name
        self.ended = False
        self.errors = []

    # ---- stage control
    def _stage_obj(self, i):
        return types.SimpleNamespace(index=i, name='stage%d' % i, directory='/nonexistent',
                                     jobs=lambda: [c for c in self.comps if c.stage == i])

    def start_stage(self):
        """initialise + run() up to its first park: model = two Sched passes (or exit)"""
        self.cur += 1
        self.ctl.initialise(self._stage_obj(self.cur), self.db)
        self.verdict = None

        def body():
            try:
                self.ctl.run()
                self.verdict = 'ok'
            except BaseException as e:   # noqa
                self.verdict = type(e).__name__
                if self.verdict not in ('UnexpectedJobFailureError', 'FinalStageNoFinishedLeafComponents'):
                    import traceback
                    self.errors.append(traceback.format_exc())
        self.thread = threading.Thread(target=body, daemon=True)
        self.thread.start()
        self._wait_parked()
        self._scan()

    def _wait_parked(self):
        import time as _time
        t0 = _time.time()
        with self.ev.cv:
            while not self.ev.parked and self.thread.is_alive():
                self.ev.cv.wait(0.005)
                if _time.time() - t0 > 30:
                    self.errors.append('Controller.run did not reach its wait within 30 s after the stage start')
                    raise RuntimeError('controller loop stuck')
        if not self.thread.is_alive():
            self.thread.join()

    def tick(self):
        """release one iteration of the run() loop: (exit with verdict) or one _schedule pass"""
        with self.ev.cv:
            self.ev.go = True
            self.ev.parked = False
            self.ev.cv.notify_all()
        import time as _t
        _t.sleep(0)  # real time.sleep may be patched inside control only
        # wait until parked again or finished (bounded: a controller that never returns to its wait is reported)
        import time as _time
        t0 = _time.time()
        while True:
            with self.ev.cv:
                if self.ev.parked and not self.ev.go:
                    break
            if not self.thread.is_alive():
                self.thread.join()
                break
            if _time.time() - t0 > 30:
                self.errors.append('Controller.run did not return to its wait within 30 s after a Tick')
                raise RuntimeError('controller loop stuck')
            _time.sleep(0.0005)
        self._scan()

    def stage_running(self):
        return self.thread is not None and self.thread.is_alive()

    # ---- environment events
    def exit(self, c):
        comp = self.comps[c]
        e = comp.engine
        assert e.phase == 'active' or (e.phase == 'idle' and e.kill_req)
        if e.phase == 'idle':
            r = 'Killed'
        else:
            oc = self.outcome[c]
            r = oc[min(comp.runs - 1, len(oc) - 1)]
        e.phase = 'exited'
        e.reason = r
        was_called = comp.finishCalled
        # the component observes its own transition to post-mortem (the closure finish() subscribed, if any)
        comp._pm_self.on_next(({'state': codes.POSTMORTEM_STATE}, comp))
        if not was_called:
            self.pmq.append(c)
        self._scan()
        return r

    def deliver_pm(self, c):
        self.pmq.remove(c)
        comp = self.comps[c]
        comp._pm.on_next(({'state': codes.POSTMORTEM_STATE}, comp))
        self._scan()

    def begin_pm(self, c):
        """start the post-mortem callback of c in its own thread; returns 'parked' if it reached the stability wait
        (c stays in pmq until end_pm) or 'done' if it completed (an ordinary, atomic PM)"""
        comp = self.comps[c]
        gate = threading.Event()
        self._parked.clear()

        def body():
            try:
                comp._pm.on_next(({'state': codes.POSTMORTEM_STATE}, comp))
            except BaseException as e:   # noqa
                self.errors.append('post-mortem thread: %s' % type(e).__name__)
        t = threading.Thread(target=body, daemon=True)
        t.verif_gate = gate
        t.start()
        import time as _time
        t0 = _time.time()
        while t.is_alive() and not self._parked.is_set():
            _time.sleep(0.0005)
            if _time.time() - t0 > 30:
                self.errors.append('post-mortem callback neither finished nor reached its wait within 30 s')
                raise RuntimeError('controller loop stuck')
        if self._parked.is_set() and t.is_alive():
            self.inflight[c] = (t, gate)
            self._scan()
            return 'parked'
        t.join()
        self.pmq.remove(c)
        self._scan()
        return 'done'

    def end_pm(self, c):
        t, gate = self.inflight.pop(c)
        gate.set()
        t.join(30)
        if t.is_alive():
            self.errors.append('post-mortem callback did not finish within 30 s after its stability wait')
            raise RuntimeError('controller loop stuck')
        self.pmq.remove(c)
        self._scan()

    def deliver_fin(self, c):
        self.finq.remove(c)
        comp = self.comps[c]
        if not self.lockfin:
            comp._fin.on_next(({'isAlive': False, 'state': comp.state}, comp))
            self._scan()
            return
        # the notification arrives on another thread while the lock is held, as during a scheduler pass: it has to
        # wait, and until it gets the lock nothing the controller decides on may have changed (the model's events
        # are the units the code runs under comp_lock)
        before = self.observe()
        lk = self.ctl.comp_lock
        msg = ({'isAlive': False, 'state': comp.state}, comp)

        def body():
            try:
                comp._fin.on_next(msg)
            except BaseException as e:   # noqa
                self.errors.append('finished-notification thread: %s' % type(e).__name__)
        t = threading.Thread(target=body, daemon=True)
        lk.acquire()
        try:
            t.start()
            import time as _time
            t0 = _time.time()
            while t.is_alive() and lk.waiters == 0:
                _time.sleep(0.0005)
                if _time.time() - t0 > 30:
                    self.errors.append('finished-notification neither ended nor reached comp_lock within 30 s')
                    raise RuntimeError('controller loop stuck')
            during = self.observe()
        finally:
            lk.release()
        t.join(30)
        if t.is_alive():
            self.errors.append('finished-notification did not end within 30 s after comp_lock was released')
            raise RuntimeError('controller loop stuck')
        if during != before:
            diff = [k for k in before if before[k] != during[k]]
            self.atomicity.append({'event': ['Fin', c], 'changed_before_lock': diff,
                                   'before': {k: before[k] for k in diff}, 'during': {k: during[k] for k in diff}})
        self._scan()

    def _scan(self):
        for c, comp in enumerate(self.comps):
            if comp.state in FINAL and c not in self.fin_emitted:
                self.fin_emitted.add(c)
                self.finq.append(c)

    # ---- enabled events / observation
    def enabled(self):
        ev = []
        if self.stage_running():
            ev.append(('Tick',))
        for c, comp in enumerate(self.comps):
            e = comp.engine
            if e.phase == 'active' or (e.phase == 'idle' and e.kill_req):
                ev.append(('Exit', c))
        for c in self.pmq:
            if c in self.inflight:
                ev.append(('PME', c))
            elif not self.inflight:
                # rx.merge serialises the post-mortem callbacks of the components submitted by one scheduler pass:
                # while one of them is parked in its stability wait no other post-mortem is delivered
                ev.append(('PM', c))
                if self.slow_pm:
                    ev.append(('PMB', c))
        for c in self.finq:
            ev.append(('Fin', c))
        if self.sleepy and not self.inflight:
            ev.insert(0, ('Wake',) if self.ctl._start_sleeping else ('Sleep',))
            if self.patcher is not None and self.ctl._start_sleeping:
                pev = self.patcher(self)
                if pev is not None:
                    ev.insert(1, pev)
        return ev

    def patch(self, new, edges, outcomes):
        """new: descriptions of the patched-in components (their preds name existing or earlier new components);
        edges: (producer index, consumer index) pairs added to components that exist already"""
        assert self.ctl._start_sleeping
        old = self.exp.experimentGraph.graph
        g = networkx.DiGraph()
        g.add_nodes_from(old.nodes(data=True))
        g.add_edges_from(old.edges())
        per_stage = {}
        for d in self.W:
            per_stage[d['stage']] = per_stage.get(d['stage'], 0) + 1
        for d, oc in zip(new, outcomes):
            d = copy.deepcopy(d)
            i = len(self.W)
            j = per_stage.get(d['stage'], 0)
            per_stage[d['stage']] = j + 1
            self.W.append(d)
            self.outcome[i] = list(oc)
            c = FakeComp(i, d, self, cname='c%d' % j)
            self.comps.append(c)
            self.idx_of[c.ref] = i
            g.add_node(c.ref, stageIndex=d['stage'], component=weakref.ref(c))
            for p in d['preds']:
                g.add_edge(self.comps[p].ref, c.ref)
        for (p, c) in edges:
            if p not in self.W[c]['preds']:
                self.W[c]['preds'].append(p)      # FakeComp.d is this very dict: .producers follows
            g.add_edge(self.comps[p].ref, self.comps[c].ref)
        self.n = len(self.W)
        self.nstages = max(d['stage'] for d in self.W) + 1
        # Experiment.switchWorkflowGraph: a NEW WorkflowGraph object with a NEW networkx graph
        self.exp.experimentGraph = types.SimpleNamespace(graph=g, _placeholders={}, _documents={})
        with self.ctl.comp_lock:
            self.ctl.parse_workflow_graph()
        self.patches += 1

    def do(self, ev):
        k = ev[0]
        if k == 'Tick':
            self.tick()
        elif k == 'Exit':
            self.exit(ev[1])
        elif k == 'PM':
            self.deliver_pm(ev[1])
        elif k == 'PMB':
            return self.begin_pm(ev[1])
        elif k == 'PME':
            self.end_pm(ev[1])
        elif k == 'Fin':
            self.deliver_fin(ev[1])
        elif k == 'Sleep':
            self.ctl.sleep()
        elif k == 'Wake':
            self.ctl.wake_up()
            self._scan()
        elif k == 'Patch':
            self.patch(ev[1], ev[2], ev[3])
        else:
            raise ValueError(ev)

    def observe(self):
        """canonical snapshot compared with the model after every event"""
        comps = []
        staged = set(c.idx for c in self.ctl.comp_staged_in)
        for c, comp in enumerate(self.comps):
            comps.append((comp.state, comp.idx in staged, comp.runs, comp.finishCalled,
                          comp.engine.restarts, comp.engine.resub))
        done = sorted(self.idx_of[r] for r in self.ctl.comp_done)
        try:
            sst = self.ctl.stageState() if self.cur >= 0 and self.ctl.currentStage is not None else None
        except BaseException as e:   # noqa
            sst = 'error:%s' % type(e).__name__
        return {'stage_state': sst, 'comps': comps, 'done': done, 'stop': bool(self.ctl.stop_executing),
                'pmq': sorted(self.pmq), 'finq': sorted(self.finq),
                'running': self.stage_running(), 'verdict': self.verdict, 'cur': self.cur}

    def close(self):
        # let a parked run() thread die with the process (daemon); nothing else to release
        pass
