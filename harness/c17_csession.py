"""C17, third part: ONE FlowIRExperimentConfiguration object that is asked several times while its INPUTS change.

A configuration session = a three-platform document as in harness/c17_session.py, how the object is created (platform, route,
system variables, launch environment) and a list of operations on that one object (harness/c17_impl.py: run_csession):
  changes    param  : parametrize(platform, systemvars, primitive) - what graphFromPackage() / experimentFromPackage() call on
                      the configuration object of a package: another platform, the other route, other system variables
             add    : add_environment(name, environment, platform=None | 'default' | the active platform)
             launch : os.environ replaced by another launch environment (variables added, removed, changed)
  questions  node   : environmentForNode(component) + environmentWithName(its environment, expand=False)
             name   : environmentWithName(name)
             default: defaultEnvironment()
Checked:
  * every answer (and whether add_environment stored the environment or raised FlowIREnvironmentExists) against Env.SessModel:
    the model of Env.Model / Env.InstModel applied to the CURRENT state - the document the object was created from, seen from
    the platform of the last parametrize(), plus the environments added since, under the current launch environment
    (check_conf_answer);
  * predicate, nothing remembered: the answer of the long-lived object == the answer of a FRESH configuration object created
    for the current platform / route / system variables to which the add_environment calls since the last parametrize() are
    replayed, under the current launch environment."""
import copy

import common
from common import clist, cstr, cbool

import c17 as base
import c17_session as ses

HEADER = 'Require Import V.Env.Model V.Env.InstModel V.Env.SessModel.\nOpen Scope string_scope.\nOpen Scope list_scope.'
PLATFORMS = ses.PLATFORMS
UNKNOWN, VARUNKNOWN = ses.UNKNOWN, ses.VARUNKNOWN
EXISTS = 'FlowIREnvironmentExists'
CHANGES = ('param', 'add', 'launch')


# ------------------------------------------------------------------ Coq printing
def crawenv(kvs):
    return '(%s : rawenv)' % clist(kvs, lambda kv: '(%s, %s)' % (cstr(kv[0]), base.craw(kv[1])))


def cdoc3(s):
    return '{| envs3 := %s; globs3 := %s |}' % (
        clist(PLATFORMS, lambda p: '(%s, %s)' % (cstr(p), base.ctab(s['envs'][p]))),
        clist(PLATFORMS, lambda p: '(%s, %s)' % (cstr(p), ses.crctx(s['globals'][p]))))


def cinit(i):
    return '(%s, %s, %s, %s)' % (cstr(i['platform']), cbool(i['nonprim']), base.cmap(i['sysv']), base.cmap(i['launch']))


def cchange(op):
    if op['op'] == 'param':
        return '(ChParam %s %s %s)' % (cstr(op['platform']), cbool(op['nonprim']), base.cmap(op['sysv']))
    if op['op'] == 'add':
        return '(ChAdd %s %s %s)' % (cbool(op['target'] == 'default'), cstr(op['name']), crawenv(op['env']))
    return '(ChLaunch %s)' % base.cmap(op['launch'])


def cquestion(s, op, ans):
    if op['op'] == 'node':
        cm = s['comps'][op['comp']]
        return '(QNode %s %s %s %s)' % (base.cname(cm['name']), cbool(cm['interp']), ses.cres3(ans['full']), ses.cres3(ans['unexp']))
    if op['op'] == 'name':
        return '(QName %s %s)' % (base.cname(op['name']), ses.cres3(ans))
    if op['op'] == 'default':
        return '(QDefault %s)' % base.cmap(ans)
    return '(QAdd %s %s %s %s)' % (cbool(op['target'] == 'default'), cstr(op['name']), crawenv(op['env']), cbool(ans == 'stored'))


def expressible(op, ans):
    if op['op'] == 'node':
        return (isinstance(ans, dict) and all(ans.get(k) in (UNKNOWN, VARUNKNOWN) or isinstance(ans.get(k), list)
                                               for k in ('full', 'unexp')))
    if op['op'] == 'name':
        return ans == UNKNOWN or isinstance(ans, list)
    if op['op'] == 'default':
        return isinstance(ans, list)
    return ans in ('stored', EXISTS)


# ------------------------------------------------------------------ generation
def new_launch(rng, launch):
    """another launch environment: variables removed, changed, added (at least one difference)"""
    while True:
        out = []
        for k, v in launch:
            r = rng.random()
            if r < 0.25:
                continue
            out.append([k, v if r < 0.7 else rng.choice(['N-' + k, '/n/bin', '2', v + ':more'])])
        for k in ses.LAUNCH:
            if k not in dict(launch) and rng.random() < 0.3:
                out.append([k, rng.choice(['N-' + k, '/n/bin:/n/usr', '2'])])
        rng.shuffle(out)
        if out != launch:
            return out


def gen_sysv(rng):
    return [[k, rng.choice(['/inst/x.instance', 'sys-' + k, 'other-' + k])] for k in ('INSTANCE_DIR', 'FLOW_RUN_ID')
            if rng.random() < 0.8]


def gen_csession(rng):
    s = ses.gen_session(rng)['session']
    # the default environment is what a re-targeted object is most likely to remember: most documents decide independently
    # per platform whether they declare it, and every session has a component that selects no environment
    if rng.random() < 0.8:
        gall = [k for plat in PLATFORMS for k, _ in s['globals'][plat]]
        lk = [k for k, _ in s['launch']]
        for plat in PLATFORMS:
            s['envs'][plat] = [ne for ne in s['envs'][plat] if ne[0].lower() != 'environment']
            if rng.random() < 0.45:
                s['envs'][plat].insert(rng.randint(0, len(s['envs'][plat])),
                                       [ses.spell(rng, 'environment'), ses.gen_env(rng, lk, gall)])
    s['comps'][rng.randrange(len(s['comps']))] = {'name': rng.choice([None, None, '', 'environment', 'ENVIRONMENT', 'Environment']),
                                                    'interp': rng.random() < 0.3}
    declared = sorted(set(n.lower() for plat in PLATFORMS for n, _ in s['envs'][plat]))
    gall = [k for plat in PLATFORMS for k, _ in s['globals'][plat]]
    launch = s.pop('launch')
    sysv = s.pop('sysv')
    s.pop('ops')
    s['init'] = {'platform': rng.choice(PLATFORMS), 'nonprim': rng.random() < 0.5, 'sysv': sysv, 'launch': launch}
    nonprim = s['init']['nonprim']
    ops = []
    nchanges = 0
    for i in range(rng.randint(4, 9)):
        q = rng.random()
        if i > 0 and q < 0.45:
            c = rng.random()
            if c < 0.5:
                if rng.random() < 0.8:
                    nonprim_new = nonprim
                else:
                    nonprim_new = not nonprim
                nonprim = nonprim_new
                sysv = sysv if rng.random() < 0.7 else gen_sysv(rng)
                ops.append({'op': 'param', 'platform': rng.choice(PLATFORMS), 'nonprim': nonprim, 'sysv': sysv})
            elif c < 0.8:
                name = rng.choice(['environment', 'environment', 'added', 'missing', 'none', '7.2'] + declared)
                ops.append({'op': 'add', 'target': rng.choice([None, None, 'default', 'active']), 'name': ses.spell(rng, name),
                            'env': ses.gen_env(rng, [k for k, _ in launch], gall)})
            else:
                launch = new_launch(rng, launch)
                ops.append({'op': 'launch', 'launch': launch})
            nchanges += 1
        else:
            r = rng.random()
            if r < 0.6:
                ops.append({'op': 'node', 'comp': rng.randrange(len(s['comps']))})
            elif r < 0.85:
                ops.append({'op': 'name', 'name': rng.choice([None, '', 'environment', 'ENVIRONMENT', 'none', 'added', 'Added', 'missing', '7.2']
                                                              + declared)})
            else:
                ops.append({'op': 'default'})
    if ops[-1]['op'] in CHANGES:
        ops.append({'op': 'node', 'comp': rng.randrange(len(s['comps']))})
    s['ops'] = ops
    return {'csession': s}


SYSV0, LAUNCH0 = ses.SYSV0, ses.LAUNCH0
GLOB0 = {'default': [['ver', '1'], ['G', 'g-%(ver)s']], 'p': [['G', 'gp']], 'q': [['ver', '2']]}
COMPS0 = [{'name': None, 'interp': False}, {'name': 'ENVIRONMENT', 'interp': True}, {'name': 'mine', 'interp': False},
          {'name': 'none', 'interp': False}]
ASK0 = [{'op': 'node', 'comp': 0}, {'op': 'node', 'comp': 1}, {'op': 'default'}]


def csession(envs, init, ops, comps=COMPS0, globals_=GLOB0):
    return {'csession': {'platforms': PLATFORMS, 'envs': envs, 'globals': globals_, 'comps': comps, 'init': init, 'ops': ops}}


def family_reparametrize():
    """systematic: an object answers for platform X, is parametrized for platform Y, answers, and back; the default
    environment declared by every subset of {default, X, Y}; both routes"""
    out = []
    declared = {'default': [['SCHED', 'local'], ['APP', '/app/%(G)s'], ['PATH', '/d/bin:$PATH']],
                'p': [['SCHED', 'p-sched'], ['QUEUE', 'normal']],
                'q': [['SCHED', 'q-sched'], ['DEFAULTS', 'LV:PATH'], ['PATH', '/q/bin:$PATH']]}
    for x, y in (('default', 'p'), ('p', 'default'), ('p', 'q')):
        for mask in range(8):
            for nonprim in (False, True):
                envs = {plat: [['mine', [['WHERE', plat]]]] for plat in PLATFORMS}
                for bit, plat in enumerate(['default', 'p', 'q']):
                    if mask & (1 << bit):
                        envs[plat].append([['environment', 'Environment', 'ENVIRONMENT'][bit], declared[plat]])
                ops = list(ASK0)
                ops += [{'op': 'param', 'platform': y, 'nonprim': nonprim, 'sysv': SYSV0}] + ASK0 + [{'op': 'node', 'comp': 2}]
                ops += [{'op': 'param', 'platform': x, 'nonprim': not nonprim, 'sysv': [['INSTANCE_DIR', '/inst/other.instance']]}] + ASK0
                out.append(csession(envs, {'platform': x, 'nonprim': nonprim, 'sysv': SYSV0, 'launch': LAUNCH0}, ops))
    return out


def family_add_environment():
    """systematic: an object of a package without a default environment (or with one on platform default only) answers, gets
    the default environment / a named environment added (target: active platform implicitly or explicitly, platform default),
    answers, gets it added AGAIN (FlowIREnvironmentExists), is parametrized for the same platform (the addition is gone)"""
    out = []
    for plat in ('default', 'p'):
        for nonprim in (False, True):
            for target in (None, 'active', 'default'):
                for on_default in (False, True):
                    envs = {'default': [['mine', [['WHERE', 'default']]]], 'p': [['Mine', [['WHERE', 'p'], ['ONLYP', '%(G)s']]]], 'q': []}
                    if on_default:
                        envs['default'].append(['environment', [['APP', '/app'], ['ONLY', 'default']]])
                    ops = list(ASK0)
                    ops += [{'op': 'add', 'target': target, 'name': 'Environment', 'env': [['ONLY', 'this'], ['G2', '%(G)s:$HOME'], ['N', 3]]}]
                    ops += ASK0
                    ops += [{'op': 'add', 'target': target, 'name': 'environment', 'env': [['SECOND', 'time']]}, {'op': 'node', 'comp': 0},
                            {'op': 'add', 'target': target, 'name': 'MINE', 'env': [['WHERE', 'added']]}, {'op': 'node', 'comp': 2},
                            {'op': 'add', 'target': target, 'name': 'None', 'env': [['X', 'x']]}, {'op': 'node', 'comp': 3},
                            {'op': 'add', 'target': target, 'name': 'Added', 'env': [['DEFAULTS', 'LV'], ['B', '$LV/$SECRET']]},
                            {'op': 'name', 'name': 'ADDED'},
                            {'op': 'param', 'platform': plat, 'nonprim': nonprim, 'sysv': SYSV0}]
                    ops += ASK0 + [{'op': 'name', 'name': 'added'}]
                    out.append(csession(envs, {'platform': plat, 'nonprim': nonprim, 'sysv': SYSV0, 'launch': LAUNCH0}, ops))
    return out


def family_launch():
    """systematic: the launch environment changes between two questions (variable added, removed, changed; PATH for an
    interpreter component; a DEFAULTS import and a $NAME reference of a named environment); no default environment declared /
    declared"""
    out = []
    l1 = [['PATH', '/bin:/usr/bin'], ['HOME', '/h'], ['LV', 'launch'], ['OLD', 'old'], ['SECRET', 's3cr3t']]
    l2 = [['PATH', '/new/bin'], ['HOME', '/h'], ['LV', 'launch-2'], ['NEW', 'new'], ['PYTHONPATH', '/pp']]
    comps = COMPS0 + [{'name': 'imp', 'interp': True}]
    for plat in ('default', 'p'):
        for nonprim in (False, True):
            for declared in (False, True):
                envs = {'default': [['imp', [['DEFAULTS', 'LV:PATH:NEW'], ['B', '$LV/$OLD/${NEW}'], ['PATH', '/x:$PATH']]]],
                        'p': [['mine', [['WHERE', 'p']]]], 'q': []}
                if declared:
                    envs[plat].append(['environment', [['HOME2', '$HOME/$LV'], ['DEFAULTS', 'OLD:NEW']]])
                ask = ASK0 + [{'op': 'node', 'comp': 4}, {'op': 'name', 'name': 'IMP'}]
                ops = ask + [{'op': 'launch', 'launch': l2}] + ask + [{'op': 'launch', 'launch': []}] + ask + [{'op': 'launch', 'launch': l1}] + ask
                out.append(csession(envs, {'platform': plat, 'nonprim': nonprim, 'sysv': SYSV0, 'launch': l1}, ops, comps=comps))
    return out


NOGLOB = {'default': [], 'p': [], 'q': []}
CORPUS = [
    # boundary of "another platform": the smallest sequence - answer, parametrize, answer
    csession({'default': [['environment', [['SCHEDULER', 'local'], ['APP_HOME', '/opt/app']]]],
              'p': [['environment', [['SCHEDULER', 'lsf'], ['QUEUE', 'normal']]]], 'q': []},
             {'platform': 'default', 'nonprim': False, 'sysv': SYSV0, 'launch': LAUNCH0},
             [{'op': 'node', 'comp': 0}, {'op': 'param', 'platform': 'p', 'nonprim': False, 'sysv': SYSV0}, {'op': 'node', 'comp': 0}],
             comps=[{'name': None, 'interp': False}], globals_=NOGLOB),
    # boundary of "the package gained a default environment": answer (launch environment), add_environment, answer
    csession({'default': [], 'p': [], 'q': []}, {'platform': 'default', 'nonprim': True, 'sysv': SYSV0, 'launch': LAUNCH0},
             [{'op': 'node', 'comp': 0}, {'op': 'add', 'target': None, 'name': 'environment', 'env': [['ONLY', 'this']]},
              {'op': 'node', 'comp': 0}],
             comps=[{'name': '', 'interp': False}], globals_=NOGLOB),
    # boundary of "the launch environment changed": answer, one variable more and one less, answer
    csession({'default': [], 'p': [], 'q': []}, {'platform': 'p', 'nonprim': False, 'sysv': [], 'launch': [['OLD', 'old'], ['KEEP', 'k']]},
             [{'op': 'default'}, {'op': 'launch', 'launch': [['KEEP', 'k'], ['NEW', 'new']]}, {'op': 'default'}, {'op': 'node', 'comp': 0}],
             comps=[{'name': 'Environment', 'interp': False}], globals_=NOGLOB),
]


# ------------------------------------------------------------------ exploring
def explore_csessions(ctx, cases):
    import time
    t0 = time.time()
    results = base.run_impl(cases, nproc=6)
    ctx.extra['csession_impl_s'] = round(time.time() - t0, 1)
    terms = []
    for case, r in zip(cases, results):
        s = case['csession']
        if 'build' in r or 'launch_modified' in r:
            ctx.case(case, False)
            ctx.fail({'case': case, 'impl': r}, 'a sequence of changes and environment questions on one configuration object could not be '
                                                'run or modified the launch environment', [])
            continue
        changes = []
        nontriv = False
        for i, (op, ro) in enumerate(zip(s['ops'], r['ops'])):
            rec = {'case': case, 'question': i, 'op': op, 'impl': ro}
            kind = op['op']
            if kind in ('param', 'launch'):
                if ro['ans'] != 'ok':
                    ctx.fail(rec, 'parametrize() of a configuration object for a platform of its package failed or did not return '
                                  'the object', [])
                changes.append(op)
                ctx.count('conf_change_' + kind)
                continue
            if not expressible(op, ro['ans']):
                ctx.fail(rec, 'a question about environments raised an error other than FlowIREnvironmentUnknown / FlowIRVariableUnknown '
                              '/ FlowIREnvironmentExists or returned non-string entries', [])
            else:
                if ro['ans'] != ro['fresh']:
                    ctx.fail(rec, 'a configuration object whose inputs changed after it answered (%s) answers %s differently from a '
                                  'fresh configuration object of the CURRENT platform, environments and launch environment'
                             % (', '.join(sorted(set(c['op'] for c in changes))) or 'no change', kind), [])
                kinds = set(c['op'] for c in changes)
                ctx.count('conf_question_' + kind + ('_after_' + '+'.join(sorted(kinds)) if kinds else '_first'))
                if kind == 'add':
                    ctx.count('conf_add_' + ro['ans'])
                if kind == 'node' and not isinstance(ro['ans']['full'], list):
                    ctx.count('conf_node_' + ro['ans']['full'])
                nontriv = nontriv or (bool(changes) and kind != 'add')
                terms.append(('(%s, %s, %s, %s)' % (cdoc3(s), cinit(s['init']), clist(changes, cchange), cquestion(s, op, ro['ans'])),
                              case, i, ro, list(changes)))
            if kind == 'add':
                changes.append(op)
                ctx.count('conf_change_add')
        ctx.case(case, nontriv)
        ctx.count('conf_sessions')
    bad = ctx.model_mismatches(HEADER, [t[0] for t in terms], 'check_conf_answer', chunk=150, name='csession')
    ctx.count('conf_session_answers', len(terms))
    for k, j in enumerate(bad):
        _, case, i, ro, changes = terms[j]
        s = case['csession']
        op = s['ops'][i]
        m = ''
        if k < 3:
            st = '(run_changes %s (init_state %s %s %s %s %s) %s)' % (
                cdoc3(s), cdoc3(s), cstr(s['init']['platform']), cbool(s['init']['nonprim']), base.cmap(s['init']['sysv']),
                base.cmap(s['init']['launch']), clist(changes, cchange))
            if op['op'] == 'node':
                cm = s['comps'][op['comp']]
                m = ctx.model_eval(HEADER, '(ask_node %s %s %s, ask_name %s %s false)' % (
                    st, base.cname(cm['name']), cbool(cm['interp']), st, base.cname(cm['name'])))
            elif op['op'] == 'name':
                m = ctx.model_eval(HEADER, '(ask_name %s %s true)' % (st, base.cname(op['name'])))
            elif op['op'] == 'default':
                m = ctx.model_eval(HEADER, '(ask_default %s)' % st)
            else:
                m = ctx.model_eval(HEADER, '(match add_environment (st_cfg %s) %s %s %s with Some _ => true | None => false end)' % (
                    st, cbool(op['target'] == 'default'), cstr(op['name']), crawenv(op['env'])))
        ctx.disagree({'case': case, 'question': i, 'op': op}, ro['ans'], m,
                     'C17 configuration sessions: environmentForNode / environmentWithName / defaultEnvironment / add_environment of ONE '
                     'FlowIRExperimentConfiguration after parametrize() / add_environment() / a changed launch environment vs '
                     'Env.SessModel on the current state')


def csession_cases(rng, tier):
    cases = copy.deepcopy(CORPUS) + family_reparametrize() + family_add_environment() + family_launch()
    n = 120 if tier == "quick" else 2000
    cases += [gen_csession(rng) for _ in range(n)]
    return cases
