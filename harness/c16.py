"""C16 — Memoization hashes identify equivalent work and nothing else.

Implementation driven: real experiment instances (package written to a scratch directory, then
ExperimentPackage.packageFromLocation + Experiment.experimentFromPackage + validateExperiment, as
tests/utils.py::experiment_from_flowir does) and on them the real
ComponentSpecification.memoization_info / memoization_hash / memoization_info_fuzzy / memoization_hash_fuzzy
(_compute_memoization_info, _memoization_info_to_hash).  The buffer handed to md5 is captured by wrapping
the hashlib module object seen by experiment.model.graph.

A *world* is the description of one workflow (components in topological order, their references,
the state of every referenced path).  Worlds come in families: a base world and variants that differ
from it in exactly one aspect (hash-relevant: executable, a literal argument, the contents of a file,
a reference method, the image; hash-irrelevant: instance location, a component name, the stage
indices, modification times).  A *session* is one world instantiated ONCE on which hashes are asked for repeatedly
while the referenced files are rewritten in place (gen_session / run_sessions): every answer must be the one of the
contents on disk at the time of the ask."""
import copy
import hashlib
import re
import json
import os
import shutil
import tempfile
import uuid

from common import cstr, cZ, cnat, clist, copt, cpair, cjv

PROP = 'C16'
COQ_DIR = 'Memo'
ASSUMPTIONS = [
    'md5 is a Section variable of the Coq development; for the correspondence it is instantiated by the table of '
    '(input, hashlib.md5 digest) pairs observed during the run; "exactly when" is modulo md5 collisions',
    'the rewriting of the argument string is modelled at character level (re.sub with \\b at both ends, Memo.Model.resub); '
    'one helper of the code is an oracle of that model, evaluated by the run on the real code: the strings '
    'FlowIR.discover_reference_strings finds in the arguments; the order in which the references are visited is computed by the model '
    '(Memo.Model.code_order: direct references first, then stable by decreasing length of the absolute string) and compared with the '
    'order the run derives from the real dataReferences',
    'descriptions that Experiment.validateExperiment rejects are not observed (counted as rejected): e.g. the command-line '
    'validation rejects a consumer whose short reference is listed before the longer reference it is a tail of',
    'no custom embeddingFunction (user-provided JavaScript fuzzy hash); no loop references; references to '
    'application dependencies are not generated',
    'file contents are short ASCII texts; files are read completely by md5_of_file',
    'sessions (hashes asked repeatedly in one process while referenced files are rewritten in place): the asks are made on objects '
    'that compute (after memoization_reset(), never asked, or of a new Experiment.experimentFromInstance); that an object which was '
    'asked keeps its info and hash until it is reset is the design of the code and is not modelled; modification times are set with '
    'os.utime (kept to the nanosecond / same second / +5 s / -7 s) or left to the clock',
]
HEADER = 'Require Import V.Lib.JTree V.Memo.Model.\nOpen Scope string_scope.'
KEYWORDS = ('executable', 'arguments', 'files', 'command', 'backend', 'image')

EXES = ['cat', 'echo', 'ls', 'wc', 'foo', 'bin/run.sh', 'sort', 'tr']
WORDS = ['-n', '--flag', 'x', 'zzz', '-x', 'a=b', '42', '--out=res.txt', 'q', '-v']
KW_EXES = ['executablefoo', 'filesort', 'foo']
KW_WORDS = ['-x executable', 'executable', '-x ', 'xfiles', 'commandarguments', 'image']
NAMES = ['step', 'step7', 'gen', 'gen2', 'A', 'B1', 'merge', 'merge10', 'w', 'w3', 'x42', 'prep']
IMAGES = ['img:1', 'registry/img:2', 'img']
# directory of the absolute-path files of the current Driver; in canonical forms it is written '/ABSDIR' padded with 'X' to the
# same length (the code orders the references by the length of their strings)
ABS = {'dir': '/ABSDIR', 'canon': '/ABSDIR'}
# references one of which is a \b-delimited tail of another one: producer names <pre>-<name>, <pre>.<name> and files below a
# folder called like another producer / like the data folder
TAIL_SHORT = ['gen', 'step', 'w3', 'A', 'x42']
TAIL_PRE = ['pre', 'x', 'a1', 'my_gen']
CONTENTS = ['hello', 'dd', 'OUT', '1 2 3', 'alpha beta', '', 'x', 'OUT2', 'longer content of a file 0123456789']


# ------------------------------------------------------------------ worlds
def ref_string(w, r, spelling, canon=False):
    """the reference as written in the FlowIR of the consumer"""
    if r['kind'] == 'abs':
        base = '%s/%s' % (ABS['canon'] if canon else ABS['dir'], r['path'])
    elif r['kind'] == 'input':
        base = 'input/%s' % r['path']
    elif r['kind'] in ('data', 'datadir'):
        base = 'data/%s' % r['path']
    else:
        p = w['comps'][r['prod']]
        base = p['name'] if spelling == 'rel' else 'stage%d.%s' % (p['stage'], p['name'])
        if r['kind'] == 'prodfile':
            base += '/' + r['path']
    return '%s:%s' % (base, r['method'])


def ref_spelling(w, c, r):
    if r['kind'] in ('prodfile', 'proddir'):
        same = w['comps'][r['prod']]['stage'] == c['stage']
        return r.get('spelling', 'rel') if same else 'abs'
    return 'rel'


def flowir_of(w):
    comps = []
    for c in w['comps']:
        args = []
        for t in c['args']:
            if isinstance(t, int):
                r = c['refs'][t]
                args.append(ref_string(w, r, ref_spelling(w, c, r)))
            elif isinstance(t, (list, tuple)):      # ['glue', reference index, suffix]: the reference directly followed by text
                r = c['refs'][t[1]]
                args.append(ref_string(w, r, ref_spelling(w, c, r)) + t[2])
            else:
                args.append(t)
        d = {'name': c['name'], 'stage': c['stage'],
             'command': {'executable': c['exe'], 'arguments': ' '.join(args)},
             'references': [ref_string(w, r, ref_spelling(w, c, r)) for r in c['refs']]}
        if c.get('exe_var'):
            d['command']['executable'] = '%(tool)s'
            d['variables'] = {'tool': c['exe']}
        b = c['backend']
        if b[0] == 'kubernetes':
            d['resourceManager'] = {'config': {'backend': 'kubernetes'}, 'kubernetes': {'image': b[1]}}
        elif b[0] == 'lsf':
            d['resourceManager'] = {'config': {'backend': 'lsf'}}
            if b[1] is not None:
                d['resourceManager']['lsf'] = {'dockerImage': b[1]}
        if c.get('replicate'):
            d['workflowAttributes'] = {'replicate': c['replicate']}
        comps.append(d)
    return json.dumps({'components': comps})      # JSON is YAML


def gen_world(rng, kw=False, boundary=False):
    n = rng.randint(2, 6)
    names = rng.sample(NAMES, n)
    nst = rng.choice([1, 1, 2, 3])
    stages = sorted(rng.randrange(nst) for _ in range(n))
    # stage indices must be contiguous from 0
    remap = {s: i for i, s in enumerate(sorted(set(stages)))}
    stages = [remap[s] for s in stages]
    w = {'comps': [], 'inputs': {}, 'data': {}, 'datadirs': [], 'out': {}, 'abs': {}}
    for i in range(rng.randint(1, 3)):
        w['inputs']['in%d.txt' % i] = [rng.choice(CONTENTS), 'file']
    for i in range(rng.randint(1, 3)):
        w['data']['d%d.txt' % i] = [rng.choice(CONTENTS), 'file']
    w['datadirs'] = ['sub0']
    exes = EXES + (KW_EXES * 3 if kw else [])
    words = WORDS + (KW_WORDS * 3 if kw else [])
    for i in range(n):
        c = {'name': names[i], 'stage': stages[i], 'exe': rng.choice(exes), 'refs': [], 'args': [], 'backend': ('local',)}
        x = rng.random()
        if x < 0.15:
            c['backend'] = ('kubernetes', rng.choice(IMAGES))
        elif x < 0.3:
            c['backend'] = ('lsf', rng.choice(IMAGES + [None]))
        seen = set()
        for _ in range(rng.choice([0, 1, 1, 2, 2, 3, 4])):
            k = rng.random()
            if i > 0 and k < 0.55:
                p = rng.randrange(i)
                if rng.random() < 0.7:
                    r = {'kind': 'prodfile', 'prod': p, 'path': rng.choice(['out.txt', 'res.dat']),
                         'method': rng.choice(['ref', 'ref', 'copy', 'output', 'link'])}
                else:
                    r = {'kind': 'proddir', 'prod': p, 'path': '', 'method': rng.choice(['ref', 'ref', 'copy', 'link'])}
                r['spelling'] = rng.choice(['rel', 'abs'])
            elif k < 0.75:
                r = {'kind': 'input', 'path': rng.choice(sorted(w['inputs'])), 'method': rng.choice(['ref', 'copy'])}
            elif k < 0.95:
                r = {'kind': 'data', 'path': rng.choice(sorted(w['data'])), 'method': rng.choice(['ref', 'copy', 'link'])}
            else:
                r = {'kind': 'datadir', 'path': 'sub0', 'method': 'ref'}
            key = (r['kind'], r.get('prod'), r['path'], r['method'])
            if key in seen:
                continue
            seen.add(key)
            c['refs'].append(r)
        w['comps'].append(c)
        # arguments: literals and reference tokens (only :ref / :output may appear on the command line)
        usable = [j for j, r in enumerate(c['refs']) if r['method'] in ('ref', 'output')]
        for _ in range(rng.randint(0, 4)):
            if usable and rng.random() < 0.55:
                c['args'].append(rng.choice(usable))
            else:
                c['args'].append(rng.choice(words))
        for j in usable:
            if j not in c['args']:      # a :ref/:output reference that is not used on the command line is rejected
                c['args'].insert(rng.randint(0, len(c['args'])), j)
        # boundary cases of the \b...\b replacement (rare: they fall in the class of finding F16c)
        if boundary and rng.random() < 0.5:
            name = rng.choice(['a.txt', 'b.txt'])
            w['abs'].setdefault(name, [rng.choice(CONTENTS), 'file'])
            c['refs'].append({'kind': 'abs', 'path': name, 'method': 'ref'})
            c['args'].insert(rng.randint(0, len(c['args'])), len(c['refs']) - 1)
        elif boundary and usable:
            c['args'].insert(rng.randint(0, len(c['args'])), ['glue', rng.choice(usable), rng.choice(['X', '_1', '2'])])
    # states of the files made by producers
    for i, c in enumerate(w['comps']):
        for r in c['refs']:
            if r['kind'] == 'prodfile':
                key = '%d/%s' % (r['prod'], r['path'])
                if key not in w['out']:
                    x = rng.random()
                    w['out'][key] = [rng.choice(CONTENTS), 'file' if x < 0.85 else ('missing' if x < 0.93 else 'dir')]
    if rng.random() < 0.1:
        k = rng.choice(sorted(w['inputs']))
        w['inputs'][k][1] = 'missing'
    # some components name their executable through a variable: the hash must record the RESOLVED executable
    for c in w['comps']:
        if not c.get('replicate') and rng.random() < 0.25:
            c['exe_var'] = True
    return w


def tail_world(rng, same_name=False):
    """a consumer with two references on its command line, the spelling of one being a tail of the spelling of the other
    at a '-', '.' or '/' (producers gen / pre-gen, gen / pre.gen; gen/out.txt and outer/gen/out.txt; the folders gen and pre-gen);
    same_name: producers of the same name in two stages (gen/out.txt, stage0.gen/out.txt)"""
    w = {'comps': [], 'inputs': {'in0.txt': [rng.choice(CONTENTS), 'file']}, 'data': {'d0.txt': [rng.choice(CONTENTS), 'file']},
         'datadirs': ['sub0'], 'out': {}, 'abs': {}}
    s = rng.choice([0, 0, 1])
    if s:
        w['comps'].append({'name': 'first', 'stage': 0, 'exe': 'true', 'refs': [], 'args': ['filler'], 'backend': ('local',)})
    short = rng.choice(TAIL_SHORT)
    shape = 'same' if same_name else rng.choice(['dash', 'dot', 'nest', 'dir', 'dash', 'dot'])
    path = rng.choice(['out.txt', 'res.dat'])
    method = rng.choice(['ref', 'ref', 'ref', 'output'])
    method2 = method if rng.random() < 0.9 else ('output' if method == 'ref' else 'ref')
    sep = '.' if shape == 'dot' else rng.choice(['-', '-', '.'])
    long = rng.choice(TAIL_PRE) + sep + short

    def producer(name, stage):
        w['comps'].append({'name': name, 'stage': stage, 'exe': rng.choice(EXES), 'refs': [], 'args': [rng.choice(WORDS)],
                           'backend': ('local',)})
        return len(w['comps']) - 1
    contents = rng.sample([c for c in CONTENTS if c], 2)
    cstage = s
    if shape in ('dash', 'dot'):
        a, b = producer(short, s), producer(long, s)
        refs = [{'kind': 'prodfile', 'prod': a, 'path': path, 'method': method}, {'kind': 'prodfile', 'prod': b, 'path': path, 'method': method2}]
    elif shape == 'dir':
        a, b = producer(short, s), producer(long, s)
        refs = [{'kind': 'proddir', 'prod': a, 'path': '', 'method': 'ref'}, {'kind': 'proddir', 'prod': b, 'path': '', 'method': 'ref'}]
    elif shape == 'nest':
        a, b = producer(short, s), producer(rng.choice(['outer', 'pre']), s)
        refs = [{'kind': 'prodfile', 'prod': a, 'path': path, 'method': method},
                {'kind': 'prodfile', 'prod': b, 'path': '%s/%s' % (short, path), 'method': method2}]
    else:
        a, b = producer(short, s + 1), producer(short, s)
        cstage = s + 1
        refs = [{'kind': 'prodfile', 'prod': a, 'path': path, 'method': method}, {'kind': 'prodfile', 'prod': b, 'path': path, 'method': method}]
    for r in refs:
        if r['kind'] != 'data':
            r['spelling'] = rng.choice(['rel', 'rel', 'abs'])
        if r['kind'] == 'prodfile':
            w['out']['%d/%s' % (r['prod'], r['path'])] = [contents.pop(), 'file']
    if same_name:
        refs[0]['spelling'] = 'rel'
    # (the validation of the command line tends to reject the description when the short reference is listed first)
    if rng.random() < 0.7:
        refs.reverse()
    if rng.random() < 0.4:
        refs.insert(rng.randint(0, 2), {'kind': 'input', 'path': 'in0.txt', 'method': 'ref'})
    args = list(range(len(refs)))
    if rng.random() < 0.3:
        args.append(rng.randrange(len(refs)))
    for _ in range(rng.randint(0, 2)):
        args.append(rng.choice(WORDS))
    rng.shuffle(args)
    w['comps'].append({'name': rng.choice(['consumer', 'merge', 'B1']), 'stage': cstage, 'exe': rng.choice(EXES), 'refs': refs, 'args': args,
                       'backend': ('local',)})
    k = len(w['comps']) - 1
    w['comps'].append({'name': 'last', 'stage': cstage + rng.choice([0, 1]), 'exe': 'wc',
                       'refs': [{'kind': 'proddir', 'prod': k, 'path': '', 'method': 'ref', 'spelling': rng.choice(['rel', 'abs'])}],
                       'args': ['-l', 0], 'backend': ('local',)})
    return w, k


def chain_world(rng, length):
    """P0 -> P1 -> ... : each consumes out.txt of the previous one (fuzzy hash propagation)"""
    w = {'comps': [], 'inputs': {'in0.txt': ['hello', 'file']}, 'data': {'d0.txt': ['dd', 'file']}, 'datadirs': ['sub0'], 'out': {},
         'abs': {}}
    names = rng.sample(NAMES, length + 1)
    for i in range(length + 1):
        c = {'name': names[i], 'stage': 0 if i < 2 else 1, 'exe': rng.choice(EXES), 'refs': [], 'args': [rng.choice(WORDS)],
             'backend': ('local',)}
        if i == 0:
            c['refs'].append({'kind': 'input', 'path': 'in0.txt', 'method': 'ref'})
            c['args'].append(0)
        else:
            if rng.random() < 0.7:
                c['refs'].append({'kind': 'prodfile', 'prod': i - 1, 'path': 'out.txt', 'method': rng.choice(['ref', 'copy', 'output']),
                                  'spelling': 'rel'})
                w['out']['%d/out.txt' % (i - 1)] = [rng.choice(CONTENTS), 'file']
            else:
                c['refs'].append({'kind': 'proddir', 'prod': i - 1, 'path': '', 'method': 'ref', 'spelling': 'abs'})
            if c['refs'][0]['method'] in ('ref', 'output'):
                c['args'].append(0)
        w['comps'].append(c)
    return w


# ------------------------------------------------------------------ variants: exactly one aspect changes
def depends_on(w, i, k, visible_only=False):
    """component i consumes (transitively) from component k.  visible_only: follow only the references whose
    producer is reflected in the consumer's info (a file of the producer, or its folder named on the command line)"""
    todo, seen = [i], set()
    while todo:
        x = todo.pop()
        cx = w['comps'][x]
        for j, r in enumerate(cx['refs']):
            p = r.get('prod')
            if visible_only and p is not None:
                isfile = r['kind'] == 'prodfile' and w['out']['%d/%s' % (r['prod'], r['path'])][1] == 'file'
                if not isfile and j not in cx['args']:
                    continue
            if p is not None and p not in seen:
                if p == k:
                    return True
                seen.add(p)
                todo.append(p)
    return False


def variant(rng, w, kind, comp=None):
    """returns (world', description) or None when the aspect is not present in w"""
    v = copy.deepcopy(w)
    n = len(v['comps'])
    k = rng.randrange(n)
    if comp is not None:
        k = comp
    c = v['comps'][k]
    if kind == 'exe':
        c['exe'] = rng.choice([e for e in EXES if e != c['exe']])
        return v, {'aspect': 'exe', 'comp': k}
    if kind == 'arg':
        lits = [j for j, t in enumerate(c['args']) if isinstance(t, str)]
        if not lits:
            c['args'].append('new-arg')
        else:
            j = rng.choice(lits)
            c['args'][j] = rng.choice([x for x in WORDS if x != c['args'][j]])
        return v, {'aspect': 'arg', 'comp': k}
    if kind == 'image':
        if c['backend'][0] == 'local':
            c['backend'] = ('kubernetes', rng.choice(IMAGES))
        elif c['backend'][1] is None:
            c['backend'] = ('lsf', rng.choice(IMAGES))
        else:
            c['backend'] = (c['backend'][0], c['backend'][1] + '-b')
        return v, {'aspect': 'image', 'comp': k}
    if kind == 'backend_same_image':
        if c['backend'][0] == 'kubernetes':
            c['backend'] = ('lsf', c['backend'][1])
        elif c['backend'][0] == 'lsf' and c['backend'][1] is not None:
            c['backend'] = ('kubernetes', c['backend'][1])
        elif c['backend'][0] == 'lsf':
            c['backend'] = ('local',)
        else:
            c['backend'] = ('lsf', None)
        return v, {'aspect': 'backend_same_image', 'comp': None}
    if kind == 'method':
        cand = [j for j, r in enumerate(c['refs']) if r['kind'] in ('input', 'data', 'prodfile') and state_of(v, r)[1] is not None]
        if not cand:
            return None
        r = c['refs'][rng.choice(cand)]
        if r['method'] in ('ref', 'output'):
            alt = ['output' if r['method'] == 'ref' else 'ref'] if r['kind'] == 'prodfile' else []
        else:
            alt = ['copy' if r['method'] == 'link' else 'link']
        others = [m for m in alt if not any(q is not r and (q['kind'], q.get('prod'), q['path'], q['method']) ==
                                            (r['kind'], r.get('prod'), r['path'], m) for q in c['refs'])]
        if not others:
            return None
        r['method'] = rng.choice(others)
        return v, {'aspect': 'method', 'comp': k}
    if kind == 'content':
        cand = [r for r in c['refs'] if r['kind'] in ('input', 'data')]
        if not cand:
            return None
        r = rng.choice(cand)
        tbl = v['inputs'] if r['kind'] == 'input' else v['data']
        if tbl[r['path']][1] != 'file':
            return None
        tbl[r['path']][0] = tbl[r['path']][0] + '+changed'
        users = [i for i, cc in enumerate(v['comps']) if any(q['kind'] == r['kind'] and q['path'] == r['path'] for q in cc['refs'])]
        return v, {'aspect': 'content', 'comp': k, 'users': users}
    if kind == 'prodcontent':
        cand = [r for r in c['refs'] if r['kind'] == 'prodfile' and v['out']['%d/%s' % (r['prod'], r['path'])][1] == 'file']
        if not cand:
            return None
        r = rng.choice(cand)
        key = '%d/%s' % (r['prod'], r['path'])
        v['out'][key][0] = v['out'][key][0] + '+changed'
        users = [i for i, cc in enumerate(v['comps'])
                 if any(q['kind'] == 'prodfile' and '%d/%s' % (q['prod'], q['path']) == key for q in cc['refs'])]
        # components that take the whole folder of that producer through :copy / :link consume the file too
        folder_users = [i for i, cc in enumerate(v['comps'])
                        if i not in users and any(q['kind'] == 'proddir' and q['prod'] == r['prod'] and q['method'] in ('copy', 'link')
                                                  for q in cc['refs'])]
        return v, {'aspect': 'prodcontent', 'comp': k, 'users': users, 'folder_users': folder_users}
    if kind == 'missing':
        cand = [r for r in c['refs'] if r['kind'] in ('input', 'data', 'prodfile')]
        if not cand:
            return None
        r = rng.choice(cand)
        if r['kind'] == 'prodfile':
            v['out']['%d/%s' % (r['prod'], r['path'])][1] = 'missing'
        else:
            (v['inputs'] if r['kind'] == 'input' else v['data'])[r['path']][1] = 'missing'
        return v, {'aspect': 'missing', 'comp': k}
    if kind == 'rename':
        used = set(cc['name'] for cc in v['comps'])
        free = [x for x in NAMES + ['renamed', 'other5'] if x not in used]
        c['name'] = rng.choice(free)
        # ... or a name of which the name of another component is a tail (pre-gen next to gen)
        tails = [pre + x for x in sorted(used) if x != c['name'] for pre in ('pre-', 'a.') if pre + x not in used]
        if tails and rng.random() < 0.3:
            c['name'] = rng.choice(tails)
        return v, {'aspect': 'rename', 'comp': None}
    if kind == 'stage':
        for cc in v['comps']:
            cc['stage'] += 1
        v['comps'].append({'name': 'stagefiller', 'stage': 0, 'exe': 'true', 'refs': [], 'args': ['filler'], 'backend': ('local',)})
        return v, {'aspect': 'stage', 'comp': None}
    if kind == 'mtime':
        v['mtime'] = rng.choice([1000000000, 1234567890, 1500000000])
        return v, {'aspect': 'mtime', 'comp': None}
    if kind == 'location':
        return v, {'aspect': 'location', 'comp': None}
    raise ValueError(kind)


RELEVANT = ['exe', 'arg', 'image', 'method', 'content', 'prodcontent', 'missing']
IRRELEVANT = ['rename', 'stage', 'mtime', 'location', 'backend_same_image']


# ------------------------------------------------------------------ driving the implementation
class Recorder(object):
    """stands for the hashlib module inside experiment.model.graph: records what is fed to md5"""

    def __init__(self):
        self.last = None

    def md5(self, *a):
        rec = self
        real = hashlib.md5(*a)

        class H(object):
            def __init__(s):
                s.buf = b''.join(a)
                rec.last = s

            def update(s, data):
                s.buf += data
                real.update(data)

            def hexdigest(s):
                return real.hexdigest()
        return H()

    def __getattr__(self, name):
        return getattr(hashlib, name)


class Driver(object):
    def __init__(self):
        import experiment.model.graph as G
        import experiment.model.data as D
        import experiment.model.storage as S
        self.G, self.D, self.S = G, D, S
        self.tmp = tempfile.mkdtemp(prefix='verif_c16_')
        self.absdir = os.path.join(self.tmp, 'abs')
        os.makedirs(self.absdir)
        ABS['dir'] = self.absdir
        ABS['canon'] = '/ABSDIR' + 'X' * max(0, len(self.absdir) - len('/ABSDIR'))
        self.rec = Recorder()
        self._orig_hashlib = G.hashlib
        G.hashlib = self.rec
        self.cwd = os.getcwd()

    def close(self):
        self.G.hashlib = self._orig_hashlib
        ABS['dir'] = '/ABSDIR'      # 'canon' stays: terms of this run are printed after the driver is closed
        try:
            os.chdir(self.cwd)
        except Exception:
            pass
        shutil.rmtree(self.tmp, ignore_errors=True)

    def to_hash(self, info):
        """real _memoization_info_to_hash; returns (buffer, digest)"""
        self.rec.last = None
        h = self.G.ComponentSpecification._memoization_info_to_hash(info)
        if h is None:
            return None, None
        return self.rec.last.buf.decode('utf-8'), h

    def oracles(self, spec, w, c):
        """what the character-level model takes as given: the argument string the code starts from, the strings
        discover_reference_strings finds in it, and the order in which the code visits the references of c"""
        from experiment.model.frontends.flowir import FlowIR
        args = spec.commandDetails.get('arguments', '')
        comp_ids = spec.workflowGraph.configuration.get_flowir_concrete(False).get_component_identifiers(False, True)
        found = {}
        FlowIR.discover_reference_strings(args, spec.identification.stageIndex, comp_ids, found)
        drefs = sorted(spec.dataReferences, key=lambda d: len(d.stringRepresentation), reverse=True)
        names = [set([ref_string(w, r, 'abs'), ref_string(w, r, 'rel'), ref_string(w, r, ref_spelling(w, c, r))]) for r in c['refs']]
        absolute = [ref_string(w, r, 'abs') for r in c['refs']]
        order = []
        for d in drefs:
            # by the absolute reference (producers of the same name live in different stages), else by any spelling
            cands = [j for j, a in enumerate(absolute) if d.absoluteReference == a]
            if len(cands) != 1:
                cands = [j for j, ss in enumerate(names) if d.absoluteReference in ss or d.relativeReference in ss]
            if len(cands) != 1:
                raise ValueError('oracle: data reference %s of the implementation matches %d references of the world' % (
                    d.absoluteReference, len(cands)))
            order.append(cands[0])
        return {'args': canon_path(args), 'disc': sorted(canon_path(k) for k in found), 'order': order}

    def observe(self, w):
        """instantiate the world, set the file states, return per component (in world order) a dict
        {strong: (info, buf, hash), fuzzy: (...)}; replicated components yield one entry per replica"""
        loc = None
        try:
            exp, loc = self.instantiate(w)
            return self.ask(exp, w)
        finally:
            if loc:
                shutil.rmtree(loc, ignore_errors=True)

    def instantiate(self, w):
        """a real instance of the world with its file states set; returns (Experiment, scratch directory to remove)"""
        loc = os.path.join(self.tmp, uuid.uuid4().hex[:12])
        os.makedirs(loc)
        pkg = os.path.join(loc, 'p.package')
        os.makedirs(os.path.join(pkg, 'conf'))
        open(os.path.join(pkg, 'conf', 'flowir_package.yaml'), 'w').write(flowir_of(w))
        os.makedirs(os.path.join(pkg, 'data'))
        for name, (content, _st) in w['data'].items():
            open(os.path.join(pkg, 'data', name), 'w').write(content)
        for dname in w['datadirs']:
            os.makedirs(os.path.join(pkg, 'data', dname))
            open(os.path.join(pkg, 'data', dname, 'member.txt'), 'w').write('member')
        indir = os.path.join(loc, 'inputs')
        os.makedirs(indir)
        for name in os.listdir(self.absdir):
            os.remove(os.path.join(self.absdir, name))
        for name, (content, st) in w.get('abs', {}).items():
            if st == 'file':
                open(os.path.join(self.absdir, name), 'w').write(content)
        inputs = []
        for name, (content, _st) in sorted(w['inputs'].items()):
            open(os.path.join(indir, name), 'w').write(content)
            inputs.append(os.path.join(indir, name))
        try:
            package = self.S.ExperimentPackage.packageFromLocation(pkg)
            exp = self.D.Experiment.experimentFromPackage(package, location=loc, inputs=inputs)
            exp.validateExperiment(checkExecutables=False)
            inst = exp.instanceDirectory.location
            for name, (content, st) in w['inputs'].items():
                if st == 'missing':
                    os.remove(os.path.join(inst, 'input', name))
            for name, (content, st) in w['data'].items():
                if st == 'missing':
                    os.remove(os.path.join(inst, 'data', name))
            touched = [os.path.join(inst, 'input', n) for n, v in w['inputs'].items() if v[1] == 'file']
            touched += [os.path.join(inst, 'data', n) for n, v in w['data'].items() if v[1] == 'file']
            for key, (content, st) in w['out'].items():
                p, path = key.split('/', 1)
                c = w['comps'][int(p)]
                target = os.path.join(inst, 'stages', 'stage%d' % c['stage'], c['name'], path)
                if st == 'file':
                    if not os.path.isdir(os.path.dirname(target)):
                        os.makedirs(os.path.dirname(target))
                    open(target, 'w').write(content)
                    touched.append(target)
                elif st == 'dir':
                    os.makedirs(target)
            if w.get('mtime'):
                for t in touched:
                    os.utime(t, (w['mtime'], w['mtime']))
            return exp, loc
        except BaseException:
            shutil.rmtree(loc, ignore_errors=True)
            raise

    def ask(self, exp, w, sel=None, reset=False):
        """the memoization infos and hashes of the components of w (all, or those at the positions sel) on the objects of
        exp; reset: call memoization_reset() on every component of the graph first"""
        nodes = exp.experimentGraph.graph.nodes
        if reset:
            for lab in nodes:
                nodes[lab]['componentSpecification'].memoization_reset()
        res = []
        for i, c in enumerate(w['comps']):
            if sel is not None and i not in sel:
                continue
            labels = ['stage%d.%s' % (c['stage'], c['name'])]
            if c.get('replicate'):
                labels = ['stage%d.%s%d' % (c['stage'], c['name'], i) for i in range(c['replicate'])]
            for lab in labels:
                spec = nodes[lab]['componentSpecification']
                o = {'oracle': self.oracles(spec, w, c)}
                for flav, fz in (('strong', False), ('fuzzy', True)):
                    info = spec.memoization_info_fuzzy if fz else spec.memoization_info
                    h = spec.memoization_hash_fuzzy if fz else spec.memoization_hash
                    buf, h2 = self.to_hash(info)
                    if h2 != h:
                        buf = 'HASH-NOT-MD5-OF-BUFFER:%s' % buf
                    o[flav] = (canon_info(info), canon_path(buf), h)
                res.append(o)
        return res


def canon_path(s):
    return s.replace(ABS['dir'], ABS['canon']) if isinstance(s, str) and ABS['dir'] != '/ABSDIR' else s


def canon_info(info):
    if info is None:
        return None
    if not isinstance(info, dict) or sorted(info) != ['backend', 'command', 'files']:
        return {'malformed': repr(info)[:200]}
    b = info['backend']
    if sorted(b) not in ([], ['image']) or sorted(info['command']) != ['arguments', 'executable']:
        return {'malformed': repr(info)[:200]}
    return {'files': sorted(info['files']), 'exe': info['command']['executable'], 'args': canon_path(info['command']['arguments']),
            'image': b.get('image')}


# ------------------------------------------------------------------ Coq printing
def state_of(w, r):
    if r['kind'] == 'input':
        c, st = w['inputs'][r['path']]
    elif r['kind'] == 'abs':
        c, st = w['abs'][r['path']]
    elif r['kind'] == 'data':
        c, st = w['data'][r['path']]
    elif r['kind'] in ('datadir', 'proddir'):
        return 'FDir', None
    else:
        c, st = w['out']['%d/%s' % (r['prod'], r['path'])]
    if st == 'file':
        return '(FFile %s)' % cstr(c), c
    return ('FMissing' if st == 'missing' else 'FDir'), None


def model_comps(w):
    """the world as a list of Model.comp terms (replicated components expand to their replicas) and the contents seen"""
    # positions of the world's components in the expanded list
    pos, n = [], 0
    for c in w['comps']:
        pos.append(n)
        n += c.get('replicate') or 1
    terms, contents = [], []
    for c in w['comps']:
        refs = []
        for r in c['refs']:
            st, content = state_of(w, r)
            if content is not None:
                contents.append(content)
            if r['kind'] in ('prodfile', 'proddir'):
                p = w['comps'][r['prod']]
                loc = 'stages/stage%d/%s/%s' % (p['stage'], p['name'], r['path'])
                prod = '(Some %s)' % cnat(pos[r['prod']])
            elif r['kind'] == 'abs':
                loc = ABS['canon'] + '/' + r['path']
                prod = 'None'
            else:
                loc = ('input/' if r['kind'] == 'input' else 'data/') + r['path']
                prod = 'None'
            refs.append('{| d_key := %s; d_text := %s; d_location := %s; d_mtime := %s; d_prod := %s; d_fileref := %s; '
                        'd_method := %s; d_state := %s |}' % (
                            cstr(ref_string(w, r, 'abs', True)), cstr(ref_string(w, r, ref_spelling(w, c, r), True)), cstr(loc),
                            cZ(w.get('mtime') or 0), prod, cstr(r['path'] if r['kind'] == 'prodfile' else ''),
                            cstr(r['method']), st))
        toks = []
        for j, t in enumerate(c['args']):
            if j:
                toks.append('TLit " "')
            if isinstance(t, int):
                toks.append('TRef %s' % cnat(t))
            elif isinstance(t, (list, tuple)):
                toks += ['TRef %s' % cnat(t[1]), 'TLit %s' % cstr(t[2])]
            else:       # one token per blank-separated word
                for n, word in enumerate(t.split(' ')):
                    if n:
                        toks.append('TLit " "')
                    toks.append('TLit %s' % cstr(word))
        b = c['backend']
        be = 'BLocal' if b[0] == 'local' else ('BKube %s' % cstr(b[1]) if b[0] == 'kubernetes' else 'BLsf %s' % cstr(b[1] or ''))
        for k in range(c.get('replicate') or 1):
            name = c['name'] + (str(k) if c.get('replicate') else '')
            terms.append('{| c_name := %s; c_stage := %s; c_location := "instance"; c_exe := %s; c_args := %s; c_refs := %s; '
                         'c_backend := %s |}' % (cstr(name), cZ(c['stage']), cstr(c['exe']), clist(toks), clist(refs), be))
    return terms, contents


def coq_obs(o):
    info, buf, h = o
    if info is None:
        ci = 'None'
    else:
        ci = '(Some (%s, %s, %s, %s))' % (clist(info['files'], cstr), cstr(info['exe']), cstr(info['args']),
                                          copt(info['image'], cstr))
    return '(%s, %s, %s)' % (ci, copt(buf, cstr), copt(h, cstr))


def boundary_world(w):
    """some reference is written where \\b does not hold at both of its ends (class of F16c)"""
    return any(boundary_refs(w, c) for c in w['comps'])


def boundary_refs(w, c):
    """indices of the references of c that the arguments use at a place without word boundaries: the spelling starts
    with a non-word character (absolute path), or is directly followed by a word character"""
    out = set()
    for t in c['args']:
        if isinstance(t, int) and c['refs'][t]['kind'] == 'abs':
            out.add(t)
        if isinstance(t, (list, tuple)) and re.match(r'\w', t[2]):
            out.add(t[1])
    return out


def code_order(w, c):
    """the order in which the code visits the references of c (mirror of Memo.Model.code_order): direct references before
    references to components, then stable by decreasing length of the absolute reference string"""
    idx = [j for j, r in enumerate(c['refs']) if r['kind'] not in ('prodfile', 'proddir')]
    idx += [j for j, r in enumerate(c['refs']) if r['kind'] in ('prodfile', 'proddir')]
    return sorted(idx, key=lambda j: -len(ref_string(w, c['refs'][j], 'abs', True)))


def used_refs(c):
    return sorted(set(t if isinstance(t, int) else t[1] for t in c['args'] if not isinstance(t, str)))


def tail_first_refs(w, c):
    """class of F16e: pairs (j1, j2) of references on the command line of c such that the spelling of j1 occurs, between word
    boundaries, in the different spelling of j2, and the code visits j1 before j2 (its sort key is the length of the ABSOLUTE
    string): j1 is substituted inside j2"""
    order = code_order(w, c)
    out = []
    used = used_refs(c)
    for j1 in used:
        for j2 in used:
            s1, s2 = (ref_string(w, c['refs'][j], ref_spelling(w, c, c['refs'][j]), True) for j in (j1, j2))
            if s1 != s2 and re.search(r'\b' + re.escape(s1) + r'\b', s2) and order.index(j1) < order.index(j2):
                out.append((j1, j2))
    return out


def tail_pairs(w, c):
    """pairs of references on the command line of c, the spelling of one occurring between word boundaries in the other"""
    out = []
    used = used_refs(c)
    for j1 in used:
        for j2 in used:
            s1, s2 = (ref_string(w, c['refs'][j], ref_spelling(w, c, c['refs'][j]), True) for j in (j1, j2))
            if s1 != s2 and re.search(r'\b' + re.escape(s1) + r'\b', s2):
                out.append((j1, j2))
    return out


def fuzzy_inner_refs(w, c):
    """class of F16e: pairs (j2, j1) of references on the command line of c such that the fuzzy replacement of j2 (a file made by a
    producer: file:fuzzy#<hash of the producer>#<path below the producer>:<method>) contains, between word boundaries, the spelling of
    j1, and the code visits j1 after j2: j1 is substituted inside the replacement of j2"""
    order = code_order(w, c)
    out = []
    used = used_refs(c)
    for j2 in used:
        r2 = c['refs'][j2]
        if r2['kind'] != 'prodfile' or state_of(w, r2)[1] is None:
            continue
        for j1 in used:
            s1 = ref_string(w, c['refs'][j1], ref_spelling(w, c, c['refs'][j1]), True)
            if j1 != j2 and re.search(r'\b' + re.escape(s1) + r'\b', '#%s:%s' % (r2['path'], r2['method'])) and \
                    order.index(j2) < order.index(j1):
                out.append((j2, j1))
    return out


def tail_first_world(w):
    return any(tail_first_refs(w, c) for c in w['comps'])


def fuzzy_inner_world(w):
    return any(fuzzy_inner_refs(w, c) for c in w['comps'])


def expected_arguments(w, c, flav, obs):
    """the command line of c with every reference replaced by the hash of what it refers to (mirror of Memo.Model.args_of):
    None when it is not defined here (a reference outside word boundaries: F16c, checked elsewhere; a producer without hash)"""
    out = []
    for t in c['args']:
        if isinstance(t, str):
            out.append(t)
            continue
        if not isinstance(t, int):
            return None
        r = c['refs'][t]
        if r['kind'] == 'abs':
            return None
        st, content = state_of(w, r)
        p = r.get('prod')
        if st == 'FMissing':
            return None
        if content is not None:
            if flav == 'strong' or p is None:
                h = hashlib.md5(content.encode('utf-8')).hexdigest()
            else:
                if obs[p]['fuzzy'][2] is None:
                    return None
                h = 'fuzzy#%s#%s' % (obs[p]['fuzzy'][2], r['path'])
            out.append('file:%s:%s' % (h, r['method']))
        elif p is None:
            out.append(ref_string(w, r, ref_spelling(w, c, r), True))      # a folder of the package: as written
        else:
            if obs[p][flav][2] is None:
                return None
            out.append('%s:%s:%s' % ('producer' if flav == 'strong' else 'fuzzy', obs[p][flav][2], r['method']))
    return ' '.join(out)


def coq_case(w, obs):
    comps, contents = model_comps(w)
    if len(comps) != len(obs):
        raise ValueError('observations and model components differ in number')
    comps = ['(%s, (%s, %s))' % (cm, clist(o['oracle']['disc'], cstr), clist(o['oracle']['order'], cnat)) for cm, o in zip(comps, obs)]
    tbl = {}
    for c in contents:
        tbl[c] = hashlib.md5(c.encode('utf-8')).hexdigest()
    for o in obs:
        for flav in ('strong', 'fuzzy'):
            buf = o[flav][1]
            if buf is not None:
                # a buffer that names the scratch directory of the absolute-path files was canonicalised: its digest is
                # the one observed (observe() checked that it is the md5 of the real buffer)
                tbl[buf] = o[flav][2] if '/ABSDIR' in buf else hashlib.md5(buf.encode('utf-8')).hexdigest()
    t = clist(['(%s, %s)' % (cstr(k), cstr(v)) for k, v in sorted(tbl.items())])
    return '(%s, %s, (%s, %s))' % (t, clist(comps), clist([coq_obs(o['strong']) for o in obs]),
                                   clist([coq_obs(o['fuzzy']) for o in obs]))


# ------------------------------------------------------------------ the property on the implementation's outputs
def declared_fields(c):
    f = [c['exe']] + [t if isinstance(t, str) else t[2] for t in c['args'] if not isinstance(t, int)]
    if len(c['backend']) > 1 and c['backend'][1]:
        f.append(c['backend'][1])
    return f


def has_keyword(c):
    return any(k in f for f in declared_fields(c) for k in KEYWORDS)


def malformed(obs):
    return any(isinstance(o[f][0], dict) and 'malformed' in o[f][0] or (o[f][1] or '').startswith('HASH-NOT-MD5')
               for o in obs for f in ('strong', 'fuzzy'))


def has_missing(w, c):
    return any(state_of(w, r)[0] == 'FMissing' for r in c['refs'])


def check_world(ctx, w, obs, tag):
    """statements about a single world"""
    if sum(c.get('replicate') or 1 for c in w['comps']) != len(obs):
        return
    if any(c.get('replicate') for c in w['comps']):
        return
    for i, c in enumerate(w['comps']):
        for flav in ('strong', 'fuzzy'):
            info, buf, h = obs[i][flav]
            if has_missing(w, c) and (h is not None or info is not None):
                ctx.fail({'world': w, 'comp': i, 'flavour': flav, 'tag': tag},
                         'a %s hash is produced while a referenced input is missing' % flav, [])
            if (h is None) != (info is None):
                ctx.fail({'world': w, 'comp': i, 'flavour': flav, 'tag': tag}, 'hash and info disagree on being available', [])
        # the executable recorded is the component's own (F16b, repaired)
        info = obs[i]['strong'][0]
        if info is not None and 'exe' in info and info['exe'] != c['exe']:
            ctx.fail({'world': w, 'comp': i, 'tag': tag},
                     'the hash of a component records the executable of another component (blueprint looked up by stripping digits)', [])
        if info is None and not has_missing(w, c) and not c['refs']:
            ctx.fail({'world': w, 'comp': i, 'tag': tag},
                     'a component without references gets no memoization hash (blueprint lookup failed)', [])
        # every reference on the command line is replaced by a hash of what it refers to (a folder of the package has
        # none and stays as written)
        bref = boundary_refs(w, c)
        for flav in ('strong', 'fuzzy'):
            info = obs[i][flav][0]
            if info is None or 'args' not in info:
                continue
            # the arguments recorded are the command line after EACH reference has been replaced by the hash of what IT refers to
            want = expected_arguments(w, c, flav, obs)
            if want is not None and info['args'] != want:
                ctx.fail({'world': w, 'comp': i, 'flavour': flav, 'tag': tag, 'arguments': info['args'], 'expected': want},
                         'the arguments in the %s memoization info are not the command line with each reference replaced by the hash '
                         'of what it refers to (a piece of a reference survives / the hash of another file stands for it): the hash '
                         'depends on names' % flav,
                         (['reference_tail_of_reference_visited_first'] if tail_first_refs(w, c) else []) +
                         (['reference_inside_fuzzy_replacement'] if flav == 'fuzzy' and fuzzy_inner_refs(w, c) else []))
            for t in c['args']:
                j = t if isinstance(t, int) else (t[1] if isinstance(t, (list, tuple)) else None)
                if j is None or c['refs'][j]['kind'] == 'datadir':
                    continue
                r = c['refs'][j]
                if ref_string(w, r, ref_spelling(w, c, r), True) in info['args']:
                    ctx.fail({'world': w, 'comp': i, 'flavour': flav, 'tag': tag, 'reference': ref_string(w, r, ref_spelling(w, c, r), True),
                              'arguments': info['args']},
                             'a reference on the command line is not replaced by the hash of what it refers to: the %s hash depends on the '
                             'spelling (path, producer name) instead of the contents' % flav,
                             ['reference_not_at_word_boundaries'] if j in bref else [])
                    break


def pairs_sound(ctx, entries):
    """soundness over every pair of observed components (of all worlds of a family): equal strong hash only
    for equal (executable, arguments', files, image)"""
    by_hash = {}
    for (w, i, tag, o) in entries:
        for flav in ('strong', 'fuzzy'):
            info, buf, h = o[flav]
            if h is None or info is None or 'malformed' in info:
                continue
            by_hash.setdefault((flav, h), []).append((w, i, tag, info, buf))
    for (flav, h), group in by_hash.items():
        first = group[0]
        for other in group[1:]:
            if other[3] != first[3]:
                c1, c2 = first[0]['comps'][first[1]], other[0]['comps'][other[1]]
                classes = []
                if first[4] == other[4] and (has_keyword(c1) or has_keyword(c2)):
                    classes = ['serialisation_keyword_in_field']
                ctx.fail({'world_a': first[0], 'comp_a': first[1], 'world_b': other[0], 'comp_b': other[1], 'flavour': flav,
                          'info_a': first[3], 'info_b': other[3], 'buffer': first[4]},
                         'two components that differ in executable/arguments/files/image receive the same %s memoization hash' % flav,
                         classes)
                break


def check_variant(ctx, base, bobs, v, vobs, d):
    """statements about a base world and a variant differing in exactly one aspect"""
    aspect, k = d['aspect'], d.get('comp')
    n = len(base['comps'])
    case = {'base': base, 'variant': v, 'aspect': d}
    if aspect in IRRELEVANT:
        for i in range(n):
            # F16c: an unreplaced reference spells the stage and the name of its producer; consumers inherit the hash
            tainted = aspect in ('rename', 'stage') and any(
                any(base['comps'][x]['refs'][j]['kind'] in ('prodfile', 'proddir') for j in boundary_refs(base, base['comps'][x]))
                and (x == i or depends_on(base, i, x)) for x in range(n))
            # a reference substituted inside another one leaves a piece of a stage index / producer name (not reachable: the
            # validation of the command line rejects such descriptions); F16e: ... inside the fuzzy replacement of another one
            tail = aspect in ('rename', 'stage') and any(
                (tail_first_refs(base, base['comps'][x]) or tail_first_refs(v, v['comps'][x])) and (x == i or depends_on(base, i, x))
                for x in range(n))
            inner = aspect in ('rename', 'stage') and any(
                (fuzzy_inner_refs(base, base['comps'][x]) or fuzzy_inner_refs(v, v['comps'][x])) and (x == i or depends_on(base, i, x))
                for x in range(n))
            for flav in ('strong', 'fuzzy'):
                if bobs[i][flav][2] != vobs[i][flav][2]:
                    ctx.fail(dict(case, comp=i, flavour=flav),
                             'the %s memoization hash depends on a hash-irrelevant aspect (%s)' % (flav, aspect),
                             (['reference_not_at_word_boundaries'] if tainted else []) +
                             (['reference_tail_of_reference_visited_first'] if tail else []) +
                             (['reference_inside_fuzzy_replacement'] if inner and flav == 'fuzzy' else []))
        return
    if aspect == 'missing':
        return      # covered by check_world on the variant
    kw = has_keyword(base['comps'][k]) or has_keyword(v['comps'][k])
    for i in range(n):
        for flav in ('strong', 'fuzzy'):
            hb, hv = bobs[i][flav][2], vobs[i][flav][2]
            if hb is None or hv is None:
                continue
            if aspect == 'prodcontent':
                # the contents of a file made by a producer: strong hash of every consumer of the file changes,
                # fuzzy hashes do not move at all
                if flav == 'fuzzy' and hb != hv:
                    ctx.fail(dict(case, comp=i, flavour=flav),
                             'the fuzzy hash depends on the contents of a file produced by another component', [])
                if flav == 'strong' and i in d['users'] and hb == hv:
                    ctx.fail(dict(case, comp=i, flavour=flav),
                             'the strong hash does not change with the contents of a consumed file', [])
                if flav == 'strong' and i in d.get('folder_users', []) and hb == hv:
                    ctx.fail(dict(case, comp=i, flavour=flav),
                             'the strong hash does not change with the contents of a file consumed through a copied/linked folder of '
                             'its producer', ['producer_folder_copied_or_linked'])
                continue
            changed_here = (i == k) if aspect != 'content' else (i in d['users'])
            if changed_here and hb == hv:
                cls = ['serialisation_keyword_in_field'] if (kw and bobs[i][flav][1] == vobs[i][flav][1]) else []
                ctx.fail(dict(case, comp=i, flavour=flav),
                         'the %s memoization hash does not change with a hash-relevant aspect (%s)' % (flav, aspect), cls)
            roots = [k] if aspect != 'content' else d['users']
            dep = any(depends_on(base, i, x) for x in roots)
            if not changed_here and not dep and hb != hv:
                ctx.fail(dict(case, comp=i, flavour=flav),
                         'the %s hash of a component changes although neither it nor any of its producers changed (%s)' % (flav, aspect), [])
            vdep = any(depends_on(base, i, x, True) for x in roots)
            if flav == 'fuzzy' and vdep and not changed_here and hb == hv:
                # the fuzzy hash of a producer changed (checked above for the roots): consumers follow
                if all(bobs[x]['fuzzy'][2] != vobs[x]['fuzzy'][2] for x in roots
                       if bobs[x]['fuzzy'][2] is not None and vobs[x]['fuzzy'][2] is not None):
                    ctx.fail(dict(case, comp=i, flavour=flav),
                             'the fuzzy hash of a consumer does not change when the fuzzy hash of a producer changes (%s)' % aspect, [])


# ------------------------------------------------------------------ corpus
def corpus_worlds():
    loc = ('local',)
    base = {'inputs': {'in0.txt': ['hello', 'file']}, 'data': {'d0.txt': ['dd', 'file']}, 'datadirs': ['sub0'], 'out': {}}
    # F16: the witness of DESIGN.md, checked against the real code
    f16 = dict(copy.deepcopy(base), comps=[
        {'name': 'A', 'stage': 0, 'exe': 'foo', 'refs': [], 'args': ['-x executable'], 'backend': loc},
        {'name': 'B1', 'stage': 0, 'exe': 'executablefoo', 'refs': [], 'args': ['-x '], 'backend': loc}])
    # F16b (repaired): non-replica names ending in digits
    f16b = dict(copy.deepcopy(base), comps=[
        {'name': 'step', 'stage': 0, 'exe': 'cat', 'refs': [], 'args': ['zzz'], 'backend': loc},
        {'name': 'step7', 'stage': 0, 'exe': 'echo', 'refs': [], 'args': ['b'], 'backend': loc},
        {'name': 'lone9', 'stage': 0, 'exe': 'ls', 'refs': [{'kind': 'proddir', 'prod': 1, 'path': '', 'method': 'ref', 'spelling': 'rel'}],
         'args': ['-l', 0], 'backend': loc}])
    # replicas of a blueprint whose own name ends in a digit
    f16c = dict(copy.deepcopy(base), comps=[
        {'name': 'step', 'stage': 0, 'exe': 'cat', 'refs': [], 'args': ['zzz'], 'backend': loc},
        {'name': 'step7', 'stage': 0, 'exe': 'echo', 'refs': [], 'args': ['b'], 'backend': loc, 'replicate': 2}])
    # ... and whose replica index ends in that digit (sim1 -> sim11, w3 -> w33) next to a component named like the
    # blueprint without its digit: the replica must be hashed with ITS blueprint's executable
    f16d = dict(copy.deepcopy(base), comps=[
        {'name': 'sim', 'stage': 0, 'exe': 'cat', 'refs': [], 'args': ['zzz'], 'backend': loc},
        {'name': 'sim1', 'stage': 0, 'exe': 'echo', 'refs': [], 'args': ['b'], 'backend': loc, 'replicate': 2}])
    f16e = dict(copy.deepcopy(base), comps=[
        {'name': 'w3', 'stage': 0, 'exe': 'ls', 'refs': [], 'args': ['-l'], 'backend': loc, 'replicate': 4},
        {'name': 'w', 'stage': 0, 'exe': 'cat', 'refs': [], 'args': ['q'], 'backend': loc}])
    return [('F16', f16), ('F16b', f16b), ('F16b-replicas', f16c), ('F16b-replicas', f16d), ('F16b-replicas', f16e)]


def corpus_families():
    """witnesses of F16c (references where \\b does not hold) and F16d (producer folder through :copy)"""
    loc = ('local',)
    base = {'inputs': {'in0.txt': ['hello', 'file']}, 'data': {'d0.txt': ['dd', 'file']}, 'datadirs': ['sub0'], 'out': {}, 'abs': {}}
    fabs = dict(copy.deepcopy(base), abs={'a.txt': ['AAA', 'file'], 'b.txt': ['AAA', 'file']}, comps=[
        {'name': 'A', 'stage': 0, 'exe': 'cat', 'refs': [{'kind': 'abs', 'path': 'a.txt', 'method': 'ref'}], 'args': ['-n', 0], 'backend': loc},
        {'name': 'B1', 'stage': 0, 'exe': 'cat', 'refs': [{'kind': 'abs', 'path': 'b.txt', 'method': 'ref'}], 'args': ['-n', 0], 'backend': loc}])
    fglue = dict(copy.deepcopy(base), out={'0/out.txt': ['OUT', 'file']}, comps=[
        {'name': 'gen', 'stage': 0, 'exe': 'echo', 'refs': [], 'args': ['x'], 'backend': loc},
        {'name': 'step', 'stage': 0, 'exe': 'cat',
         'refs': [{'kind': 'prodfile', 'prod': 0, 'path': 'out.txt', 'method': 'ref', 'spelling': 'rel'},
                  {'kind': 'input', 'path': 'in0.txt', 'method': 'ref'}],
         'args': [['glue', 0, '_1'], 0, ['glue', 1, 'X'], 1, ['glue', 1, '.bak']], 'backend': loc}])
    fcopy = dict(copy.deepcopy(base), out={'0/out.txt': ['OUT', 'file']}, comps=[
        {'name': 'gen', 'stage': 0, 'exe': 'echo', 'refs': [], 'args': ['x'], 'backend': loc},
        {'name': 'step', 'stage': 0, 'exe': 'cat', 'refs': [{'kind': 'prodfile', 'prod': 0, 'path': 'out.txt', 'method': 'ref', 'spelling': 'rel'}],
         'args': [0], 'backend': loc},
        {'name': 'w', 'stage': 0, 'exe': 'ls', 'refs': [{'kind': 'proddir', 'prod': 0, 'path': '', 'method': 'copy', 'spelling': 'rel'}],
         'args': ['-l'], 'backend': loc}])
    vcopy = copy.deepcopy(fcopy)
    vcopy['out']['0/out.txt'][0] = 'OUT+changed'
    fams = [('F16c-abs', fabs, []), ('F16c-glue', fglue, []),
            ('F16d', fcopy, [(vcopy, {'aspect': 'prodcontent', 'comp': 1, 'users': [1], 'folder_users': [2]})])]

    # the order of the rewriting: two references of which one is a tail of the other (at '-', '.', '/')
    def two(first, second, path2='out.txt', spell2='rel'):
        return dict(copy.deepcopy(base), out={'0/out.txt': ['ONE', 'file'], '1/%s' % path2: ['TWO', 'file']}, comps=[
            {'name': first, 'stage': 0, 'exe': 'echo', 'refs': [], 'args': ['x'], 'backend': loc},
            {'name': second, 'stage': 0, 'exe': 'echo', 'refs': [], 'args': ['zzz'], 'backend': loc},
            {'name': 'consumer', 'stage': 0, 'exe': 'cat',
             'refs': [{'kind': 'prodfile', 'prod': 0, 'path': 'out.txt', 'method': 'ref', 'spelling': 'rel'},
                      {'kind': 'prodfile', 'prod': 1, 'path': path2, 'method': 'ref', 'spelling': spell2}],
             'args': [1, '-q', 0], 'backend': loc},
            {'name': 'last', 'stage': 1, 'exe': 'wc', 'refs': [{'kind': 'proddir', 'prod': 2, 'path': '', 'method': 'ref'}],
             'args': [0], 'backend': loc}])
    # (the third one is the witness of F16e: the fuzzy replacement of outer/gen/out.txt:ref ends in gen/out.txt:ref)
    for first, second, path2, spell2 in (('gen', 'pre-gen', 'out.txt', 'rel'), ('gen', 'pre.gen', 'out.txt', 'rel'),
                                         ('gen', 'outer', 'gen/out.txt', 'rel'), ('gen', 'pre-gen', 'out.txt', 'abs')):
        t = two(first, second, path2, spell2)
        # the long reference is listed first (listed second, the validation of the command line rejects the description)
        t['comps'][2]['refs'].reverse()
        t['comps'][2]['args'] = [0, '-q', 1]
        # the same work with producers of unrelated names: same hashes
        v = copy.deepcopy(t)
        v['comps'][0]['name'], v['comps'][1]['name'] = 'alpha', 'beta'
        fams.append(('tail', t, [(v, {'aspect': 'rename', 'comp': None})]))
    # producers called gen in stage 0 and in stage 1, the consumer of stage 1 lists the relative reference first: the code would
    # substitute it inside stage0.gen/out.txt:ref (Refuted.C16_sort_key_refuted), but the validation of the command line rejects
    # the description (counted as rejected); listed second there is no defect
    same = dict(copy.deepcopy(base), out={'0/out.txt': ['ONE', 'file'], '1/out.txt': ['TWO', 'file']}, comps=[
        {'name': 'gen', 'stage': 0, 'exe': 'echo', 'refs': [], 'args': ['x'], 'backend': loc},
        {'name': 'gen', 'stage': 1, 'exe': 'echo', 'refs': [], 'args': ['zzz'], 'backend': loc},
        {'name': 'consumer', 'stage': 1, 'exe': 'cat',
         'refs': [{'kind': 'prodfile', 'prod': 1, 'path': 'out.txt', 'method': 'ref', 'spelling': 'rel'},
                  {'kind': 'prodfile', 'prod': 0, 'path': 'out.txt', 'method': 'ref'}],
         'args': [0, 1], 'backend': loc}])
    swapped = copy.deepcopy(same)
    swapped['comps'][2]['refs'].reverse()
    swapped['comps'][2]['args'] = [1, 0]
    fams.append(('same-name', same, []))
    fams.append(('same-name-listed-second', swapped, []))
    return fams


def run_resub(ctx, n):
    """re.sub(r'\\b' + re.escape(ref) + r'\\b', replacement, text) alone against Memo.Model.resub"""
    rng = ctx.rng
    alpha = ['a', 'b', 'a', '/', ':', '.', ' ', '_', '-', '=', '1', 'Z']
    cases = []
    for _ in range(n):
        ref = ''.join(rng.choice(alpha) for _ in range(rng.randint(1, 4)))
        rp = ''.join(rng.choice(alpha + ['#']) for _ in range(rng.randint(0, 4)))
        parts = []
        for _ in range(rng.randint(0, 5)):
            parts.append(ref if rng.random() < 0.5 else ''.join(rng.choice(alpha) for _ in range(rng.randint(0, 3))))
        text = ''.join(parts)
        out = re.sub(re.compile(r'\b' + re.escape(ref) + r'\b'), rp, text)
        cases.append((ref, rp, text, out))
        ctx.case(['resub', ref, rp, text], out != text)
        ctx.count('resub_cases')
        ctx.count('resub_%s' % ('replaced' if out != text else ('occurs_unreplaced' if ref in text else 'absent')))
    bad = ctx.model_mismatches(HEADER, ['(%s, %s, %s, %s)' % tuple(cstr(x) for x in c) for c in cases], 'check_resub', chunk=500, name='resub')
    for i in bad:
        ctx.disagree({'resub': cases[i][:3]}, cases[i][3], '', 'C16 re.sub with word boundaries vs Memo.Model.resub')


# ------------------------------------------------------------------ the traversal alone
def gen_jv(rng, depth):
    x = rng.random()
    if depth <= 0 or x < 0.35:
        return rng.choice([rng.choice(WORDS + KW_WORDS + ['', 'b', 'a']), rng.randint(-50, 5000), True, False, None, 0.5, 2.25,
                           'files', 'image'])
    if x < 0.55:
        return [rng.choice(WORDS + ['a', 'b', 'ab', 'B', 'a b', '']) for _ in range(rng.randint(0, 4))]
    keys = rng.sample(['a', 'b', 'ab', 'files', 'command', 'backend', 'image', 'B', 'z', 'arguments', 'executable', 'a1', 'a10', 'a2'],
                      rng.randint(0, 4))
    return {k: gen_jv(rng, depth - 1) for k in keys}


def run_traversal(ctx, drv, n):
    rng = ctx.rng
    cases = []
    for _ in range(n):
        v = gen_jv(rng, 3)
        try:
            buf, _h = drv.to_hash(v)
        except Exception as e:
            buf = 'EXC:' + type(e).__name__
        if v is None:
            continue
        cases.append((v, buf))
        ctx.case(['traversal', v], isinstance(v, dict) and any(isinstance(x, (dict, list)) for x in v.values()))
        ctx.count('traversal_cases')
    bad = ctx.model_mismatches(HEADER, [cpair(cjv(v), copt(b, cstr)) for v, b in cases], 'check_ser', chunk=400, name='ser')
    for i in bad:
        v, b = cases[i]
        ctx.disagree({'value': v}, b, ctx.model_eval(HEADER, 'ser_jv %s' % cjv(v)) if len(ctx.disagreements) < 3 else '',
                     'C16 traversal: _memoization_info_to_hash buffer vs Memo.Model.ser_jv')


# ------------------------------------------------------------------ sessions: hashes asked for repeatedly while files change
SESSION_TIMES = ['keep', 'keep', 'keep', 'same_second', 'same_second', 'natural', 'natural', 'later', 'later', 'earlier']
TIME_Z = {'keep': 0, 'same_second': 0, 'natural': 1, 'later': 5, 'earlier': -7}


def session_paths(w):
    """the paths of the world that some component references as a file: (table, key)"""
    used = set()
    for c in w['comps']:
        for r in c['refs']:
            if r['kind'] in ('input', 'data'):
                used.add(('inputs' if r['kind'] == 'input' else 'data', r['path']))
            elif r['kind'] == 'prodfile':
                used.add(('out', '%d/%s' % (r['prod'], r['path'])))
    return sorted(t for t in used if w[t[0]][t[1]][1] in ('file', 'missing'))


def same_size_other(rng, content):
    """different contents of exactly the same length (None for the empty string)"""
    if not content:
        return None
    j = rng.randrange(len(content))
    return content[:j] + rng.choice([x for x in 'abXZ019 ' if x != content[j]]) + content[j + 1:]


def closure(w, sel):
    """the components whose objects hold a hash after the components sel were asked: sel and their producers"""
    out = set(sel)
    for i in sel:
        out |= set(k for k in range(len(w['comps'])) if depends_on(w, i, k))
    return out


def consumed_paths(w, comps):
    out = set()
    for i in comps:
        for r in w['comps'][i]['refs']:
            if r['kind'] in ('input', 'data'):
                out.add(('inputs' if r['kind'] == 'input' else 'data', r['path']))
            elif r['kind'] == 'prodfile':
                out.add(('out', '%d/%s' % (r['prod'], r['path'])))
    return out


def gen_session(rng, base=None):
    """a world, an optional first ask of some of its components, then rounds of (writes to referenced paths, an ask):
    the writes replace the contents in place (same size / other size / the same contents / removal / creation) and
    keep the modification time, move it within the second, leave it to the clock, or move it forward / backward; the ask
    is made on the same objects after memoization_reset() (reset), on the objects of a new Experiment built on the
    same instance directory (fresh), or on components that neither were asked before nor consume from one that was (other)"""
    w = base if base is not None else gen_world(rng)
    n = len(w['comps'])
    sess = {'world': w, 'first': None, 'rounds': []}
    x = rng.random()
    if x < 0.45:
        sess['first'] = list(range(n))
    elif x < 0.9:
        # (an ask of a consumer computes its producers too: the selection is closed under "consumes from")
        sess['first'] = sorted(closure(w, rng.sample(range(n), rng.randint(1, max(1, n - 1)))))
    cur = copy.deepcopy(w)
    asked = closure(w, sess['first'] or [])
    written = set()
    for rnd in range(rng.choice([1, 1, 2, 2, 3])):
        paths = session_paths(cur)
        if not paths:
            break
        writes = []
        for t in rng.sample(paths, min(len(paths), rng.choice([1, 1, 1, 2]))):
            content, st = cur[t[0]][t[1]]
            k = rng.random()
            if st == 'missing':
                wr = {'content': rng.choice(CONTENTS), 'state': 'file', 'kind': 'create'}
            elif k < 0.55 and same_size_other(rng, content) is not None:
                wr = {'content': same_size_other(rng, content), 'state': 'file', 'kind': 'same_size'}
            elif k < 0.75:
                wr = {'content': content + rng.choice(['+more', 'Q']), 'state': 'file', 'kind': 'other_size'}
            elif k < 0.88:
                wr = {'content': content, 'state': 'file', 'kind': 'same_contents'}
            else:
                wr = {'content': content, 'state': 'missing', 'kind': 'remove'}
            wr.update(table=t[0], key=t[1], time=rng.choice(SESSION_TIMES))
            cur[t[0]][t[1]] = [wr['content'], wr['state']]
            written.add(t)
            writes.append(wr)
        # components never asked, whose producers that were asked (their objects keep their hash: no reset) consume,
        # directly or not, none of the paths written so far
        other = [i for i in range(n) if i not in asked and
                 not any(consumed_paths(cur, closure(cur, [p])) & written for p in closure(cur, [i]) & asked)]
        view = rng.choice(['reset', 'fresh', 'other', 'other'] if other else ['reset', 'fresh'])
        sel = sorted(closure(cur, other)) if view == 'other' else list(range(n))
        sess['rounds'].append({'writes': writes, 'view': view, 'sel': sel})
        asked = set(sel) | asked
    return sess if sess['rounds'] else None


def corpus_sessions():
    """the boundary: a producer overwrites its fixed-width result in place within the same second between the asks of two
    consumers (one asked before, reset; one never asked); the same with a longer result a while later; an input patched
    in place and seen by a new Experiment object"""
    loc = ('local',)

    def world():
        return {'inputs': {'in0.txt': ['hello', 'file']}, 'data': {'d0.txt': ['dd', 'file']}, 'datadirs': ['sub0'],
                'out': {'0/out.txt': ['energy: 0.1111', 'file']}, 'abs': {}, 'comps': [
                    {'name': 'A', 'stage': 0, 'exe': 'echo', 'refs': [], 'args': ['hello'], 'backend': loc},
                    {'name': 'B1', 'stage': 1, 'exe': 'cat', 'refs': [{'kind': 'prodfile', 'prod': 0, 'path': 'out.txt', 'method': 'ref'}],
                     'args': [0], 'backend': loc},
                    {'name': 'w', 'stage': 1, 'exe': 'cat', 'refs': [{'kind': 'prodfile', 'prod': 0, 'path': 'out.txt', 'method': 'ref'},
                                                                      {'kind': 'input', 'path': 'in0.txt', 'method': 'copy'}],
                     'args': [0], 'backend': loc}]}

    def wr(table, key, content, kind, time, state='file'):
        return {'table': table, 'key': key, 'content': content, 'state': state, 'kind': kind, 'time': time}
    return [
        {'world': world(), 'first': [0, 1], 'rounds': [
            {'writes': [wr('out', '0/out.txt', 'energy: 0.2222', 'same_size', 'keep')], 'view': 'other', 'sel': [0, 2]},
            {'writes': [], 'view': 'reset', 'sel': [0, 1, 2]},
            {'writes': [wr('out', '0/out.txt', 'energy: 0.3333', 'same_size', 'natural')], 'view': 'reset', 'sel': [0, 1, 2]}]},
        {'world': world(), 'first': [0, 1, 2], 'rounds': [
            {'writes': [wr('out', '0/out.txt', 'energy: 0.22222', 'other_size', 'later')], 'view': 'reset', 'sel': [0, 1, 2]},
            {'writes': [wr('out', '0/out.txt', 'energy: 0.1111', 'other_size', 'earlier')], 'view': 'reset', 'sel': [0, 1, 2]}]},
        {'world': world(), 'first': [0, 1, 2], 'rounds': [
            {'writes': [wr('inputs', 'in0.txt', 'hellO', 'same_size', 'same_second')], 'view': 'fresh', 'sel': [0, 1, 2]},
            {'writes': [wr('inputs', 'in0.txt', 'hellO', 'remove', 'keep', 'missing')], 'view': 'fresh', 'sel': [0, 1, 2]},
            {'writes': [wr('inputs', 'in0.txt', 'hello', 'create', 'keep')], 'view': 'reset', 'sel': [0, 1, 2]}]},
    ]


def random_write(rng, cur, t):
    """one write to the referenced path t in the state cur (see gen_session)"""
    content, st = cur[t[0]][t[1]]
    k = rng.random()
    if st == 'missing':
        wr = {'content': rng.choice(CONTENTS), 'state': 'file', 'kind': 'create'}
    elif k < 0.45 and same_size_other(rng, content) is not None:
        wr = {'content': same_size_other(rng, content), 'state': 'file', 'kind': 'same_size'}
    elif k < 0.65:
        wr = {'content': content + rng.choice(['+more', 'Q']), 'state': 'file', 'kind': 'other_size'}
    elif k < 0.85:
        wr = {'content': content, 'state': 'file', 'kind': 'same_contents'}
    else:
        wr = {'content': content, 'state': 'missing', 'kind': 'remove'}
    wr.update(table=t[0], key=t[1], time=rng.choice(SESSION_TIMES))
    return wr


def gen_keep_session(rng, base=None):
    """the SAME objects asked again WITHOUT memoization_reset() (what Controller.can_memoize, the logging of the candidates
    and Experiment.annotate_component_documents do: they read the properties of the one ComponentSpecification of the
    graph whenever they need them).  Mostly: some referenced inputs / producer-made files do not exist yet at the first
    ask (the consumers, and the consumers of those, have no hash), then they appear (sometimes only some of them, sometimes
    other paths are rewritten or removed as well) and all / some components are asked again, once or several times; now
    and then a reset or a new Experiment object in between.  The selections are closed under "consumes from"."""
    w = copy.deepcopy(base) if base is not None else gen_world(rng)
    n = len(w['comps'])
    paths = session_paths(w)
    if not paths:
        return None
    if rng.random() < 0.85:
        # prefer files made by producers (a consumer looked at while its producer still runs)
        prod = [t for t in paths if t[0] == 'out']
        for t in rng.sample(paths, min(len(paths), rng.choice([1, 1, 2]))) + ([rng.choice(prod)] if prod and rng.random() < 0.6 else []):
            w[t[0]][t[1]][1] = 'missing'
    sess = {'world': w, 'first': None, 'rounds': [], 'cached': True}
    x = rng.random()
    if x < 0.55:
        sess['first'] = list(range(n))
    elif x < 0.92:
        sess['first'] = sorted(closure(w, rng.sample(range(n), rng.randint(1, max(1, n - 1)))))
    cur = copy.deepcopy(w)
    for rnd in range(rng.choice([1, 2, 2, 3])):
        paths = session_paths(cur)
        missing = [t for t in paths if cur[t[0]][t[1]][1] == 'missing']
        chosen = []
        if missing and rng.random() < 0.85:
            chosen = rng.sample(missing, rng.randint(1, len(missing)))
        if not chosen or rng.random() < 0.3:
            chosen += [t for t in rng.sample(paths, 1) if t not in chosen]
        writes = []
        for t in chosen:
            wr = random_write(rng, cur, t)
            cur[t[0]][t[1]] = [wr['content'], wr['state']]
            writes.append(wr)
        view = rng.choice(['keep'] * 8 + ['reset', 'fresh'])
        sel = list(range(n)) if rng.random() < 0.6 else sorted(closure(cur, rng.sample(range(n), rng.randint(1, max(1, n - 1)))))
        sess['rounds'].append({'writes': writes, 'view': view, 'sel': sel})
    return sess


def corpus_keep_sessions():
    """the boundary of 'asked early': a chain A <- B <- C (C references the working directory of B) asked while A has not
    written out.txt, then out.txt appears; a consumer by :copy (reference not on the command line) of an input that is
    staged late; some of the objects asked early, the others only later; the input removed again after an info was
    computed and kept"""
    loc = ('local',)

    def chain():
        return {'inputs': {'in0.txt': ['hello', 'file']}, 'data': {'d0.txt': ['dd', 'file']}, 'datadirs': ['sub0'],
                'out': {'0/out.txt': ['hello', 'missing']}, 'abs': {}, 'comps': [
                    {'name': 'A', 'stage': 0, 'exe': 'echo', 'refs': [], 'args': ['hello'], 'backend': loc},
                    {'name': 'B', 'stage': 1, 'exe': 'cat', 'refs': [{'kind': 'prodfile', 'prod': 0, 'path': 'out.txt', 'method': 'ref',
                                                                     'spelling': 'abs'}], 'args': [0], 'backend': loc},
                    {'name': 'C', 'stage': 2, 'exe': 'ls', 'refs': [{'kind': 'proddir', 'prod': 1, 'path': '', 'method': 'ref',
                                                                    'spelling': 'abs'}], 'args': [0], 'backend': loc}]}

    def late_input():
        return {'inputs': {'in0.txt': ['hello', 'missing']}, 'data': {'d0.txt': ['dd', 'file']}, 'datadirs': ['sub0'],
                'out': {'0/out.txt': ['OUT', 'file']}, 'abs': {}, 'comps': [
                    {'name': 'gen', 'stage': 0, 'exe': 'echo', 'refs': [{'kind': 'data', 'path': 'd0.txt', 'method': 'ref'}],
                     'args': ['-n', 0], 'backend': loc},
                    {'name': 'use', 'stage': 0, 'exe': 'cat', 'refs': [{'kind': 'prodfile', 'prod': 0, 'path': 'out.txt', 'method': 'ref',
                                                                       'spelling': 'rel'},
                                                                      {'kind': 'input', 'path': 'in0.txt', 'method': 'copy'}],
                     'args': [0], 'backend': ('kubernetes', 'img:1')}]}

    def wr(table, key, content, kind, time, state='file'):
        return {'table': table, 'key': key, 'content': content, 'state': state, 'kind': kind, 'time': time}
    return [
        {'world': chain(), 'cached': True, 'first': [0, 1, 2], 'rounds': [
            {'writes': [wr('out', '0/out.txt', 'hello', 'create', 'natural')], 'view': 'keep', 'sel': [0, 1, 2]},
            {'writes': [wr('out', '0/out.txt', 'hellO', 'same_size', 'keep')], 'view': 'keep', 'sel': [0, 1, 2]},
            {'writes': [], 'view': 'reset', 'sel': [0, 1, 2]}]},
        {'world': chain(), 'cached': True, 'first': [0, 1], 'rounds': [
            {'writes': [], 'view': 'keep', 'sel': [0, 1, 2]},
            {'writes': [wr('out', '0/out.txt', 'hello', 'create', 'natural')], 'view': 'keep', 'sel': [0, 1, 2]}]},
        {'world': late_input(), 'cached': True, 'first': [0, 1], 'rounds': [
            {'writes': [wr('inputs', 'in0.txt', 'hello', 'create', 'natural')], 'view': 'keep', 'sel': [0, 1]},
            {'writes': [wr('inputs', 'in0.txt', 'hello', 'remove', 'keep', 'missing')], 'view': 'keep', 'sel': [0, 1]},
            {'writes': [], 'view': 'fresh', 'sel': [0, 1]}]},
    ]


def session_target(inst, w, wr):
    if wr['table'] == 'inputs':
        return os.path.join(inst, 'input', wr['key'])
    if wr['table'] == 'data':
        return os.path.join(inst, 'data', wr['key'])
    p, path = wr['key'].split('/', 1)
    c = w['comps'][int(p)]
    return os.path.join(inst, 'stages', 'stage%d' % c['stage'], c['name'], path)


def session_location(w, wr):
    """the path as the model names it (d_location)"""
    if wr['table'] == 'inputs':
        return 'input/' + wr['key']
    if wr['table'] == 'data':
        return 'data/' + wr['key']
    p, path = wr['key'].split('/', 1)
    c = w['comps'][int(p)]
    return 'stages/stage%d/%s/%s' % (c['stage'], c['name'], path)


def apply_write(inst, w, wr):
    target = session_target(inst, w, wr)
    if wr['state'] == 'missing':
        os.remove(target)
        return
    st = os.stat(target) if os.path.exists(target) else None
    if not os.path.isdir(os.path.dirname(target)):
        os.makedirs(os.path.dirname(target))
    with open(target, 'w') as f:
        f.write(wr['content'])
    if st is not None and wr['time'] != 'natural':
        m = st.st_mtime_ns
        new = {'keep': m, 'same_second': m - m % 10 ** 9 + (m % 10 ** 9 + 123456789) % 10 ** 9,
               'later': m + 5 * 10 ** 9, 'earlier': m - 7 * 10 ** 9}[wr['time']]
        os.utime(target, ns=(st.st_atime_ns, new))


def expected_files(w, c, flav, obs):
    """the file entries of c in the current state of w (mirror of Memo.Model.files_of); None: not defined here"""
    out = []
    for r in c['refs']:
        st, content = state_of(w, r)
        if st == 'FMissing':
            return None
        if content is None:
            continue
        p = r.get('prod')
        if flav == 'strong' or p is None:
            h = hashlib.md5(content.encode('utf-8')).hexdigest()
        else:
            if obs.get(p) is None or obs[p]['fuzzy'][2] is None:
                return None
            h = 'fuzzy#%s#%s' % (obs[p]['fuzzy'][2], r['path'])
        out.append('%s:%s' % (h, r['method']))
    return sorted(out)


def run_sessions(ctx, drv, sessions):
    """drives every session on ONE real instance (one process, same paths); compares every answer with the answer of a
    new instance elsewhere that has only ever held the current contents, with the current contents themselves, and
    with Memo.Model.session_chars / session inside Coq"""
    terms = []
    for sess in sessions:
        w0 = sess['world']
        n = len(w0['comps'])
        loc = None
        try:
            try:
                exp, loc = drv.instantiate(w0)
            except Exception as e:
                ctx.count('session_rejected_%s' % type(e).__name__)
                continue
            inst = exp.instanceDirectory.location
            nodes = exp.experimentGraph.graph.nodes
            oracles = [drv.oracles(nodes['stage%d.%s' % (c['stage'], c['name'])]['componentSpecification'], w0, c) for c in w0['comps']]
            asks = []       # (sel, observations, world at that time, round)
            cur = copy.deepcopy(w0)
            # what the objects hold: the first info (and hash) each component answered since the last reset / new object
            held = {'strong': {}, 'fuzzy': {}}

            def note(sel, obs):
                for i, o in zip(sel, obs):
                    for flav in ('strong', 'fuzzy'):
                        if o[flav][0] is not None and i not in held[flav]:
                            held[flav][i] = (o[flav][0], o[flav][2])
            if sess['first'] is not None:
                asks.append((sess['first'], drv.ask(exp, cur, sel=sess['first']), copy.deepcopy(cur), None))
                note(sess['first'], asks[-1][1])
            changed = False
            for rn, rnd in enumerate(sess['rounds']):
                for wr in rnd['writes']:
                    apply_write(inst, w0, wr)
                    if [wr['content'], wr['state']] != cur[wr['table']][wr['key']]:
                        changed = True
                    cur[wr['table']][wr['key']] = [wr['content'], wr['state']]
                    ctx.count('session_write_%s' % wr['kind'])
                    ctx.count('session_time_%s' % wr['time'])
                ctx.count('session_view_%s' % rnd['view'])
                if rnd['view'] == 'fresh':
                    exp = drv.D.Experiment.experimentFromInstance(inst)
                if rnd['view'] in ('fresh', 'reset'):
                    held = {'strong': {}, 'fuzzy': {}}
                obs = drv.ask(exp, cur, sel=rnd['sel'], reset=(rnd['view'] == 'reset'))
                asks.append((rnd['sel'], obs, copy.deepcopy(cur), rn))
                # the same contents in an instance elsewhere that never held anything else
                ref = drv.observe(cur)
                by = dict(zip(rnd['sel'], obs))
                # objects asked again without a reset (mirror of C16_cached_ask / C16_asked_early): an info that was
                # computed is kept; when everything that is kept is what the files give now, every answer -- in particular
                # of the components that had NO info when they were asked earlier -- is the one of objects never asked
                agrees = {flav: all(v == (ref[k][flav][0], ref[k][flav][2]) for k, v in held[flav].items())
                          for flav in ('strong', 'fuzzy')}
                if rnd['view'] == 'keep':
                    for flav in ('strong', 'fuzzy'):
                        ctx.count('session_keep_%s_%s' % (flav, 'agrees' if agrees[flav] else 'holds_older_info'))
                        none_before = [i for i in rnd['sel'] if i not in held[flav] and
                                       any(i in a[0] for a in asks[:-1]) and ref[i][flav][2] is not None]
                        if agrees[flav] and none_before:
                            ctx.count('session_keep_%s_asked_early_now_computable' % flav)
                for i in rnd['sel']:
                    case = {'session': sess, 'round': rn, 'comp': i}
                    for flav in ('strong', 'fuzzy'):
                        if rnd['view'] == 'keep' and not agrees[flav]:
                            continue        # the objects hold an info of earlier contents: kept by design (see the model)
                        if rnd['view'] == 'keep' and (by[i][flav][2] != ref[i][flav][2] or by[i][flav][0] != ref[i][flav][0]):
                            ctx.fail(dict(case, flavour=flav, got=by[i][flav][0], fresh_instance=ref[i][flav][0],
                                          asked_before=[a[0] for a in asks[:-1]]),
                                     'the %s memoization info/hash of a component asked again on the same objects (no reset; every '
                                     'info these objects computed earlier is still what the files give) is not the one of an '
                                     'instance with the same contents that is asked for the first time: what was answered '
                                     'earlier (no hash while an input was missing) decides, not the work the component does' % flav, [])
                            continue
                        if by[i][flav][2] != ref[i][flav][2] or by[i][flav][0] != ref[i][flav][0]:
                            ctx.fail(dict(case, flavour=flav, got=by[i][flav][0], fresh_instance=ref[i][flav][0]),
                                     'the %s memoization hash computed after referenced files were rewritten in place is not the one of '
                                     'an instance that holds the same contents and never held others: the hash depends on what the '
                                     'path contained earlier / on when it was written / on what was asked before, not on the contents '
                                     'only' % flav, [])
                        info = by[i][flav][0]
                        want = expected_files(cur, cur['comps'][i], flav, by)
                        if info is not None and 'files' in info and want is not None and info['files'] != want:
                            ctx.fail(dict(case, flavour=flav, files=info['files'], expected=want),
                                     'the file entries of the %s memoization info are not the digests of the CURRENT contents of the '
                                     'files the component consumes' % flav, [])
                if len(rnd['sel']) == n and (rnd['view'] != 'keep' or (agrees['strong'] and agrees['fuzzy'])):
                    check_world(ctx, cur, obs, 'session')
                note(rnd['sel'], obs)
            nontriv = changed and any(o['strong'][2] is not None and o['strong'][0].get('files') for o in asks[-1][1])
            ctx.case(['session', sess], nontriv)
            ctx.count('sessions')
            ctx.count('session_first_%s' % ('none' if sess['first'] is None else ('all' if len(sess['first']) == n else 'some')))
            if nontriv:
                ctx.sample({'session': {'first': sess['first'], 'rounds': sess['rounds']}, 'flowir': json.loads(flowir_of(w0)),
                            'hashes': [[(o['strong'][2], o['fuzzy'][2]) for o in a[1]] for a in asks]}, limit=2)
            if any(malformed(a[1]) for a in asks):
                ctx.disagree({'session': sess}, [a[1] for a in asks], None, 'C16 session: implementation output not expressible in the model')
                continue
            terms.append((coq_session(sess, asks, oracles), sess, asks))
        finally:
            if loc:
                shutil.rmtree(loc, ignore_errors=True)
    return terms


def coq_session(sess, asks, oracles):
    w0 = sess['world']
    comps, contents = model_comps(w0)
    comps = ['(%s, (%s, %s))' % (cm, clist(o['disc'], cstr), clist(o['order'], cnat)) for cm, o in zip(comps, oracles)]
    ops, answers = [], []
    # sessions of objects that remember: Memo.Model.csession (CWrite / CClear / CAsk)
    cached = bool(sess.get('cached'))
    K = 'C' if cached else 'O'

    def ask_ops(sel, obs):
        for flav, fz in (('strong', 'false'), ('fuzzy', 'true')):
            ops.append('%sAsk %s %s' % (K, fz, clist(sel, cnat)))
            answers.append(clist([coq_obs(o[flav]) for o in obs]))
    tbl = {}
    for sel, obs, cur, rn in asks:
        if rn is not None:
            for wr in sess['rounds'][rn]['writes']:
                st = '(FFile %s)' % cstr(wr['content']) if wr['state'] == 'file' else 'FMissing'
                ops.append('%sWrite %s %s %s' % (K, cstr(session_location(w0, wr)), cZ(TIME_Z[wr['time']]), st))
                contents.append(wr['content'])
            if cached and sess['rounds'][rn]['view'] in ('reset', 'fresh'):
                ops.append('CClear')
        ask_ops(sel, obs)
        for o in obs:
            for flav in ('strong', 'fuzzy'):
                buf = o[flav][1]
                if buf is not None:
                    tbl[buf] = o[flav][2] if '/ABSDIR' in buf else hashlib.md5(buf.encode('utf-8')).hexdigest()
    for c in contents:
        tbl[c] = hashlib.md5(c.encode('utf-8')).hexdigest()
    t = clist(['(%s, %s)' % (cstr(k), cstr(v)) for k, v in sorted(tbl.items())])
    return '(%s, %s, (%s, %s))' % (t, clist(comps), clist(ops), clist(answers))



# ------------------------------------------------------------------ run
def explore(ctx, families, sessions=()):
    """families: list of (tag, base world, [(variant world, description)]); sessions: see gen_session"""
    drv = Driver()
    terms = []
    sterms = []
    try:
        sterms = run_sessions(ctx, drv, sessions)
        for tag, base, variants in families:
            try:
                bobs = drv.observe(base)
            except Exception as e:
                ctx.count('world_rejected_%s' % type(e).__name__)
                continue
            entries = []
            worlds = [(base, bobs, None)]
            for v, d in variants:
                try:
                    vobs = drv.observe(v)
                except Exception as e:
                    ctx.count('variant_rejected_%s' % type(e).__name__)
                    continue
                worlds.append((v, vobs, d))
            for w, obs, d in worlds:
                nontriv = any(o['strong'][2] is not None and (o['strong'][0].get('files') or 'producer:' in o['strong'][0].get('args', ''))
                              for o in obs)
                ctx.case(['world', w, d], nontriv)
                ctx.count('aspect_%s' % (d['aspect'] if d else 'base'))
                ctx.count('components', len(obs))
                for o in obs:
                    ctx.count('strong_hash_%s' % ('none' if o['strong'][2] is None else 'some'))
                    ctx.count('fuzzy_hash_%s' % ('none' if o['fuzzy'][2] is None else 'some'))
                check_world(ctx, w, obs, tag)
                if d is not None and len(obs) >= len(base['comps']) and not any(c.get('replicate') for c in w['comps']):
                    check_variant(ctx, base, bobs, w, obs, d)
                if not any(c.get('replicate') for c in w['comps']):
                    for i in range(len(w['comps'])):
                        entries.append((w, i, tag, obs[i]))
                if not any(c.get('replicate') for c in w['comps']):
                    raw = [canon_path(x['command']['arguments']) for x in json.loads(flowir_of(w))['components']]
                    if raw != [o['oracle']['args'] for o in obs]:
                        ctx.disagree({'world': w}, [o['oracle']['args'] for o in obs], raw,
                                     'C16 arguments: the string the code starts from is not the one written in the description')
                if boundary_world(w):
                    ctx.count('boundary_worlds')
                if any(tail_pairs(w, c) for c in w['comps']):
                    ctx.count('tail_reference_worlds')
                if tail_first_world(w):
                    ctx.count('tail_reference_visited_first_worlds')
                if fuzzy_inner_world(w):
                    ctx.count('reference_inside_fuzzy_replacement_worlds')
                if malformed(obs):
                    ctx.disagree({'world': w}, obs, None, 'C16 info: implementation output not expressible in the model '
                                                          '(info dictionary shape / hash is not md5 of the traversal buffer)')
                else:
                    terms.append((coq_case(w, obs), w, obs))
                if nontriv and d is not None:
                    ctx.sample({'aspect': d, 'flowir': json.loads(flowir_of(w)),
                                'observed': [{'strong': o['strong'][0], 'strong_hash': o['strong'][2], 'fuzzy_hash': o['fuzzy'][2]} for o in obs]},
                               limit=3)
            pairs_sound(ctx, entries)
        ntrav = 1500 if ctx.tier == 'quick' else 8000
        if families and not getattr(ctx, 'replaying', False):
            run_traversal(ctx, drv, ntrav)
            run_resub(ctx, 800 if ctx.tier == 'quick' else 4000)
    finally:
        drv.close()
    # blank-delimited worlds: the character-level model AND the token model; boundary worlds: the character-level model
    # (F16c / F16e worlds: the token model is what the property asks for, not what the code does)
    special = lambda w: boundary_world(w) or tail_first_world(w) or fuzzy_inner_world(w)
    plain = [t for t in terms if not special(t[1])]
    bound = [t for t in terms if special(t[1])]
    bad = [plain[i] for i in ctx.model_mismatches(HEADER, [t[0] for t in plain], 'check_case_both', chunk=60)]
    bad += [bound[i] for i in ctx.model_mismatches(HEADER, [t[0] for t in bound], 'check_case_chars', chunk=60, name='boundary')]
    for n, t in enumerate(bad):
        _, w, obs = t
        m = ''
        if n < 2:
            comps, _ = model_comps(w)
            tbl = coq_case(w, obs)
            m = ctx.model_eval(HEADER, 'let k := %s in (infos_chars (tbl_md5 (fst (fst k))) false (snd (fst k)), '
                                       'infos_chars (tbl_md5 (fst (fst k))) true (snd (fst k)), '
                                       'infos (tbl_md5 (fst (fst k))) false (map fst (snd (fst k))))' % tbl)[-9000:]
        ctx.disagree({'world': w}, [{'strong': o['strong'], 'fuzzy': o['fuzzy']} for o in obs], m,
                     'C16 info: memoization_info/_fuzzy, traversal buffer and hash vs Memo.Model.infos_chars/infos/serialise')
    # sessions: every answer against Memo.Model.session_chars (and session, the token model, on blank-delimited worlds)
    splain = [t for t in sterms if not special(t[1]['world']) and not t[1].get('cached')]
    sbound = [t for t in sterms if special(t[1]['world']) and not t[1].get('cached')]
    cplain = [t for t in sterms if not special(t[1]['world']) and t[1].get('cached')]
    cbound = [t for t in sterms if special(t[1]['world']) and t[1].get('cached')]
    sbad = [splain[i] for i in ctx.model_mismatches(HEADER, [t[0] for t in splain], 'check_session_both', chunk=20, name='session')]
    sbad += [sbound[i] for i in ctx.model_mismatches(HEADER, [t[0] for t in sbound], 'check_session_chars', chunk=20, name='session_boundary')]
    # the same objects asked again without reset: Memo.Model.csession_chars / csession
    sbad += [cplain[i] for i in ctx.model_mismatches(HEADER, [t[0] for t in cplain], 'check_csession_both', chunk=20, name='csession')]
    sbad += [cbound[i] for i in ctx.model_mismatches(HEADER, [t[0] for t in cbound], 'check_csession_chars', chunk=20, name='csession_boundary')]
    for n, t in enumerate(sbad):
        term, sess, asks = t
        m = ''
        if n < 2:
            m = ctx.model_eval(HEADER, 'let k := %s in %s (tbl_md5 (fst (fst k))) (snd (fst k)) %s(fst (snd k))' % (
                term, 'csession_chars' if sess.get('cached') else 'session_chars', '[] [] ' if sess.get('cached') else ''))[-9000:]
        ctx.disagree({'session': sess}, [[{'strong': o['strong'], 'fuzzy': o['fuzzy']} for o in a[1]] for a in asks], m,
                     'C16 session: hashes asked repeatedly while the referenced files change vs Memo.Model.session_chars/session')


def make_family(rng, tag, base, nvar):
    variants = []
    rare = ['prodcontent', 'method', 'content', 'missing']
    rest = ['exe', 'arg', 'image']
    irr = list(IRRELEVANT)
    rng.shuffle(rare), rng.shuffle(rest), rng.shuffle(irr)
    nirr = 2 if nvar <= 5 else 3
    for kind in rare + rest:
        if len(variants) >= nvar - nirr:
            break
        r = variant(rng, base, kind)
        if r is not None:
            variants.append(r)
    for kind in irr[:min(nirr, nvar)]:
        variants.append(variant(rng, base, kind))
    return (tag, base, variants)


def run(ctx):
    rng = ctx.rng
    ctx.rule = ('families of instantiated experiments: a base workflow (2-6 components over 1-3 stages, references to inputs, '
                'data files, data folders, files and folders of producers, three backends, paths that are files / missing / folders) '
                'and variants differing in exactly one aspect (executable, literal argument, image, reference method, contents of an '
                'input, contents of a producer-made file, a missing input | component name, stage indices, modification times, '
                'instance location, backend kind with the same image; a rename sometimes makes the name of another component a tail of '
                'the new one: pre-gen next to gen); producer chains of length 1-3; consumers of two references of which one is a '
                'word-boundary-delimited tail of the other (producers gen / pre-gen / pre.gen, file outer/gen/out.txt next to '
                'gen/out.txt, folders, same name in two stages; relative and absolute spellings, either listing order) with the same '
                'work under other producer names as a variant; sessions on one real instance: an optional first ask of all / some '
                'components, then 1-3 rounds of writes in place to referenced inputs, data files and producer-made files (other '
                'contents of the same size | other size | same contents | removal | creation; modification time kept | same second | '
                'clock | later | earlier) each followed by an ask after memoization_reset() | on a new Experiment object of the same '
                'directory | on components never asked before; sessions of objects that REMEMBER: some referenced inputs / '
                'producer-made files missing at a first ask of all / some components (closed under consumes-from), then rounds in '
                'which the missing paths appear (all or some; other paths rewritten / removed too) each followed by an ask of all / '
                'some components on the SAME objects without reset (8 in 10), after a reset or on a new Experiment; plus random nested '
                'dictionaries for the traversal alone. non-trivial world = some component has a hash and consumes a file or a '
                'producer; distinct by (world description, aspect)')
    families = []
    for tag, w in corpus_worlds():
        families.append(make_family(rng, tag, w, 4 if tag != 'F16b-replicas' else 0))
    families += corpus_families()
    nbase = 100 if ctx.tier == 'quick' else 400
    nvar = 5 if ctx.tier == 'quick' else 8
    for i in range(nbase):
        kw = rng.random() < 0.06
        bd = (not kw) and rng.random() < 0.07
        families.append(make_family(rng, 'kw' if kw else ('boundary' if bd else 'rand'), gen_world(rng, kw, bd), nvar))
    for i in range(16 if ctx.tier == 'quick' else 60):
        families.append(make_family(rng, 'chain', chain_world(rng, rng.randint(1, 3)), nvar))
    # the order of the rewriting: consumers of two references, one a tail of the other (1 in 8: same name in two stages)
    for i in range(16 if ctx.tier == 'quick' else 64):
        w, k = tail_world(rng, same_name=(i % 8 == 7))
        fam = make_family(rng, 'tail', w, 3 if ctx.tier == 'quick' else 5)
        # ... and the same work with one of its producers called differently
        prods = sorted(set(r['prod'] for r in w['comps'][k]['refs'] if r.get('prod') is not None))
        fam[2].append(variant(rng, w, 'rename', comp=rng.choice(prods)))
        families.append(fam)
    # hashes asked for repeatedly in one process while the referenced files are rewritten in place
    sessions = corpus_sessions()
    for i in range(22 if ctx.tier == 'quick' else 90):
        base = chain_world(rng, rng.randint(1, 3)) if i % 5 == 4 else None
        sess = gen_session(rng, base)
        if sess is not None:
            sessions.append(sess)
    # ... and asked again on the SAME objects without reset, mostly after inputs that were missing at the first ask appeared
    sessions += corpus_keep_sessions()
    for i in range(14 if ctx.tier == 'quick' else 56):
        base = chain_world(rng, rng.randint(1, 3)) if i % 3 == 2 else None
        sess = gen_keep_session(rng, base)
        if sess is not None:
            sessions.append(sess)
    explore(ctx, families, sessions)


def replay(ctx, path):
    d = json.load(open(path))
    c = d.get('case') or d.get('first', {}).get('case') or {}
    ctx.replaying = True
    fams = []
    if 'base' in c:
        fams.append(('replay', c['base'], [(c['variant'], c['aspect'])]))
    elif 'world_a' in c:
        # both components in one family so that the pair is compared
        fams.append(('replay', c['world_a'], [(c['world_b'], {'aspect': 'location', 'comp': None})] if c['world_b'] != c['world_a'] else []))
    elif 'world' in c:
        fams.append(('replay', c['world'], []))
    elif 'session' in c:
        for comp in c['session']['world']['comps']:
            comp['backend'] = tuple(comp['backend'])
        explore(ctx, [], [c['session']])
        for f in ctx.failures:
            print('REPRODUCED: %s' % f['what'])
        for f in ctx.disagreements:
            print('DISAGREEMENT: %s' % (str(f)[:2000],))
        return 1 if (ctx.failures or ctx.disagreements) else 0
    else:
        print('replay file names no input (proof/correspondence obligation): re-run ./check C16')
        return 2
    for f in fams:
        for w in [f[1]] + [x[0] for x in f[2]]:
            for comp in w['comps']:
                comp['backend'] = tuple(comp['backend'])
    if 'world_a' in c and c['world_b'] != c['world_a']:
        # unrelated worlds: only the pair statement applies, not the variant statement
        drv = Driver()
        try:
            entries = []
            for w in (c['world_a'], c['world_b']):
                obs = drv.observe(w)
                entries += [(w, i, 'replay', obs[i]) for i in range(len(w['comps']))]
            pairs_sound(ctx, entries)
        finally:
            drv.close()
    else:
        explore(ctx, fams)
    for f in ctx.failures:
        print('REPRODUCED: %s' % f['what'])
    for f in ctx.disagreements:
        print('DISAGREEMENT: %s' % (str(f)[:2000],))
    return 1 if (ctx.failures or ctx.disagreements) else 0
