"""C10 — references from OUTSIDE a DoWhile loop to the components inside it (Args.LoopModel).

One world = one real Experiment: ordinary producers in stages 0-1, a DoWhile document imported in stage 1 with the
looped components step, mon (repeating), check (the condition) and late (second stage of the document: stage 2), and a
batch of consumer components in stages 1 (next to the loop) and 2 (after it) - the cases.  A consumer names a looped
component by its PLACEHOLDER (stage1.step); the graph holds one instance per iteration (stage1.<k>#step).  The loop is
advanced with the real WorkflowGraph.instantiate_dowhile_next_iteration (what the Controller calls when the condition
holds); after every iteration the instances "run" (the harness writes / withholds / empties their files) and every
consumer is resolved through ComponentSpecification.resolveArguments, Job.resolveArguments, Job.command.arguments and
ComponentSpecification.command.arguments.  Each answer is compared in Python with the token-wise substitution of each
reference's own value at that moment (ref / output: the LATEST instance; loopref / loopoutput: one field per iteration in
iteration order, empty contents keep their field) and inside Coq (check_loop_live) with Args.LoopModel.resolve_on_l on the
file system walked just before the calls (= spec_on_l where separated_onb_l holds).  At the end of a world real
DataReference objects (every placeholder x file part x method, loop methods on ordinary producers) are compared with
Args.LoopModel.lresolve (spellings, value, exception class, number of missing paths)."""
import os
import shutil
import tempfile
import time

import common
from common import clist, cstr, cbool, cpair

import c10 as base

HEADER_L = 'Require Import V.Lib.PyStr V.Args.Model V.Args.ValueModel V.Args.LoopModel.\nOpen Scope string_scope.'
S = 1                                                    # import stage of the DoWhile document
# looped components: name -> stage offset inside the document
LOOPED = {'step': 0, 'mon': 0, 'check': 0, 'late': 1}
REPEATING_LOOPED = ('mon',)
# ordinary producers (stage, name); equal names across stages (stage0.step) and names that end with a looped name
ORDINARY = [(0, 'init'), (0, 'step'), (0, 'A'), (1, 'prestep'), (1, 'B')]
PH_FILES = [None, None, 'result.txt', 'result.txt', 'result.txt', 'sub/o.txt', 'missing.txt']
WRITTEN = ['result.txt', 'out.stdout', 'sub/o.txt']      # files an instance may write
MISSING, ISDIR = None, 'D:'
ENTRY_POINTS = base.ENTRY_POINTS


SUBSTL = ('ref', 'output', 'loopref', 'loopoutput')    # what resolveArguments substitutes


def denotation(stage, declared, t):
    """the reference a token stands for (c10.denotation with the aggregating methods)"""
    for r in declared:
        if r['method'] in SUBSTL and base.r_abs(r) == t:
            return r
    for r in declared:
        if r['method'] in SUBSTL and base.r_rel(r) == t and r['stage'] == stage:
            return r
    return None


def classes_of(case, value):
    """the classes of the open findings F10 / F10b / F10c (c10.classes_of with the aggregating methods)"""
    cls = []
    dec = case['declared']
    toks = [s for k, s in case['pieces'] if k == 'T']
    sub = [r for r in dec if r['method'] in SUBSTL]
    if any(s in t and denotation(case['stage'], dec, t) is not r
           for r in sub for s in set([base.r_abs(r), base.r_rel(r)]) for t in toks):
        cls.append('spelling_matches_inside_other_reference_token')
    if any(base.r_abs(r) != base.r_rel(r) and base.r_abs(r) in toks and base.r_rel(r) in toks
           and denotation(case['stage'], dec, base.r_rel(r)) is r for r in sub):
        cls.append('both_spellings_of_one_reference_used')
    if any(base.r_abs(q) in value(r) or base.r_rel(q) in value(r)
           for r in sub if r['method'] in ('output', 'loopoutput') for q in sub):
        cls.append('output_contents_contain_a_declared_spelling')
    return cls


def placeholder_stage(name):
    return S + LOOPED[name]


def is_placeholder(r):
    return r['stage'] is not None and r['name'] in LOOPED and r['stage'] == placeholder_stage(r['name'])


def text_for(rng, comp, it, fn):
    """what iteration `it` of `comp` leaves in file fn: mostly a value that names its iteration; often nothing at all"""
    u = rng.random()
    tag = '%s%d%s' % (comp[0], it, fn[0])
    if u < 0.22:
        return ''                                        # ran, printed nothing
    if u < 0.30:
        return rng.choice(['\n', '\n\n'])                # only newlines: an empty field too
    if u < 0.40:
        return MISSING                                   # not there (yet)
    if u < 0.44:
        return ISDIR
    if u < 0.54:
        return '%s a\n%s b\n' % (tag, tag)               # several lines
    if u < 0.62:
        return ' %s  pad \n\n' % tag
    if u < 0.70:
        return rng.choice(base.SPECIALS[:8]).replace('\n', '') + tag
    return '%s=0.%d%s' % (tag, 5 + it, rng.choice(['\n', '', '\n\n']))


def streams_for(rng, it):
    return rng.choice([None, [], ['0.stdout'], ['0.stdout', '1.stdout'], ['9.stdout', '10.stdout', '11.stderr'],
                       ['1.stdout', '2.stdout'], ['3.stdout']])


def stream_text(it, fn):
    return 'mon it%d %s%s' % (it, fn.split('.')[0], ['\n', '', '\n\n'][(it + len(fn)) % 3])


# ------------------------------------------------------------------ cases
def ph_ref(name, fil, method, own_stage):
    return base.mk_ref(placeholder_stage(name), name, fil, method, own_stage, relative=False)


def gen_loop_case(rng):
    stage = rng.choice([1, 2, 2])
    k = rng.choice([1, 2, 2, 3, 3, 4])
    declared, seen = [], set()
    tries = 0
    while len(declared) < k and tries < 60:
        tries += 1
        if rng.random() < 0.78:
            name = rng.choice([n for n in ('step', 'step', 'step', 'mon', 'check', 'late') if placeholder_stage(n) <= stage])
            m = rng.choice(['ref'] * 3 + ['output'] * 3 + ['loopref'] * 2 + ['loopoutput'] * 4)
            fil = rng.choice(PH_FILES)
            if name == 'mon' and rng.random() < 0.6:
                fil = None                               # the archived streams of a repeating looped component
            r = ph_ref(name, fil, m, stage)
        else:
            st, name = rng.choice([p for p in ORDINARY if p[0] <= stage])
            m = rng.choice(['ref', 'ref', 'output'])
            r = base.mk_ref(st, name, rng.choice([None, 'result.txt']), m, stage, rng)
        if base.r_abs(r) in seen:
            continue
        seen.add(base.r_abs(r))
        declared.append(r)
    for _ in range(30):
        uses = []
        for r in declared:
            if rng.random() < 0.05 and len(declared) > 1:
                continue
            can_rel = r['stage'] == stage and not is_placeholder(r)   # the loader rejects `step:ref` in the arguments
            t = base.r_rel(r) if (can_rel and rng.random() < 0.5) else base.r_abs(r)
            uses.extend([t] * rng.choice([1, 1, 1, 2]))
        if not uses:
            uses = [base.r_abs(declared[0])]
        rng.shuffle(uses)
        pieces = [['L', rng.choice(base.LITS_FIRST)]]
        for j, t in enumerate(uses):
            pieces.append(['T', t])
            if j + 1 < len(uses):
                lit = rng.choice(base.LITS_BETWEEN)
                if rng.random() < 0.2:
                    lit = rng.choice(base.LITS_AFTER) + lit.lstrip()
                pieces.append(['L', lit])
        pieces.append(['L', rng.choice(base.LITS_LAST)])
        pieces = [p for p in pieces if not (p[0] == 'L' and p[1] == '')]
        args = ''.join(s for _, s in pieces)
        if base.tokens_by_the_code(args) == [s for kk, s in pieces if kk == 'T'] and args.strip():
            return {'stage': stage, 'declared': declared, 'pieces': pieces}
    return None


def loop_corpus():
    """fixed consumers: the four ways to read a looped component from outside, with and without file part, next to
    an ordinary producer of the same name in another stage; the observer next to the loop"""
    cs = []

    def case(stage, decl, pieces):
        cs.append({'stage': stage, 'declared': decl, 'pieces': [list(p) for p in pieces]})
    d = ph_ref('step', None, 'ref', 2)
    f = ph_ref('step', 'result.txt', 'ref', 2)
    o = ph_ref('step', 'result.txt', 'output', 2)
    so = ph_ref('step', None, 'output', 2)
    lr = ph_ref('step', None, 'loopref', 2)
    lf = ph_ref('step', 'result.txt', 'loopref', 2)
    lo = ph_ref('step', 'result.txt', 'loopoutput', 2)
    ls = ph_ref('step', None, 'loopoutput', 2)
    init = base.mk_ref(0, 'init', None, 'ref', 2)
    case(2, [d, o, so, f, init],
         [('L', '--dir '), ('T', 'stage1.step:ref'), ('L', ' --val '), ('T', 'stage1.step/result.txt:output'), ('L', ' --log '),
          ('T', 'stage1.step:output'), ('L', ' --f '), ('T', 'stage1.step/result.txt:ref'), ('L', ' --init '),
          ('T', 'stage0.init:ref'), ('L', ' step-ref')])
    case(2, [lr, lo, ls, o, init],
         [('L', '--values '), ('T', 'stage1.step/result.txt:loopoutput'), ('L', ' --logs '), ('T', 'stage1.step:loopoutput'),
          ('L', ' --dirs '), ('T', 'stage1.step:loopref'), ('L', ' --last '), ('T', 'stage1.step/result.txt:output'),
          ('L', ' --init '), ('T', 'stage0.init:ref'), ('L', '  end')])
    case(1, [ph_ref('step', None, 'ref', 1), ph_ref('step', 'result.txt', 'output', 1), ph_ref('step', None, 'output', 1)],
         [('L', 'cur='), ('T', 'stage1.step:ref'), ('L', ' v='), ('T', 'stage1.step/result.txt:output'), ('L', ' o='),
          ('T', 'stage1.step:output')])
    case(2, [lf, ph_ref('late', 'result.txt', 'loopoutput', 2), ph_ref('late', None, 'ref', 2),
             base.mk_ref(0, 'step', None, 'ref', 2)],
         [('T', 'stage1.step/result.txt:loopref'), ('L', ' | '), ('T', 'stage2.late/result.txt:loopoutput'), ('L', ' in '),
          ('T', 'stage2.late:ref'), ('L', ' not '), ('T', 'stage0.step:ref')])
    case(2, [ph_ref('mon', None, 'output', 2), ph_ref('mon', None, 'loopoutput', 2), ph_ref('mon', None, 'ref', 2)],
         [('L', 'watch '), ('T', 'stage1.mon:output'), ('L', ' all='), ('T', 'stage1.mon:loopoutput'), ('L', ' at '),
          ('T', 'stage1.mon:ref'), ('L', '/streams')])
    return cs


# ------------------------------------------------------------------ the world
class World(object):
    def __init__(self, cases, fixed=False):
        import logging
        import experiment.model.storage
        import experiment.model.data
        import experiment.model.frontends.flowir
        import yaml
        logging.disable(logging.CRITICAL)
        self.cases = cases
        self.tmp = tempfile.mkdtemp(prefix='verif_c10l_')
        dw = {'type': 'DoWhile', 'inputBindings': {'seed': {'type': 'ref'}}, 'loopBindings': {'seed': 'step:ref'},
              'condition': 'check/next.txt:output',
              'components': [
                  {'name': 'step', 'command': {'executable': 'echo', 'arguments': 'seed:ref'}, 'references': ['seed:ref']},
                  {'name': 'mon', 'command': {'executable': 'echo', 'arguments': 'step:ref'}, 'references': ['step:ref'],
                   'workflowAttributes': {'repeatInterval': 3}},
                  {'name': 'check', 'command': {'executable': 'echo', 'arguments': 'step:ref'}, 'references': ['step:ref']},
                  {'name': 'late', 'stage': 1, 'command': {'executable': 'echo', 'arguments': 'stage0.step:ref'},
                   'references': ['stage0.step:ref']}]}
        comps = [{'stage': st, 'name': n, 'command': {'executable': 'echo', 'arguments': 'hi'}} for st, n in ORDINARY]
        comps.append({'stage': S, '$import': 'dowhile.yaml', 'name': 'loop', 'bindings': {'seed': 'stage0.init:ref'}})
        for i, c in enumerate(cases):
            comps.append({'name': 'c%d' % i, 'stage': c['stage'],
                          'references': [d['declared_as'] for d in c['declared']],
                          'command': {'executable': 'echo', 'arguments': ''.join(s for _, s in c['pieces'])}})
            if c.get('observer'):
                comps[-1]['workflowAttributes'] = {'repeatInterval': 5}
        pkg = os.path.join(self.tmp, 'p.package')
        os.makedirs(os.path.join(pkg, 'conf'))
        with open(os.path.join(pkg, 'conf', 'flowir_package.yaml'), 'w') as f:
            f.write(yaml.safe_dump({'components': comps}))
        with open(os.path.join(pkg, 'conf', 'dowhile.yaml'), 'w') as f:
            f.write(yaml.safe_dump(dw))
        os.chdir(os.path.expanduser('~'))
        package = experiment.model.storage.ExperimentPackage.packageFromLocation(pkg)
        self.exp = experiment.model.data.Experiment.experimentFromPackage(package, location=self.tmp)
        self.loc = self.exp.instanceDirectory.location
        self.graph = self.exp.experimentGraph
        flowir = experiment.model.frontends.flowir.FlowIR
        self.do_while = list(self.graph._documents[flowir.LabelDoWhile].values())[0]['document']
        self.iterations = 1
        # harness' knowledge of what every producer has written: (stage, component name) -> {file: text|MISSING|ISDIR}
        self.state = {}
        for st, n in ORDINARY:
            self.put((st, n), {'result.txt': 'R(%s%d)\n' % (n, st), 'out.stdout': 'O(%s%d)\n\n' % (n, st)}, None)

    def close(self):
        shutil.rmtree(self.tmp, ignore_errors=True)

    def canon(self, s):
        return s.replace(self.loc, '/I')

    def wd(self, key):
        return os.path.join(self.loc, 'stages', 'stage%d' % key[0], key[1])

    def put(self, key, files, streams):
        """(re)writes the files of one producer / one instance"""
        wd = self.wd(key)
        assert wd.startswith(self.tmp + os.sep)
        os.makedirs(wd, exist_ok=True)
        st = self.state.setdefault(key, {'files': {}, 'streams': None})
        for fn, txt in files.items():
            p = os.path.join(wd, fn)
            if os.path.isdir(p):
                shutil.rmtree(p)
            elif os.path.lexists(p):
                os.remove(p)
            st['files'][fn] = txt
            if txt is MISSING:
                continue
            os.makedirs(os.path.dirname(p), exist_ok=True)
            if txt == ISDIR:
                os.makedirs(p)
            else:
                with open(p, 'w', newline='') as f:
                    f.write(txt)
        if key[1].split('#')[-1] in REPEATING_LOOPED:
            sd = os.path.join(wd, 'streams')
            shutil.rmtree(sd, ignore_errors=True)
            st['streams'] = streams
            if streams is not None:
                os.makedirs(sd)
                it = int(key[1].split('#')[0])
                for fn in streams:
                    with open(os.path.join(sd, fn), 'w', newline='') as f:
                        f.write(stream_text(it, fn))

    def advance(self):
        """the condition of the loop held: the Controller instantiates the next iteration"""
        new = self.graph.instantiate_dowhile_next_iteration(self.do_while, self.iterations, True)
        self.iterations += 1
        return new

    # ---- the value of a reference now, from the harness' own record of what was written
    def keys_of(self, r):
        """the producers a reference stands for, in iteration order"""
        if is_placeholder(r):
            return [(r['stage'], '%d#%s' % (it, r['name'])) for it in range(self.iterations)]
        return [(r['stage'], r['name'])]

    def read(self, key, r):
        """-> ('F', text) | ('N',) | ('D',): the file whose contents stand for producer `key` in an output value"""
        st = self.state.get(key, {'files': {}, 'streams': None})
        if r['file'] is None and key[1].split('#')[-1] in REPEATING_LOOPED:
            fn = base.latest_stream(st['streams'])
            if fn is None:
                return ('S',)                            # nothing archived yet: path_to_stdout raises
            return ('F', stream_text(int(key[1].split('#')[0]), fn))
        fn = r['file'] or 'out.stdout'
        txt = st['files'].get(fn, MISSING)
        if fn == 'sub' or fn.rstrip('/') == 'sub':
            return ('D',) if 'sub/o.txt' in st['files'] and st['files']['sub/o.txt'] is not MISSING else ('N',)
        if txt is MISSING:
            return ('N',)
        if txt == ISDIR:
            return ('D',)
        if fn.endswith('/'):
            return ('N',)
        return ('F', txt)

    def path(self, key, r):
        return '/I/stages/stage%d/%s%s' % (key[0], key[1], '/' + r['file'] if r['file'] else '')

    def value(self, r):
        """the reference's own value (instance location written /I); ('E', class) where resolving raises"""
        keys = self.keys_of(r)
        m = r['method']
        if m in ('loopref', 'loopoutput') and not is_placeholder(r):
            return ('E', 'DataReferenceInconsistencyError')
        if m == 'loopref':
            return ('V', ' '.join(self.path(k, r) for k in keys))
        if m == 'loopoutput':
            got = [self.read(k, r) for k in keys]
            if any(g[0] == 'S' for g in got):
                return ('V', '')
            bad = sum(1 for g in got if g[0] != 'F')
            if bad == 0:
                return ('V', ' '.join(g[1].rstrip('\n') for g in got))     # one field per iteration, in order
            return ('V', '') if bad == 1 else ('E', 'InternalInconsistencyError')
        if m == 'output':
            g = self.read(keys[-1], r)
            if g[0] == 'D':
                return ('E', 'DataReferenceInconsistencyError')
            return ('V', g[1].rstrip('\n') if g[0] == 'F' else '')
        return ('V', self.path(keys[-1], r))

    # ---- Coq printing
    def coq_lref(self, r):
        if r['stage'] is None:
            raise ValueError('no direct references in the loop worlds')
        nominal = '/I/stages/stage%d/%s' % (r['stage'], r['name'])
        sr = base.coq_sref('stage%d.%s' % (r['stage'], r['name']), r['name'], r['file'], r['method'], False, nominal, False)
        if not is_placeholder(r):
            return '(mk_lref %s None)' % sr
        rep = self.graph._placeholders['stage%d.%s' % (r['stage'], r['name'])]['represents']
        insts = []
        for ident in rep:                                 # in the order the graph lists them
            nm = ident.split('.', 1)[1]
            it = int(nm.split('#')[0])
            insts.append('(mk_inst (%d)%%N %s %s)' % (it, cstr('/I/stages/stage%d/%s' % (r['stage'], nm)),
                                                      cbool(r['name'] in REPEATING_LOOPED)))
        return '(mk_lref %s (Some %s))' % (sr, clist(insts))

    def roots(self, refs):
        out = []
        for r in refs:
            for k in self.keys_of(r):
                if self.wd(k) not in out:
                    out.append(self.wd(k))
        return out

    def coq_fs(self, refs):
        fs = []
        for root in self.roots(refs):
            fs.extend(base.listing(self, root))
        return base.coq_fs(fs)

    def placeholders_ok(self, ctx):
        """(C05's subject, re-checked because the model is given the instances the graph lists)"""
        for n in LOOPED:
            pid = 'stage%d.%s' % (placeholder_stage(n), n)
            ph = self.graph._placeholders.get(pid, {})
            want = sorted('stage%d.%d#%s' % (placeholder_stage(n), it, n) for it in range(self.iterations))
            if sorted(ph.get('represents', [])) != want or ph.get('latest') != 'stage%d.%d#%s' % (
                    placeholder_stage(n), self.iterations - 1, n):
                ctx.disagree([pid, self.iterations], ph, want, 'C10 placeholder metadata of the graph vs the iterations instantiated')


def long_schedule(rng):
    """a loop that runs past its 10th iteration (the iteration numbers are compared as INTEGERS: 9 < 10 < 11); the
    consumers are resolved after iterations 0, 9, 10 and 11 only"""
    plan = []
    for it in range(12):
        step = {'quiet': it not in (0, 9, 10, 11), 'streams': [['0.stdout'], ['%d.stdout' % it], None][it % 3]}
        for n in LOOPED:
            step[n] = {'result.txt': ['%s%d\n' % (n[0], it), '', '%s%d' % (n[0], it)][(it + len(n)) % 3],
                       'out.stdout': 'o%d\n' % it}
        plan.append(step)
    return plan


def schedule(rng, fixed):
    """what each iteration of each looped component leaves behind; fixed: the boundary world of the corpus (an
    iteration that prints nothing between two that do; only newlines; a file that is not there yet)"""
    if fixed:
        res = ['0.50\n', '0.75\n', '', '0.81\n', '\n', '0.90']
        out = ['start\n', '', 'converging\n', 'converging\n\n', 'a\nb\n', MISSING]
        plan = []
        for it in range(6):
            plan.append({'step': {'result.txt': res[it], 'out.stdout': out[it], 'sub/o.txt': 'sub%d' % it},
                         'mon': {'result.txt': 'm%d\n' % it},
                         'check': {'result.txt': ['', 'c1\n', '', '', 'c4', 'c5\n'][it], 'out.stdout': 'chk %d\n' % it},
                         'late': {'result.txt': [MISSING, 'l1\n', ' ', '', 'l4\n', MISSING][it]},
                         'streams': [['0.stdout'], [], ['9.stdout', '10.stdout'], None, ['0.stdout', '1.stdout'],
                                     ['3.stdout']][it]})
        return plan
    plan = []
    for it in range(rng.choice([2, 3, 3, 4, 5])):
        step = {}
        for n in LOOPED:
            step[n] = dict((fn, text_for(rng, n, it, fn)) for fn in WRITTEN)
            if step[n]['sub/o.txt'] == ISDIR:
                step[n]['sub/o.txt'] = 'sub'
        step['streams'] = streams_for(rng, it)
        plan.append(step)
    return plan


def run_world(ctx, cases, plan, rng, terms, meta, vterms, vmeta, with_values=True):
    world = World(cases)
    try:
        g = world.graph
        entries = []
        for i, case in enumerate(cases):
            node = g.graph.nodes['stage%d.c%d' % (case['stage'], i)]
            spec, job = node['componentSpecification'], node['componentInstance']
            entries.append([spec.resolveArguments, job.resolveArguments, (lambda j=job: j.command.arguments),
                            (lambda s=spec: s.command.arguments)])
        failed = set()
        wants = [[] for _ in cases]
        for it, step in enumerate(plan):
            if it > 0:
                world.advance()
            world.placeholders_ok(ctx)
            for n in LOOPED:
                world.put((placeholder_stage(n), '%d#%s' % (it, n)), step[n], step['streams'])
            if it > 0 and rng.random() < 0.35:
                # an earlier iteration loses / empties / rewrites a file
                n, j = rng.choice(sorted(LOOPED)), rng.randrange(it)
                fn = rng.choice(WRITTEN[:2])
                world.put((placeholder_stage(n), '%d#%s' % (j, n)), {fn: rng.choice([MISSING, '', 'late %d\n' % it])},
                          world.state[(placeholder_stage(n), '%d#%s' % (j, n))]['streams'])
                ctx.count('loop_earlier_iteration_rewritten')
            if step.get('quiet'):
                continue
            for i, case in enumerate(cases):
                order = base.processing_order(case['declared'])
                vals = dict((base.r_abs(r), world.value(r)) for r in case['declared'])
                value = lambda r: vals[base.r_abs(r)][1] if vals[base.r_abs(r)][0] == 'V' else ''
                errs = [vals[base.r_abs(r)][1] for r in order if vals[base.r_abs(r)][0] == 'E']
                subst = 'V' + ''.join((x if k2 == 'L' or denotation(case['stage'], case['declared'], x) is None
                                       else value(denotation(case['stage'], case['declared'], x))) for k2, x in case['pieces'])
                want = ('E:' + errs[0]) if errs else subst
                # ComponentSpecification.command.arguments resolves with ignoreErrors=True: an InternalInconsistencyError
                # (two or more iterations of a loopoutput reference cannot be read) leaves the value ''
                hard = [e for e in errs if e != 'InternalInconsistencyError']
                want_ig = ('E:' + hard[0]) if hard else subst
                if errs:
                    ctx.count('loop_step_raises')
                wants[i].append(want)
                got = []
                for e in entries[i]:
                    try:
                        got.append('V' + world.canon(e()))
                    except Exception as ex:
                        got.append('E:' + type(ex).__name__)
                ctx.count('loop_resolutions', len(got))
                for name, gt, wt in zip(ENTRY_POINTS, got, [want, want, want, want_ig]):
                    if gt != wt and i not in failed:
                        failed.add(i)
                        ctx.fail(dict(case, loop={'plan': plan[:it + 1], 'iteration': it}),
                                 'after iteration %d of a DoWhile loop, %s of an outside consumer: the command line does not show '
                                 'the values its references to the looped components have now - latest instance for ref / '
                                 'output, one field per iteration in order for loopref / loopoutput (got %r, expected %r)'
                                 % (it, name, gt[:300], wt[:300]), classes_of(case, value))
                if want_ig != want:
                    got = got[:3]                        # the model is that of the calls that do not ignore errors
                    ctx.count('loop_step_internal_inconsistency_ignored_by_command_arguments')
                gt = got[(it + i) % len(got)] if len(set(got)) == 1 else [x for x in got if x != want][0]
                terms.append(cpair(cpair(cpair(clist([world.coq_lref(r) for r in order]),
                                               clist(['(%s %s)' % ('Tok' if k == 'T' else 'Lit', cstr(x)) for k, x in case['pieces']])),
                                         world.coq_fs(order)), cstr(gt if gt[0] == 'V' else 'E')))
                meta.append((case, it, got))
        for i, case in enumerate(cases):
            changes = sum(1 for a, b in zip(wants[i], wants[i][1:]) if a != b)
            ctx.case([case['stage'], [r['declared_as'] for r in case['declared']], case['pieces'], 'loop', plan], changes >= 1)
            ctx.count('loop_cases')
            for m in set(r['method'] for r in case['declared'] if is_placeholder(r)):
                ctx.count('loop_cases_placeholder_' + m)
            if any(is_placeholder(r) and r['method'] == 'loopoutput' for r in case['declared']) and any(
                    w.startswith('V') and '  ' in w for w in wants[i]):
                ctx.count('loop_cases_with_an_empty_field_or_value')
        ctx.count('loop_iterations', len(plan))
        # ---- real DataReference objects against LoopModel.lresolve, on the final state of the world
        from experiment.model.graph import DataReference
        pool = []
        for n in sorted(LOOPED):
            for fl in [None, 'result.txt', 'missing.txt', 'sub/'] + ([] if ctx.tier == 'quick' else ['sub/o.txt', 'sub']):
                for m in base.METHODS:
                    pool.append({'stage': placeholder_stage(n), 'name': n, 'file': fl, 'method': m})
        for st, n in ORDINARY:
            for fl in [None, 'result.txt'][:1 if ctx.tier == 'quick' else 2]:
                for m in ['ref', 'output', 'loopref', 'loopoutput']:
                    pool.append({'stage': st, 'name': n, 'file': fl, 'method': m})
        if not with_values:
            pool = []
        for k, r in enumerate(pool):
            obj = DataReference(base.r_abs(r), stageIndex=2)
            try:
                o = 'V' + world.canon(obj.resolve(g))
            except Exception as e:
                o = type(e).__name__
                if o == 'DataReferenceFilesDoNotExistError':
                    o += '/%d' % len(e.referenceErrors)
            vterms.append(cpair(cpair(world.coq_lref(r), world.coq_fs([r])),
                                cpair(cpair(cstr(obj.absoluteReference), cstr(obj.relativeReference)), cstr(o))))
            vmeta.append((dict(r, iterations=world.iterations), [obj.absoluteReference, obj.relativeReference, o]))
            ctx.count('loop_value_' + (o[:1] if o.startswith('V') else o))
            # the harness' own record against the real object (keeps the Python oracle honest on the whole pool)
            v = world.value(r)
            if r['method'] in ('ref', 'output', 'loopref', 'loopoutput') and r['file'] not in ('sub', 'sub/'):
                mine = 'V' + v[1] if v[0] == 'V' else v[1]
                real = o
                if o.startswith('DataReferenceFilesDoNotExistError/'):
                    real = 'V' if o.endswith('/1') and r['method'] in ('output', 'loopoutput') else 'InternalInconsistencyError'
                if mine != real:
                    ctx.fail({'stage': 2, 'declared': [dict(r, declared_as=base.r_abs(r))], 'pieces': [['T', base.r_abs(r)]],
                              'loop': {'plan': plan, 'iteration': len(plan) - 1}},
                             'DataReference(%s).resolve after %d iterations gives %r, its own value is %r'
                             % (base.r_abs(r), world.iterations, o[:200], mine[:200]), [])
    finally:
        world.close()


def explore_loops(ctx, only=None):
    rng = ctx.rng
    t0 = time.time()
    terms, meta, vterms, vmeta = [], [], [], []
    if only is not None:
        worlds = [([only], only['loop']['plan'])]
    else:
        nworlds, ncases = (3, 22) if ctx.tier == 'quick' else (10, 30)
        worlds = []
        for w in range(nworlds):
            cases = [dict(c) for c in loop_corpus()] if w < 2 else []
            if w == 0:
                cases[2]['observer'] = True
            while len(cases) < ncases:
                c = gen_loop_case(rng)
                if c is None:
                    continue
                if classes_of(c, lambda r: '') and rng.random() < 0.8:
                    continue
                cases.append(c)
            worlds.append((cases, schedule(rng, fixed=(w == 0))))
        # a loop of 12 iterations, few consumers
        cases = [dict(c) for c in loop_corpus()]
        while len(cases) < (8 if ctx.tier == 'quick' else 20):
            c = gen_loop_case(rng)
            if c is not None and not classes_of(c, lambda r: ''):
                cases.append(c)
        worlds.insert(1, (cases, long_schedule(rng)))
    for w, (cases, plan) in enumerate(worlds):
        run_world(ctx, cases, plan, rng, terms, meta, vterms, vmeta,
                  with_values=(ctx.tier != 'quick' or w in (0, len(worlds) - 1)))
        ctx.count('loop_worlds')
    t1 = time.time()
    bad = ctx.model_mismatches(HEADER_L, terms, 'check_loop_live', chunk=max(20, min(120, -(-len(terms) // common.NPROC))),
                               name='loops')
    for k, i in enumerate(bad):
        case, it, got = meta[i]
        m = ctx.model_eval(HEADER_L, 'let c := %s in (resolve_on_l (snd (fst c)) (fst (fst (fst c))) (flatten (snd (fst (fst c)))), '
                                     'separated_onb_l (snd (fst c)) (fst (fst (fst c))) (snd (fst (fst c))))' % terms[i]) if k < 3 else ''
        ctx.disagree(case, {'iteration': it, 'answers': got}, m,
                     'C10 resolveArguments of a consumer outside a DoWhile loop (references to placeholders; loopref / loopoutput) '
                     'vs Args.LoopModel.resolve_on_l on the instances and the file system of that moment; = spec_on_l where '
                     'separated_onb_l holds')
    bad = ctx.model_mismatches(HEADER_L, vterms, 'check_lvalue', chunk=max(40, min(200, -(-len(vterms) // common.NPROC))),
                               name='loopvalues')
    for k, i in enumerate(bad):
        m = ctx.model_eval(HEADER_L, 'let c := %s in (l_abs (fst (fst c)), l_rel (fst (fst c)), '
                                     'outcome_l (lresolve (snd (fst c)) (fst (fst c))))' % vterms[i]) if k < 3 else ''
        ctx.disagree(vmeta[i][0], vmeta[i][1], m, 'C10 DataReference to a placeholder (spellings / resolve / number of missing paths) '
                                                  'vs Args.LoopModel.lresolve')
    ctx.count('loop_value_cases', len(vterms))
    ctx.extra.setdefault('phase_s', {}).update({'loops_implementation': round(t1 - t0, 1),
                                                'loops_model': round(time.time() - t1, 1)})
