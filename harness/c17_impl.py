"""C17 implementation driver (run as a subprocess so that os.environ can be replaced wholesale per case).

usage: c17_impl.py CASES.json OUT.json
Each case: {'platform', 'envs': {'default': [[name, [[k, v], ...]], ...], 'p': [...]}, 'sysv': [[k, v]...],
            'launch': [[k, v]...], 'name': None|str, 'interp': bool}
For each case the real FlowIRConcrete -> FlowIRExperimentConfiguration -> WorkflowGraph are built in memory exactly as
WorkflowGraph.graphFromFlowIR does (plus system_vars, which graphFromFlowIR cannot pass), os.environ is replaced by
the case's launch environment, and
  full  = WorkflowGraph.environmentForNode('stage0.c')
  unexp = WorkflowGraph.environmentWithName(name, expand=False)
  held  = the environment names (with their variable names) FlowIRConcrete holds per platform after FlowIR.from_dict
are returned (exceptions as their class name).
A case {'subst': {'m': [[k, v]...], 's': text}} instead returns flowir.expand_vars(text, m) (string.Template.safe_substitute)
and os.path.expandvars(text) under os.environ = m."""
import json
import logging
import os
import sys

logging.disable(logging.CRITICAL)


def main():
    cases = json.load(open(sys.argv[1]))
    import experiment.model.graph as G
    import experiment.model.conf as C
    import experiment.model.frontends.flowir as F

    keep = dict(os.environ)
    out = []
    for c in cases:
        if 'subst' in c:     # the two substitution functions alone
            os.environ.clear()
            os.environ.update({k: v for k, v in c['subst']['m']})
            try:
                out.append({'tm': F.expand_vars(c['subst']['s'], {k: v for k, v in c['subst']['m']}),
                            'os': os.path.expandvars(c['subst']['s'])})
            except Exception as e:  # noqa
                out.append({'tm': 'EXC ' + type(e).__name__, 'os': 'EXC'})
            finally:
                os.environ.clear()
                os.environ.update(keep)
            continue
        envs = {plat: {n: {k: v for k, v in kv} for n, kv in tab} for plat, tab in c['envs'].items()}
        cmd = {'executable': 'echo'}
        if c['name'] is not None:
            cmd['environment'] = c['name']
        if c['interp']:
            cmd['interpreter'] = 'bash'
        doc = {'environments': envs, 'platforms': ['default', 'p'],
               'components': [{'name': 'c', 'stage': 0, 'command': cmd}]}
        r = {}
        os.environ.clear()
        os.environ.update({k: v for k, v in c['launch']})
        try:
            try:
                conc = F.FlowIRConcrete(doc, c['platform'], {})
                conf = C.FlowIRExperimentConfiguration(
                    concrete=conc, path=None, is_instance=False, primitive=True, manifest={},
                    createInstanceFiles=False, updateInstanceFiles=False, variable_substitute=True,
                    platform=c['platform'], variable_files=None, system_vars={k: v for k, v in c['sysv']},
                    config_patches=None, validate=False)
                g = G.WorkflowGraph(configuration=conf, platform=c['platform'], primitive=True)
                r['held'] = {plat: [[n, list(e.keys())] for n, e in conc.get_environments(plat).items()]
                             for plat in ('default', 'p')}
            except Exception as e:  # noqa
                r['build'] = type(e).__name__ + ': ' + str(e)[:300]
                out.append(r)
                continue
            try:
                env = g.environmentForNode('stage0.c')
                r['full'] = [[k, v] for k, v in env.items()]
                if not all(isinstance(k, str) and isinstance(v, str) for k, v in env.items()):
                    r['full'] = 'NONSTRING: %r' % (env,)
            except Exception as e:  # noqa
                r['full'] = type(e).__name__
            try:
                env = g.environmentWithName(c['name'], expand=False)
                r['unexp'] = [[k, v] for k, v in env.items()]
                if not all(isinstance(k, str) and isinstance(v, str) for k, v in env.items()):
                    r['unexp'] = 'NONSTRING: %r' % (env,)
            except Exception as e:  # noqa
                r['unexp'] = type(e).__name__
            if list(os.environ.items()) != [(k, v) for k, v in c['launch']]:
                r['launch_modified'] = dict(os.environ)
        finally:
            os.environ.clear()
            os.environ.update(keep)
        out.append(r)
    json.dump(out, open(sys.argv[2], 'w'))
    sys.stdout.flush()
    os._exit(0)


main()
