"""C17 implementation driver (run as a subprocess so that os.environ can be replaced wholesale per case).

usage: c17_impl.py CASES.json OUT.json
Each case: {'platform', 'envs': {'default': [[name, [[k, v], ...]], ...], 'p': [...]}, 'sysv': [[k, v]...],
            'launch': [[k, v]...], 'name': None|str, 'interp': bool}
For each case the real FlowIRConcrete -> FlowIRExperimentConfiguration -> WorkflowGraph are built in memory exactly as
WorkflowGraph.graphFromFlowIR does (plus system_vars, which graphFromFlowIR cannot pass), os.environ is replaced by
the case's launch environment, and
  full  = WorkflowGraph.environmentForNode('stage0.c')
  unexp = WorkflowGraph.environmentWithName(name, expand=False)
  held  = the environment names (with their variable names) FlowIRConcrete holds per platform after FlowIR.from_dict
are returned (exceptions as their class name).
A case {'subst': {'m': [[k, v]...], 's': text}} instead returns flowir.expand_vars(text, m) (string.Template.safe_substitute)
and os.path.expandvars(text) under os.environ = m.
A case {'session': {...}} is a SEQUENCE of questions put to ONE FlowIRConcrete built from a three-platform document with global
variables (see harness/c17_session.py): instance()/replicate() for a platform ([environments][default] of the result),
get_environment(name, platform) and a FlowIRExperimentConfiguration built on the object for a platform (primitive or
not; environmentForNode of a component and environmentWithName(name, expand=False)).  Every question is also put to a
FRESH object built from the same document, and the configuration questions to a fresh object built from the document
WITHOUT the environments of any other name.
A case {'csession': {...}} is a sequence of CHANGES and questions put to ONE FlowIRExperimentConfiguration created from such a
document ('init': platform / nonprim / sysv / launch): parametrize(platform, systemvars, primitive) as graphFromPackage() /
experimentFromPackage() call it on the configuration object of a package, add_environment(name, environment, platform),
os.environ replaced by another launch environment; questions environmentForNode(component) + environmentWithName(its
environment, expand=False), environmentWithName(name), defaultEnvironment().  Every question is also put to a FRESH
configuration object created from the same document for the CURRENT platform / route / system variables, to which the
add_environment calls made since the last parametrize() are replayed, under the current launch environment."""
import json
import logging
import os
import sys

logging.disable(logging.CRITICAL)


def session_doc(s, only=None):
    envs = {plat: {n: {k: v for k, v in kv} for n, kv in tab if only is None or n.lower() == only}
            for plat, tab in s['envs'].items()}
    variables = {plat: {'global': {k: v for k, v in kvs}} for plat, kvs in s['globals'].items()}
    comps = []
    for i, cm in enumerate(s['comps']):
        cmd = {'executable': 'echo'}
        if cm['name'] is not None:
            cmd['environment'] = cm['name']
        if cm['interp']:
            cmd['interpreter'] = 'bash'
        comps.append({'name': 'c%d' % i, 'stage': 0, 'command': cmd})
    return {'environments': envs, 'variables': variables, 'platforms': list(s['platforms']), 'components': comps}


def canon_env(env):
    if not all(isinstance(k, str) and isinstance(v, str) for k, v in env.items()):
        return 'NONSTRING: %r' % (env,)
    return [[k, v] for k, v in env.items()]


def session_op(F, C, conc, op, s):
    """one question; the answer is JSON (exceptions as their class name)"""
    kind = op['op']
    try:
        if kind in ('instance', 'replicate'):
            if kind == 'instance':
                doc = conc.instance(platform=op['platform'], ignore_errors=True, is_primitive=bool(op.get('primitive')))
            else:
                doc = conc.replicate(platform=op['platform'], ignore_errors=True)
            envs = doc['environments']
            if sorted(envs) != ['default']:
                return 'PLATFORMS: %r' % (sorted(envs),)
            return [[n, [[k, v] for k, v in e.items()]] for n, e in envs['default'].items()]
        if kind == 'get':
            if op['explicit']:
                return canon_env(conc.get_environment(op['name'], platform=op['platform']))
            conc.configure_platform(op['platform'])
            return canon_env(conc.get_environment(op['name']))
        if kind == 'node':
            conc.configure_platform(op['platform'])
            conf = C.FlowIRExperimentConfiguration(
                concrete=conc, path=None, is_instance=False, primitive=not op['nonprim'], manifest={},
                createInstanceFiles=False, updateInstanceFiles=False, variable_substitute=True,
                platform=op['platform'], variable_files=None, system_vars={k: v for k, v in s['sysv']},
                config_patches=None, validate=False)
            cm = s['comps'][op['comp']]
            r = {}
            try:
                r['full'] = canon_env(conf.environmentForNode('stage0.c%d' % op['comp']))
            except Exception as e:  # noqa
                r['full'] = type(e).__name__
            try:
                r['unexp'] = canon_env(conf.environmentWithName(cm['name'], expand=False))
            except Exception as e:  # noqa
                r['unexp'] = type(e).__name__
            return r
        return 'BADOP'
    except Exception as e:  # noqa
        return type(e).__name__


def run_session(F, C, s):
    first = s['ops'][0]['platform'] if s['ops'] else 'default'
    shared = F.FlowIRConcrete(session_doc(s), first, {})
    out = []
    for op in s['ops']:
        r = {'ans': session_op(F, C, shared, op, s)}
        r['fresh'] = session_op(F, C, F.FlowIRConcrete(session_doc(s), op['platform'], {}), op, s)
        if op['op'] == 'node':
            nm = (s['comps'][op['comp']]['name'] or 'environment').lower()
            r['iso'] = session_op(F, C, F.FlowIRConcrete(session_doc(s, only=nm), op['platform'], {}), op, s)
        out.append(r)
    return out


def new_conf(F, C, s, plat, nonprim, sysv):
    return C.FlowIRExperimentConfiguration(
        concrete=F.FlowIRConcrete(session_doc(s), plat, {}), path=None, is_instance=False, primitive=not nonprim, manifest={},
        createInstanceFiles=False, updateInstanceFiles=False, variable_substitute=True, platform=plat, variable_files=None,
        system_vars={k: v for k, v in sysv}, config_patches=None, validate=False)


def conf_add(conf, op, plat):
    target = {None: None, 'default': 'default', 'active': plat}[op['target']]
    try:
        conf.add_environment(op['name'], {k: v for k, v in op['env']}, target)
        return 'stored'
    except Exception as e:  # noqa
        return type(e).__name__


def conf_question(conf, op, s):
    kind = op['op']
    if kind == 'node':
        cm = s['comps'][op['comp']]
        r = {}
        try:
            r['full'] = canon_env(conf.environmentForNode('stage0.c%d' % op['comp']))
        except Exception as e:  # noqa
            r['full'] = type(e).__name__
        try:
            r['unexp'] = canon_env(conf.environmentWithName(cm['name'], expand=False))
        except Exception as e:  # noqa
            r['unexp'] = type(e).__name__
        return r
    try:
        if kind == 'name':
            return canon_env(conf.environmentWithName(op['name']))
        if kind == 'default':
            return canon_env(dict(conf.defaultEnvironment()))
    except Exception as e:  # noqa
        return type(e).__name__
    return 'BADOP'


def set_launch(launch):
    os.environ.clear()
    os.environ.update({k: v for k, v in launch})


def run_csession(F, C, s):
    """returns (answers, the launch environment that must be in place at the end)"""
    init = s['init']
    plat, nonprim, sysv, launch = init['platform'], init['nonprim'], init['sysv'], init['launch']
    set_launch(launch)
    conf = new_conf(F, C, s, plat, nonprim, sysv)
    adds = []                  # add_environment calls since the object was (re)parametrized
    out = []
    for op in s['ops']:
        kind = op['op']
        if kind == 'param':
            plat, nonprim, sysv = op['platform'], op['nonprim'], op['sysv']
            try:
                ret = conf.parametrize(platform=plat, variable_files=None, systemvars={k: v for k, v in sysv}, is_instance=False,
                                       createInstanceFiles=False, primitive=not nonprim, updateInstanceFiles=False,
                                       validate=False)
                out.append({'ans': 'ok' if ret is conf else 'NOTSELF'})
            except Exception as e:  # noqa
                out.append({'ans': type(e).__name__ + ': ' + str(e)[:200]})
            adds = []
        elif kind == 'launch':
            launch = op['launch']
            set_launch(launch)
            out.append({'ans': 'ok'})
        else:
            fresh = new_conf(F, C, s, plat, nonprim, sysv)
            for a in adds:
                conf_add(fresh, a, plat)
            if kind == 'add':
                out.append({'ans': conf_add(conf, op, plat), 'fresh': conf_add(fresh, op, plat)})
                adds.append(op)
            else:
                out.append({'ans': conf_question(conf, op, s), 'fresh': conf_question(fresh, op, s)})
    return out, launch


def main():
    cases = json.load(open(sys.argv[1]))
    import experiment.model.graph as G
    import experiment.model.conf as C
    import experiment.model.frontends.flowir as F

    keep = dict(os.environ)
    out = []
    for c in cases:
        if 'subst' in c:     # the two substitution functions alone
            os.environ.clear()
            os.environ.update({k: v for k, v in c['subst']['m']})
            try:
                out.append({'tm': F.expand_vars(c['subst']['s'], {k: v for k, v in c['subst']['m']}),
                            'os': os.path.expandvars(c['subst']['s'])})
            except Exception as e:  # noqa
                out.append({'tm': 'EXC ' + type(e).__name__, 'os': 'EXC'})
            finally:
                os.environ.clear()
                os.environ.update(keep)
            continue
        if 'session' in c:
            s = c['session']
            os.environ.clear()
            os.environ.update({k: v for k, v in s['launch']})
            try:
                try:
                    r = {'ops': run_session(F, C, s)}
                except Exception as e:  # noqa
                    r = {'build': type(e).__name__ + ': ' + str(e)[:300]}
                if list(os.environ.items()) != [(k, v) for k, v in s['launch']]:
                    r['launch_modified'] = dict(os.environ)
            finally:
                os.environ.clear()
                os.environ.update(keep)
            out.append(r)
            continue
        if 'csession' in c:
            s = c['csession']
            launch = s['init']['launch']
            try:
                try:
                    ops, launch = run_csession(F, C, s)
                    r = {'ops': ops}
                except Exception as e:  # noqa
                    r = {'build': type(e).__name__ + ': ' + str(e)[:300]}
                if list(os.environ.items()) != [(k, v) for k, v in launch]:
                    r['launch_modified'] = dict(os.environ)
            finally:
                os.environ.clear()
                os.environ.update(keep)
            out.append(r)
            continue
        envs = {plat: {n: {k: v for k, v in kv} for n, kv in tab} for plat, tab in c['envs'].items()}
        cmd = {'executable': 'echo'}
        if c['name'] is not None:
            cmd['environment'] = c['name']
        if c['interp']:
            cmd['interpreter'] = 'bash'
        doc = {'environments': envs, 'platforms': ['default', 'p'],
               'components': [{'name': 'c', 'stage': 0, 'command': cmd}]}
        r = {}
        os.environ.clear()
        os.environ.update({k: v for k, v in c['launch']})
        try:
            try:
                conc = F.FlowIRConcrete(doc, c['platform'], {})
                conf = C.FlowIRExperimentConfiguration(
                    concrete=conc, path=None, is_instance=False, primitive=True, manifest={},
                    createInstanceFiles=False, updateInstanceFiles=False, variable_substitute=True,
                    platform=c['platform'], variable_files=None, system_vars={k: v for k, v in c['sysv']},
                    config_patches=None, validate=False)
                g = G.WorkflowGraph(configuration=conf, platform=c['platform'], primitive=True)
                r['held'] = {plat: [[n, list(e.keys())] for n, e in conc.get_environments(plat).items()]
                             for plat in ('default', 'p')}
            except Exception as e:  # noqa
                r['build'] = type(e).__name__ + ': ' + str(e)[:300]
                out.append(r)
                continue
            try:
                env = g.environmentForNode('stage0.c')
                r['full'] = [[k, v] for k, v in env.items()]
                if not all(isinstance(k, str) and isinstance(v, str) for k, v in env.items()):
                    r['full'] = 'NONSTRING: %r' % (env,)
            except Exception as e:  # noqa
                r['full'] = type(e).__name__
            try:
                env = g.environmentWithName(c['name'], expand=False)
                r['unexp'] = [[k, v] for k, v in env.items()]
                if not all(isinstance(k, str) and isinstance(v, str) for k, v in env.items()):
                    r['unexp'] = 'NONSTRING: %r' % (env,)
            except Exception as e:  # noqa
                r['unexp'] = type(e).__name__
            if list(os.environ.items()) != [(k, v) for k, v in c['launch']]:
                r['launch_modified'] = dict(os.environ)
        finally:
            os.environ.clear()
            os.environ.update(keep)
        out.append(r)
    json.dump(out, open(sys.argv[2], 'w'))
    sys.stdout.flush()
    os._exit(0)


main()
