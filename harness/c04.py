"""C04 — Resolved component configuration follows the documented layering order.

Implementation driven (in-process, real code):
  FlowIRConcrete(doc, platform, {}) ; FlowIRExperimentConfiguration._patch_in_variable_files(files, concrete, errs)
  (real YAML files in a scratch directory) ; concrete.get_component_configuration(comp_id, raw=True|False,
  include_default=True)  -> get_component_variables, override_object, inject_default_values_to_component,
  fill_in / interpolate, convert_component_types.

Compared with coq/Conf/Model.v (resolve_raw, resolve: one-pass interpolation) AND coq/Conf/Rescan.v (resolve_rs: the
re-scanning loop of FlowIR.interpolate) inside Coq (check_case_both; check_case_rs alone for the cases whose text
carries a literal '%' next to a reference, where only the re-scanning model is faithful), and checked directly
against the property predicates (precedence per leaf path, no leak between platforms/stages, interpolation, types).
FlowIR.interpolate itself is also driven on generated (variables, string) pairs whose values are built from
fragments of the reference syntax ('%', '%(', ')s', names), compared with Rescan.interp_string_rs (check_interp_rs).

The same question is also put THROUGH FlowIRConcrete.instance(platform) / replicate(platform) (the route of every
non-primitive FlowIRExperimentConfiguration; for a subset through ExperimentConfigurationFactory.configurationForExperiment
(platform=P, primitive=False) on a scratch package): the variables of the generated instance are compared with
coq/Conf/Instance.v (inst_global / inst_stage / pre-resolution, check_instance) and judged against the documented order,
and the configuration resolved from FlowIRConcrete(instance, 'default') must equal the one resolved directly whenever
no global/stage variable (transitively) references a variable that a narrower scope redefines (instance() binds the
references of global and stage variables early, in their own scope).

SESSIONS (several look-ups on ONE FlowIRConcrete): documents with a SIBLING component in the stage of the component
under test are asked a sequence - instance()/replicate() of a platform (also inject_missing_fields=False / is_primitive /
fill_in_all), look-ups with the unusual options (inject_missing_fields=False, include_default=False, raw, is_primitive,
ignore_convert_errors), raw() - followed by the strict look-up (raw and resolved) for three (platform, component) pairs:
each strict answer is judged by the same predicates and compared with the same models, which read the ORIGINAL
document; each answer of the sequence must also equal the answer of the same call on a fresh object.

REPLICATION: documents whose component under test replicates (workflowAttributes.replicate / aggregate as references to
variables that several layers define differently) are driven through replicate() / FlowIRExperimentConfiguration(
primitive=False): number of replicas and the resolved options judged against the documented order and compared with
coq/Conf/Replicate.v (repl_count / repl_aggregate, check_replicate).

Not covered (never generated): array-index expansion (`[`), the `interpreter` rewrite, memory/qos converters,
float literals inside strings."""
import copy
import glob
import json
import zlib
import os
import re
import shutil
import sys
import tempfile

from common import cstr, cZ, clist, cpair, cjv

PROP = 'C04'
COQ_DIR = 'Conf'
ASSUMPTIONS = [
    'the table of built-in defaults is not part of the model: FlowIR.default_component_structure() is read from the '
    'running code on every run and passed to the model as the parameter dflt',
    'two models of interpolate are compared: the single left-to-right pass of Model.v (theorem C04_interp) and the '
    're-scanning loop of Rescan.v (theorem C04_rescan), proved equal on text without literal % (C04_rescan_one_pass); '
    'cases with literal % next to references are compared with the re-scanning model only; its loop fuel is '
    'len(string)+1+64 (a case in which the code substitutes more often would show as a disagreement); array-index '
    'expansion ([ ]) and the interpreter rewrite are not modelled and never generated',
    'a call of FlowIR.interpolate that runs longer than 5 s (text growing by repeated substitution) is counted and not compared',
    'exceptions are compared by class (and variable name for FlowIRVariableUnknown / FlowIRVariableInvalid); '
    'RecursionError of the implementation corresponds to fuel exhaustion (fuel = number of variables + 1) of the model',
    'the component field `override` is carried through by the implementation and removed before comparing',
    'instance()/replicate() are driven with ignore_errors=True (what FlowIRExperimentConfiguration.replicate passes); the '
    'partial resolution that fill_in(ignore_errors=True) performs on global and component variables whose '
    'interpolation met an unknown variable is not modelled (any text is accepted there); which exception instance() '
    'raises is not compared, only whether it raises',
    'the configuration resolved through the instance is required to EQUAL the directly resolved one only for '
    'scope-closed cases (no global/stage variable reaches, through references, a variable redefined in a narrower '
    'scope): elsewhere instance() binds early by design and the two legitimately differ',
    'sessions: the answers of the calls with unusual options (inject_missing_fields=False, include_default=False, '
    'is_primitive, instance(), raw()) are not modelled: they are only required to be the same on a used and on a '
    'fresh object; the strict look-ups that follow them are compared with the model of the original document',
    'replication: the sections of variables hold scalars only, so override_object of apply_replicate is modelled as '
    'dict.update; only whether replicate() raises is compared, not which exception; on the FlowIRExperimentConfiguration '
    'route (validate=False: the constructor keeps its errors) a failed replicate() is recognised by the configuration '
    'still holding all platforms of the package; a replica whose other options do not resolve is only counted',
]
HEADER = 'Require Import V.Lib.JTree V.Conf.Model V.Conf.Rescan V.Conf.Instance.\nOpen Scope string_scope.'
CHECKER = 'check_case_both'
CHECKER_RS = 'check_case_rs'
CHECKER_INST = 'check_instance'
CORPUS = os.path.join(os.path.dirname(os.path.abspath(__file__)), 'corpus', 'c04')

VAR_RE = re.compile(r'%\(([a-zA-Z0-9_.-]+)\)s')

# (path, kind) of the options the generator varies
OPTS = [
    (('command', 'executable'), 'str'),
    (('command', 'arguments'), 'str'),
    (('command', 'resolvePath'), 's2b'),
    (('resourceManager', 'config', 'backend'), 'str'),
    (('resourceManager', 'config', 'walltime'), 'float'),
    (('resourceManager', 'lsf', 'queue'), 'str'),
    (('resourceRequest', 'numberProcesses'), 'int'),
    (('workflowAttributes', 'shutdownOn'), 'list'),
    (('workflowAttributes', 'restartHookOn'), 'list'),
    (('workflowAttributes', 'repeatInterval'), 'optint'),
    (('workflowAttributes', 'maxRestarts'), 'optint'),
    (('workflowAttributes', 'isMigratable'), 'bool'),
    (('workflowAttributes', 'memoization', 'disable', 'strong'), 'bool'),
    (('executors', 'pre'), 'exec'),
]
# declared Python types of typed leaves (mirror of expected_types), used by the type predicate
PY_TYPES = {
    ('command', 'executable'): str, ('command', 'arguments'): str, ('command', 'resolvePath'): bool,
    ('resourceManager', 'config', 'backend'): str, ('resourceManager', 'config', 'walltime'): float,
    ('resourceManager', 'lsf', 'queue'): str, ('resourceRequest', 'numberProcesses'): int,
    ('workflowAttributes', 'repeatInterval'): int, ('workflowAttributes', 'maxRestarts'): int,
    ('workflowAttributes', 'isMigratable'): bool, ('workflowAttributes', 'aggregate'): bool,
    ('workflowAttributes', 'memoization', 'disable', 'strong'): bool,
    ('workflowAttributes', 'optimizer', 'disable'): bool,
}
BOOL_PATHS = [p for p, t in PY_TYPES.items() if t is bool]
VARS = ['v0', 'v1', 'v2', 'v3', 'v4', 'v5', 'n', 'flag']
OPT_LAYERS = ['dg', 'ds', 'pg', 'ps', 'qg', 'qs', 'ds1', 'comp', 'ovd', 'ovp', 'ovq']
VAR_LAYERS = ['dg', 'ds', 'pg', 'ps', 'qg', 'qs', 'ds1', 'ug', 'us', 'us1', 'ug2', 'cv', 'ovd', 'ovp', 'ovq']


# ------------------------------------------------------------------ helpers on trees
def put(d, path, v):
    for k in path[:-1]:
        if not isinstance(d.get(k), dict):   # (a None / scalar placeholder put there by an earlier injection)
            d[k] = {}
        d = d[k]
    d[path[-1]] = v


def get(d, path, default=None):
    for k in path:
        if not isinstance(d, dict) or k not in d:
            return default
        d = d[k]
    return d


def leaves(t, pre=()):
    """(path, value) of every non-dict value; lists are leaves"""
    if isinstance(t, dict):
        for k, v in t.items():
            for x in leaves(v, pre + (k,)):
                yield x
    else:
        yield pre, t


def strings(t):
    if isinstance(t, dict):
        for v in t.values():
            for x in strings(v):
                yield x
    elif isinstance(t, (list, tuple)):
        for v in t:
            for x in strings(v):
                yield x
    elif isinstance(t, str):
        yield t


def fix_stage_keys(o):
    """JSON turned the integer stage keys into strings: undo (for replay / corpus files)"""
    if isinstance(o, dict):
        out = {}
        for k, v in o.items():
            v = fix_stage_keys(v)
            if k == 'stages' and isinstance(v, dict):
                v = {int(a): b for a, b in v.items()}
            out[k] = v
        return out
    if isinstance(o, list):
        return [fix_stage_keys(x) for x in o]
    return o


# ------------------------------------------------------------------ generator
def gen_value(rng, kind, tag, short):
    r = rng.random()
    ref = lambda: '%%(v%d)s' % rng.randrange(6)
    if r < 0.04:
        return None
    if kind == 'str':
        if r < 0.08:
            return ''
        s = '%s-%s' % (tag, short)
        if r < 0.5:
            s += ' ' + ref()
        if r < 0.15:
            s = ref() + '/' + s
        return s
    if kind == 'int':
        return rng.choice([rng.randrange(0, 10), str(rng.randrange(1, 99)), '%(n)s', '-3', '+5', '007', True])
    if kind == 'optint':
        return rng.choice([None, 0, rng.randrange(1, 10), str(rng.randrange(1, 9)), '%(n)s', False])
    if kind == 'float':
        return rng.choice([rng.randrange(1, 100), 45.5, 0.25, str(rng.randrange(1, 50)), '%(n)s', 120.0])
    if kind == 's2b':
        return rng.choice([True, False, 'yes', 'No', 'TRUE', 'false', '%(flag)s'])
    if kind == 'bool':
        return rng.choice([True, False, True, False, '%(flag)s', 'false', 'Yes', 0, 1])
    if kind == 'list':
        return rng.choice([[], ['%s-KnownIssue' % tag], ['ResourceExhausted', ref()], ['Killed', 'SubmissionFailed']])
    if kind == 'exec':
        return rng.choice([[], [{'name': 'lsf-dm-in', 'payload': '%s %s' % (tag, ref())}]])
    raise ValueError(kind)


def gen_var_value(rng, name, tag):
    r = rng.random()
    if name == 'n':
        return rng.choice([rng.randrange(1, 9), str(rng.randrange(1, 9)), 7])
    if name == 'flag':
        return rng.choice([True, False, 'yes', 'no', 'false', 'True'])
    i = int(name[1:])
    if r < 0.08:
        return rng.choice([rng.randrange(-5, 50), True, False, 2.5])
    s = '%s.%s' % (tag, name)
    if i < 5 and r < 0.6:
        j = rng.randrange(i + 1, 6)
        s += '<%%(v%d)s>' % j
        if r < 0.15 and j < 5:
            s += '%%(v%d)s' % rng.randrange(j, 6)
    return s


def layer_slot(doc, files, layer):
    """returns (option dict to fill or None, variable dict to fill or None) for a layer tag"""
    bp, vs = doc['blueprint'], doc['variables']
    comp = doc['components'][0]
    plat = {'d': 'default', 'p': 'p', 'q': 'q'}
    if layer in ('dg', 'pg', 'qg'):
        P = plat[layer[0]]
        return bp.setdefault(P, {}).setdefault('global', {}), vs.setdefault(P, {}).setdefault('global', {})
    if layer in ('ds', 'ps', 'qs', 'ds1'):
        P = plat[layer[0]]
        st = 1 if layer.endswith('1') else 0
        return (bp.setdefault(P, {}).setdefault('stages', {}).setdefault(st, {}),
                vs.setdefault(P, {}).setdefault('stages', {}).setdefault(st, {}))
    if layer == 'comp':
        return comp, None
    if layer == 'cv':
        return None, comp.setdefault('variables', {})
    if layer in ('ovd', 'ovp', 'ovq'):
        P = plat[layer[2]]
        o = comp.setdefault('override', {}).setdefault(P, {})
        return o, o.setdefault('variables', {})
    if layer == 'ug':
        return None, files[0].setdefault('global', {})
    if layer == 'us':
        return None, files[0].setdefault('stages', {}).setdefault(0, {})
    if layer == 'us1':
        return None, files[0].setdefault('stages', {}).setdefault(1, {})
    if layer == 'ug2':
        return None, files[1].setdefault('global', {})
    raise ValueError(layer)


def prune(o):
    """drop empty dictionaries the generator created but did not fill (keeps explicitly generated values)"""
    if isinstance(o, dict):
        for k in list(o):
            prune(o[k])
            if isinstance(o[k], dict) and not o[k] and k not in ('global',):
                del o[k]
    elif isinstance(o, list):
        for x in o:
            prune(x)
    return o


def gen_case(rng, dens=None):
    platform = rng.choice(['default', 'p', 'p', 'p', 'p', 'q'])
    doc = {'platforms': ['default', 'p', 'q'], 'blueprint': {}, 'variables': {},
           'components': [{'name': 'c', 'stage': 0, 'command': {'executable': 'comp-exe'}},
                          {'name': 'other', 'stage': 1, 'command': {'executable': 'ls'},
                           'variables': {'v0': 'other.v0'}}]}
    files = [{}, {}]
    dens = dens if dens is not None else rng.choice([0.15, 0.3, 0.5])
    sites = []   # (kind 'opt'|'var', layer, container, key path) of every definition made
    for path, kind in OPTS:
        for layer in OPT_LAYERS:
            if rng.random() < dens:
                od, _ = layer_slot(doc, files, layer)
                put(od, path, gen_value(rng, kind, layer, path[-1]))
                sites.append(('opt', layer, od, path))
    for name in VARS:
        for layer in VAR_LAYERS:
            if rng.random() < dens * 0.8:
                _, vd = layer_slot(doc, files, layer)
                vd[name] = gen_var_value(rng, name, layer)
                sites.append(('var', layer, vd, (name,)))
    # most variables have a base definition, so that most documents resolve (undefined ones are mostly injected)
    for name in VARS:
        _, vd = layer_slot(doc, files, 'dg')
        if name not in vd and rng.random() < 0.8:
            vd[name] = {'n': 3, 'flag': True}.get(name, 'base.' + name)
    # dictionary-level oddities: empty dictionary / null on top of a dictionary (must not erase)
    if rng.random() < 0.1:
        lay = rng.choice(['ps', 'comp', 'ovp', 'pg'])
        od, _ = layer_slot(doc, files, lay)
        # (a component whose own workflowAttributes is null crashes FlowIRConcrete.__init__: not generated)
        od[rng.choice(['resourceManager', 'workflowAttributes'])] = {} if lay == 'comp' else rng.choice([None, {}])
    inj = 'none'
    r = rng.random()
    strsites = [s for s in sites if isinstance(get(s[2], s[3]), str)]
    if r < 0.15 and strsites:
        inj = 'undef'
        s = rng.choice(strsites)
        # (%(replica)s is the one reference a PRIMITIVE resolution leaves in place; for the real one it is undefined)
        put(s[2], s[3], get(s[2], s[3]) + (' %(replica)s' if rng.random() < 0.4 else ' %(undef)s'))
    elif r < 0.19:
        inj = 'cycle'
        i = rng.randrange(0, 5)
        _, vd = layer_slot(doc, files, rng.choice(['dg', 'cv', 'pg', 'ug']))
        vd['v%d' % i] = 'cyc<%%(v%d)s>' % rng.randrange(0, i + 1)
        od, _ = layer_slot(doc, files, 'comp')
        if rng.random() < 0.7:
            put(od, ('command', 'arguments'), 'use %%(v%d)s' % i)
    elif r < 0.21 and strsites:
        inj = 'incomplete'
        s = rng.choice(strsites)
        put(s[2], s[3], get(s[2], s[3]) + ' %(v1)')
    elif r < 0.23:
        inj = 'shape'
        lay = rng.choice(OPT_LAYERS)
        od, _ = layer_slot(doc, files, lay)
        # (a component whose own workflowAttributes is not a dictionary crashes FlowIRConcrete.__init__ with a
        #  TypeError before any layering happens: outside the modelled path, not generated)
        keys = ['resourceManager', 'command'] + ([] if lay == 'comp' else ['workflowAttributes'])
        od[rng.choice(keys)] = rng.choice(['oops', 5, ['x'], True])
    elif r < 0.26:
        inj = 'convert'
        od, _ = layer_slot(doc, files, rng.choice(['comp', 'ovp', 'ps', 'pg', 'dg']))
        p, v = rng.choice([(('resourceRequest', 'numberProcesses'), 'x7'), (('command', 'resolvePath'), 'maybe'),
                           (('resourceManager', 'config', 'walltime'), 'soon'),
                           (('workflowAttributes', 'isMigratable'), 'perhaps'),
                           (('resourceRequest', 'numberThreads'), '1.5')])
        put(od, p, v)
    elif r < 0.27 and strsites:
        inj = 'dotted'
        s = rng.choice(strsites)
        put(s[2], s[3], get(s[2], s[3]) + ' %(flow.x)s')
    elif r < 0.29:
        inj = 'invalidvar'
        _, vd = layer_slot(doc, files, rng.choice(['cv', 'dg', 'pg']))
        vd['v2'] = rng.choice([None, ['a'], {'k': 1}])
        od, _ = layer_slot(doc, files, 'comp')
        if rng.random() < 0.7:
            put(od, ('command', 'arguments'), 'use %(v2)s')
    elif r < 0.33 and strsites:
        # literal '%' / '%(' supplied by a variable: the substitution completes a NEW reference (to v<j>, defined or
        # not) with the text that follows it; only a resolver that scans the text again resolves it
        inj = 'rescan'
        _, vd = layer_slot(doc, files, 'cv')
        vd['pc'] = '%'
        vd['op'] = '%('
        for _k in range(rng.choice([1, 1, 2])):
            s = rng.choice(strsites)
            j = rng.randrange(0, 7)
            put(s[2], s[3], get(s[2], s[3]) + rng.choice([' %%(pc)s(v%d)s', ' %%(op)sv%d)s', '%%(op)sv%d)s-']) % j)
    prune(doc['blueprint'])
    prune(doc['variables'])
    for c in doc['components']:
        if 'override' in c:
            prune(c['override'])
            if not c['override']:
                del c['override']
        if 'variables' in c and not c['variables']:
            del c['variables']
    files = [prune(f) for f in files]
    files = [f for f in files if f]
    # user variables never contain null/list values (their schema validation rejects them)
    for f in files:
        for _p, v in list(leaves(f)):
            if v is None or isinstance(v, list):
                put(f, _p, 'x')
    if not doc['blueprint']:
        del doc['blueprint']
    stage = 0
    if rng.random() < 0.4:
        # the component under test lives in the LATER stage (and the bystander in the earlier one): swap the
        # stage keys everywhere, so that leaks from an earlier stage into a later one are observable too
        stage = 1

        def swap(d):
            if isinstance(d, dict) and isinstance(d.get('stages'), dict):
                st = d['stages']
                d['stages'] = {(1 - k if k in (0, 1) else k): v for k, v in st.items()}
        for field in ('blueprint', 'variables'):
            for P in doc.get(field, {}):
                swap(doc[field][P])
        for f in files:
            swap(f)
        for c in doc['components']:
            c['stage'] = 1 - c['stage']
        doc['components'].sort(key=lambda c: c['stage'])
    out = {'platform': platform, 'stage': stage, 'name': 'c', 'doc': doc, 'files': files, 'inj': inj}
    if inj == 'rescan':
        out['rescan'] = True
    return out


def strip_foreign(case):
    """the same case without anything that belongs to another platform or another stage"""
    c = copy.deepcopy(case)
    keep = ('default', case['platform'])
    doc = c['doc']
    for field in ('blueprint', 'variables'):
        for P in list(doc.get(field, {})):
            if P not in keep:
                del doc[field][P]
            else:
                st = doc[field][P].get('stages', {})
                for i in list(st):
                    if i != case['stage']:
                        del st[i]
    for comp in doc['components']:
        for P in list(comp.get('override', {})):
            if P != case['platform']:
                del comp['override'][P]
        if 'override' in comp and not comp['override']:
            del comp['override']
    for f in c['files']:
        for i in list(f.get('stages', {})):
            if i != case['stage']:
                del f['stages'][i]
    return c


# ------------------------------------------------------------------ implementation driver
class Impl(object):
    def __init__(self):
        import experiment.model.frontends.flowir as F
        import experiment.model.conf as C
        import experiment.model.errors as E
        self.F, self.C, self.E = F, C, E
        self.tmp = tempfile.mkdtemp(prefix='verif_c04_')
        self.k = 0
        self.tolerant = None
        sys.setrecursionlimit(max(sys.getrecursionlimit(), 1000))

    def close(self):
        shutil.rmtree(self.tmp, ignore_errors=True)

    def dflt(self):
        return self.F.FlowIR.default_component_structure()

    def builtin(self):
        return self.F.FlowIR.inject_default_values_to_component({})

    def concrete(self, case, active=None):
        F, C = self.F, self.C
        concrete = F.FlowIRConcrete(copy.deepcopy(case['doc']), active or case['platform'], {})
        if case['files']:
            paths = []
            for f in case['files']:
                self.k += 1
                p = os.path.join(self.tmp, 'vars_%d.yaml' % self.k)
                with open(p, 'w') as fh:
                    F.yaml_dump(f, fh)
                paths.append(p)
            errs = []
            C.FlowIRExperimentConfiguration._patch_in_variable_files(paths, concrete, errs)
            for p in paths:
                os.remove(p)
            if errs:
                raise errs[0]
        return concrete

    def qmode(self, case):
        """how the question is put (the answer must not depend on it): 0 = object whose active platform is the
        requested one; 1 = object with ANOTHER active platform, the platform passed explicitly; 2 = a primitive
        resolution (what validate() does) of the same component on the same object first; 3 = the document is loaded
        WITHOUT one of its variable definitions (default or selected platform, global or this stage), the component
        is resolved (this fills the cache of resolved configurations), the definition is put back through the public
        mutator set_platform_global_variable / set_platform_stage_variable with an explicit platform, then asked"""
        if 'ask' in case:          # a corpus case may fix the way the question is put
            return case['ask']
        h = zlib.crc32(json.dumps([case['doc'], case['platform'], case['stage'], case['name']], sort_keys=True,
                                  default=str).encode()) % 4
        if h == 2 and not case['files']:
            return 1
        if h == 3:
            return 2
        if h == 1 and self.mutation_site(case) is not None:
            return 3
        return 0

    def mutation_site(self, case):
        """(platform, 'global' | stage index, name, value) of one scalar variable definition that no user variable
        file overrides in place (the files are patched into the stage sections after loading), chosen by the case"""
        vs = case['doc'].get('variables') or {}
        user = set()
        for f in case['files']:
            user.update((f.get('global') or {}).keys())
            user.update(((f.get('stages') or {}).get(case['stage']) or {}).keys())
        sites = []
        for P in sorted(set(['default', case['platform']])):
            sec = vs.get(P) or {}
            for n, v in sorted((sec.get('global') or {}).items()):
                if isinstance(v, (str, int, bool, float)):
                    sites.append((P, 'global', n, v))
            for n, v in sorted(((sec.get('stages') or {}).get(case['stage']) or {}).items()):
                if isinstance(v, (str, int, bool, float)) and n not in user:
                    sites.append((P, case['stage'], n, v))
        if not sites:
            return None
        # (prefer the default platform's stage section half of the time: it is a layer of EVERY platform)
        pref = [x for x in sites if x[0] == 'default' and x[1] != 'global']
        k = case_hash(case)
        if pref and k % 2 == 0:
            return pref[(k // 2) % len(pref)]
        return sites[(k // 2) % len(sites)]

    def outcome(self, case, raw):
        try:
            mode = self.qmode(case)
            if mode == 1:
                plats = sorted(set(['default'] + [k for k in (case['doc'].get('variables') or {}) if isinstance(k, str)]
                                   + [k for k in (case['doc'].get('blueprint') or {}) if isinstance(k, str)]))
                others = [q for q in plats if q != case['platform']]
                if not others:
                    mode = 0
            if mode == 1:
                concrete = self.F.FlowIRConcrete(copy.deepcopy(case['doc']), others[len(others) // 2], {})
                r = concrete.get_component_configuration((case['stage'], case['name']), raw=raw, include_default=True,
                                                         platform=case['platform'])
                r.pop('override', None)
                return ('ok', r)
            if mode == 3:
                P, where, n, v = self.mutation_site(case)
                less = copy.deepcopy(case)
                sec = less['doc']['variables'][P]
                del (sec['global'] if where == 'global' else sec['stages'][where])[n]
                concrete = self.concrete(less)
                try:
                    concrete.get_component_configuration((case['stage'], case['name']), raw=False, include_default=True)
                except Exception:
                    pass
                if where == 'global':
                    concrete.set_platform_global_variable(n, v, P)
                else:
                    concrete.set_platform_stage_variable(where, n, v, P)
                r = concrete.get_component_configuration((case['stage'], case['name']), raw=raw, include_default=True)
                r.pop('override', None)
                return ('ok', r)
            concrete = self.concrete(case)
            if mode == 2:
                try:
                    concrete.get_component_configuration((case['stage'], case['name']), raw=False, include_default=True,
                                                         is_primitive=True)
                except Exception:
                    pass
                # ... and a lookup that tolerates type-conversion errors (what graph.py does for the memoization info):
                # it must neither leave an undefined reference in place nor poison the cache of the strict lookup
                self.tolerant = None
                try:
                    concrete.get_component_configuration((case['stage'], case['name']), raw=False, include_default=True,
                                                         ignore_convert_errors=True)
                    self.tolerant = 'ok'
                except Exception as error:
                    self.tolerant = type(error).__name__
            r = concrete.get_component_configuration((case['stage'], case['name']), raw=raw, include_default=True)
            r.pop('override', None)
            return ('ok', r)
        except RecursionError:
            return ('err', 'RecursionError', '')
        except Exception as e:
            name = type(e).__name__
            if name == 'FLowIRSymbolTableNotImplemented':
                name = 'NotImplementedError'
            detail = ''
            if name in ('FlowIRVariableUnknown', 'FlowIRVariableInvalid'):
                detail = str(getattr(e, 'variable_route', ''))
            return ('err', name, detail)


def case_hash(case):
    return zlib.crc32(json.dumps([case['doc'], case['platform'], case['stage'], case['name'], case['files']],
                                 sort_keys=True, default=str).encode())


INST_ROUTES = ('replicate_active_platform', 'instance_active_platform', 'instance_explicit_platform_on_other_object',
               'replicate_explicit_platform_on_other_object')


def _err_of(e):
    if isinstance(e, RecursionError):
        return ('err', 'RecursionError', '')
    name = type(e).__name__
    if name == 'FLowIRSymbolTableNotImplemented':
        name = 'NotImplementedError'
    detail = ''
    if name in ('FlowIRVariableUnknown', 'FlowIRVariableInvalid'):
        detail = str(getattr(e, 'variable_route', ''))
    return ('err', name, detail)


def instance_route(impl, case):
    """The component resolved THROUGH the instance: returns (route name, observation of the instance's variables
    ('ok', global, stage, component variables) | ('err', class, detail), outcome of the resolution from
    FlowIRConcrete(instance, 'default')).  The route (which entry point, active or explicit platform) is a function
    of the case: the answer must not depend on it."""
    F = impl.F
    h = case_hash(case) // 7 % 4
    P, st = case['platform'], case['stage']
    others = [q for q in ('default', 'p', 'q') if q != P and q in (case['doc'].get('platforms') or [])]
    if h >= 2 and not others:
        h -= 2
    how = INST_ROUTES[h]
    try:
        if h < 2:
            concrete = impl.concrete(case)
            inst = (concrete.replicate(ignore_errors=True) if h == 0 else concrete.instance(ignore_errors=True))
        else:
            concrete = impl.concrete(case, active=others[case_hash(case) % len(others)])
            inst = (concrete.instance(platform=P, ignore_errors=True) if h == 2
                    else concrete.replicate(platform=P, ignore_errors=True))
    except Exception as e:
        err = _err_of(e)
        return how, err, err
    try:
        V = inst['variables']['default']
        comp = [c for c in inst['components'] if c.get('name') == case['name'] and c.get('stage') == st][0]
        obs = ('ok', copy.deepcopy(V.get('global', {})), copy.deepcopy(V.get('stages', {}).get(st, {})),
               copy.deepcopy(comp.get('variables', {})), sorted(k for k in inst['variables']))
    except Exception as e:
        obs = _err_of(e)
    try:
        c2 = F.FlowIRConcrete(inst, 'default', {})
        r = c2.get_component_configuration((st, case['name']), raw=False, include_default=True)
        r.pop('override', None)
        res = ('ok', r)
    except Exception as e:
        res = _err_of(e)
    return how, obs, res


def factory_route(impl, case):
    """the public way to the same thing: a scratch package on disk, loaded as a non-primitive experiment on the
    platform (FlowIRExperimentConfiguration: patch in the variable files, replicate(), FlowIRConcrete(replicated))"""
    F, C = impl.F, impl.C
    impl.k += 1
    root = os.path.join(impl.tmp, 'pkg_%d' % impl.k)
    try:
        pk = os.path.join(root, 'c04.package')
        os.makedirs(os.path.join(pk, 'conf'))
        with open(os.path.join(pk, 'conf', 'flowir_package.yaml'), 'w') as fh:
            F.yaml_dump(copy.deepcopy(case['doc']), fh)
        paths = []
        for i, uf in enumerate(case['files']):
            p = os.path.join(root, 'vars_%d.yaml' % i)
            with open(p, 'w') as fh:
                F.yaml_dump(uf, fh)
            paths.append(p)
        conf = C.ExperimentConfigurationFactory.configurationForExperiment(
            pk, platform=case['platform'], createInstanceFiles=False, updateInstanceFiles=False, primitive=False,
            variable_files=paths, validate=False)
        r = conf.configurationForNode('stage%d.%s' % (case['stage'], case['name']))
        r.pop('override', None)
        return ('ok', r)
    except Exception as e:
        return _err_of(e)
    finally:
        shutil.rmtree(root, ignore_errors=True)


def var_scopes(case):
    """independent reading of the variable sections of (platform, stage): (global layers, stage layers with the user
    variables, component layers), each lowest priority first"""
    doc, P, st = case['doc'], case['platform'], case['stage']
    comp = [c for c in doc['components'] if c['name'] == case['name'] and c['stage'] == st][0]
    vs = doc.get('variables', {})
    ug, us = {}, {}
    for f in case['files']:           # later files win
        ug.update(f.get('global', {}) or {})
        us.update((f.get('stages', {}) or {}).get(st, {}) or {})
    U = dict(ug)
    U.update(us)

    def stage_of(plat):
        d = dict(get(vs, (plat, 'stages', st), {}) or {})
        d.update(U)
        return d
    g = [get(vs, ('default', 'global'), {}) or {}]
    s = [stage_of('default')]
    if P != 'default':
        g.append(get(vs, (P, 'global'), {}) or {})
        s.append(stage_of(P))
    ov = (comp.get('override', {}) or {}).get(P) or {}
    return g, s, [comp.get('variables', {}) or {}, ov.get('variables', {}) or {}]


def documented_order(case):
    """[(scope, layer)] lowest priority first; scope 0 = global, 1 = stage, 2 = component"""
    g, s, c = var_scopes(case)
    order = [(0, g[0]), (1, s[0])]
    if case['platform'] != 'default':
        order += [(0, g[1]), (1, s[1])]
    return order + [(2, c[0]), (2, c[1])]


def scope_closed(case):
    """no global (stage) variable reaches, through references, a variable that the stage or the component (the
    component) redefines: resolving it early in its own scope - what instance() does - cannot change its value"""
    scope, value = {}, {}
    for sc, layer in documented_order(case):
        for k, v in layer.items():
            scope[k], value[k] = sc, v

    def reach(n, seen):
        if n in seen:
            return
        seen.add(n)
        v = value.get(n)
        if isinstance(v, str):
            for m in VAR_RE.finditer(v):
                reach(m.group(1), seen)
    for n in value:
        if scope[n] < 2:
            seen = set()
            reach(n, seen)
            if any(m in scope and scope[m] > scope[n] for m in seen):
                return False
    return True


def instance_predicates(ctx, case, ores, how, iobs, ires, ofac, classes):
    rep = {'platform': case['platform'], 'doc': case['doc'], 'files': case['files'], 'stage': case['stage'],
           'name': case['name'], 'inj': case.get('inj'), 'route': how}
    order = documented_order(case)
    if iobs[0] == 'ok':
        _ok, G, S, CV, plats = iobs
        # ---- the instance keeps, for every variable, the value of the layer the documented order picks
        want, losers = {}, {}
        for sc, layer in order:
            if sc < 2:
                for k, v in layer.items():
                    if k in want:
                        losers.setdefault(k, []).append(want[k])
                    want[k] = v
        got = dict(G)
        got.update(S)
        if set(got) != set(want):
            ctx.fail(rep, 'the instance generated for the platform defines the variables %s, the layers of the platform '
                          'define %s' % (sorted(set(got) - set(want)), sorted(set(want) - set(got))), classes)
        else:
            for k in sorted(want):
                w, v = want[k], got[k]
                literal = not (isinstance(w, str) and '%' in w)
                if literal and (v != w or type(v) != type(w)):
                    ctx.fail(rep, 'variable %s of the instance is not the value of the highest-priority layer of the '
                                  'platform that defines it' % k, classes)
                    break
                if not literal and v != w and any(v == l and type(v) == type(l) for l in losers.get(k, [])):
                    ctx.fail(rep, 'variable %s of the instance is the value of a LOWER-priority layer' % k, classes)
                    break
        wantc = dict(order[-2][1])
        wantc.update(order[-1][1])
        if set(CV) != set(wantc):
            ctx.fail(rep, 'the component of the instance does not hold exactly its own and its override variables', classes)
        if plats != ['default']:
            ctx.fail(rep, 'the instance keeps variable sections of other platforms', classes)
    # ---- resolving through the instance gives the documented result
    closed = scope_closed(case)
    ctx.count('instance_scope_closed=%s' % closed)
    benign = case.get('inj') in ('none', 'exhaustive', 'corpus', 'undef')
    for label, o in (('instance()/replicate() [%s]' % how, ires), ('configurationForExperiment(primitive=False)', ofac)):
        if o is None or not closed:
            continue
        ctx.count('instance_compared')
        if ores[0] == 'ok' and o[0] == 'ok':
            if o[1] != ores[1]:
                bad = sorted('.'.join(map(str, p)) for p, v in leaves(ores[1]) if get(o[1], p, KeyError) != v)
                ctx.fail(rep, 'the configuration resolved through %s differs from the documented layering at %s'
                         % (label, bad[:4]), classes)
        elif ores[0] == 'ok' and benign:
            ctx.fail(rep, 'resolution through %s fails (%s) although the direct one succeeds' % (label, o[1]), classes)
        elif ores[0] != 'ok' and o[0] == 'ok' and ores[1] == 'FlowIRVariableUnknown':
            ctx.fail(rep, 'a reference to an undefined variable is not reported when resolving through %s' % label, classes)


def inst_obs_term(iobs):
    if iobs[0] == 'ok':
        return '(inl (%s, %s, %s))' % (cjv(iobs[1]), cjv(iobs[2]), cjv(iobs[3]))
    return '(inr (%s, %s))' % (cstr(iobs[1]), cstr(iobs[2]))


def inst_term(dflt, case, iobs):
    doc = case['doc']
    i = '(%s, (%s, %s, %s), %s, %s, %s, %s)' % (
        'DFLT', cjv(doc.get('blueprint', {})), cjv(doc.get('variables', {})), clist(doc['components'], cjv),
        clist(case['files'], cjv), cstr(case['platform']), cZ(case['stage']), cstr(case['name']))
    return '((%s, %s) : case_in * inst_outcome)' % (i, inst_obs_term(iobs))


def c_outcome(o):
    if o[0] == 'ok':
        return '(inl %s)' % cjv(o[1])
    return '(inr (%s, %s))' % (cstr(o[1]), cstr(o[2]))


def case_term(dflt, case, oraw, ores):
    doc = case['doc']
    i = '(%s, (%s, %s, %s), %s, %s, %s, %s)' % (
        'DFLT', cjv(doc.get('blueprint', {})), cjv(doc.get('variables', {})), clist(doc['components'], cjv),
        clist(case['files'], cjv), cstr(case['platform']), cZ(case['stage']), cstr(case['name']))
    return '((%s, (%s, %s)) : case_in * (outcome * outcome))' % (i, c_outcome(oraw), c_outcome(ores))


# ------------------------------------------------------------------ property predicates (mirror of the Coq statements)
def expected_layers(case, builtin):
    """independent reading of the documented order: (option layers, variable layers), lowest priority first"""
    doc, P, st = case['doc'], case['platform'], case['stage']
    comp = [c for c in doc['components'] if c['name'] == case['name'] and c['stage'] == st][0]
    bp, vs = doc.get('blueprint', {}), doc.get('variables', {})
    user = {}
    for f in case['files']:           # later files win
        for k, v in f.get('global', {}).items():
            user.setdefault('g', {})[k] = v
        for k, v in f.get('stages', {}).get(st, {}).items():
            user.setdefault('s', {})[k] = v
    U = dict(user.get('g', {}))
    U.update(user.get('s', {}))
    body = {k: v for k, v in comp.items() if k not in ('override', 'variables')}
    ov = comp.get('override', {}).get(P) or {}
    ovb = {k: v for k, v in ov.items() if k != 'variables'}
    ol = [builtin, get(bp, ('default', 'global'), {}), get(bp, ('default', 'stages', st), {})]
    vl = [get(vs, ('default', 'global'), {}), get(vs, ('default', 'stages', st), {}), U]
    if P != 'default':
        ol += [get(bp, (P, 'global'), {}), get(bp, (P, 'stages', st), {})]
        vl += [get(vs, (P, 'global'), {}), get(vs, (P, 'stages', st), {}), U]
    ol += [body, ovb]
    vl += [comp.get('variables', {}), ov.get('variables', {})]
    return [x or {} for x in ol], [x or {} for x in vl]


def first_defined(layers, path):
    """value of the highest-priority layer that defines the leaf path; None,False if shapes are incompatible"""
    val, ok = None, True
    for l in layers:
        # a scalar on the way to the leaf, or a dictionary at the leaf: not shape compatible
        cur = l
        for i, k in enumerate(path):
            if not isinstance(cur, dict):
                if cur is not None and i > 0:
                    ok = False
                cur = None
                break
            cur = cur.get(k)
            if cur is None:
                break
        if isinstance(cur, dict):
            if cur:
                ok = False
            continue
        if cur is not None:
            val = cur
    return val, ok


def predicates(ctx, case, oraw, ores, builtin, o_stripped, classes):
    rep = {'platform': case['platform'], 'doc': case['doc'], 'files': case['files'], 'stage': case['stage'],
           'name': case['name'], 'inj': case.get('inj')}
    if case.get('session'):
        rep['session'] = case['session']
    ol, vl = expected_layers(case, builtin)
    # ---- C04_no_leak: other platforms / stages do not matter
    if o_stripped is not None and o_stripped != ores:
        ctx.fail(rep, 'the resolved configuration depends on a layer of another platform or stage', classes)
    if oraw[0] != 'ok':
        return
    R = oraw[1]
    # ---- C04_precedence (options and variables) on the layered, not yet interpolated configuration
    paths = set()
    for l in ol:
        for p, _v in leaves(l):
            # isRepeat is derived from repeatInterval (inject_default_values_to_component), not layered
            if p and p[0] != 'variables' and p != ('workflowAttributes', 'isRepeat'):
                paths.add(p)
    for p in sorted(paths):
        want, ok = first_defined(ol, p)
        if not ok:
            continue
        got = get(R, p)
        if isinstance(got, dict) and not got and want is None:
            continue
        if got != want or type(got) != type(want):
            ctx.fail(rep, 'option %s is not the value of the highest-priority layer that defines it' % '.'.join(p), classes)
            break
    names = set()
    for l in vl:
        names.update(l.keys())
    for n in sorted(names):
        want = None
        for l in vl:
            if n in l:
                want = l[n]
        got = R.get('variables', {}).get(n, None)
        if got != want or type(got) != type(want) or (n not in R.get('variables', {})):
            ctx.fail(rep, 'variable %s is not the value of the highest-priority layer that defines it' % n, classes)
            break
    if set(R.get('variables', {})) - names:
        ctx.fail(rep, 'a variable appears that no layer of this platform defines', classes)
    # ---- C04_interp
    V = R.get('variables', {})
    refs = set()
    for s in strings(R):
        refs.update(m.group(1) for m in VAR_RE.finditer(s))
    undefined = sorted(r for r in refs if '.' not in r and r not in V)
    if ores[0] == 'ok':
        T = ores[1]
        if undefined:
            ctx.fail(rep, 'a reference to an undefined variable was not reported', classes)
        for s in strings(T):
            if any(m.group(1) in V for m in VAR_RE.finditer(s)):
                ctx.fail(rep, 'a reference to a defined variable remains after resolution', classes)
                break
            if any('.' not in m.group(1) for m in VAR_RE.finditer(s)):
                ctx.fail(rep, 'a reference to an (undefined) variable was left in place', classes)
                break
        # ---- C04_types
        for p, t in PY_TYPES.items():
            before, after = get(R, p), get(T, p)
            if isinstance(before, (str, int, bool)) and before is not None:
                good = (type(after) is bool) if t is bool else (isinstance(after, t) and not isinstance(after, bool))
                if not good:
                    ctx.fail(rep, 'typed option %s does not end up with its declared type' % '.'.join(p), classes)
        # boolean options keep their meaning when given as text
        for p in BOOL_PATHS:
            before, after = get(R, p), get(T, p)
            if isinstance(before, str) and '%' not in before and before.lower() in ('false', 'no') and after is not False:
                ctx.fail(rep, 'boolean option %s given as "%s" resolves to %r' % ('.'.join(p), before, after), classes)
    elif ores[1] == 'FlowIRVariableUnknown':
        # (with a literal '%' in a value a reference can come into being during the substitution: then only
        #  "is undefined" is checked, as in theorem C04_rescan)
        if ores[2] in V or (ores[2] not in refs and not case.get('rescan')):
            ctx.fail(rep, 'the variable reported as unknown is defined or not referenced', classes)
    elif case.get('inj') in ('none', 'undef') and not undefined:
        ctx.fail(rep, 'resolution failed (%s) although every referenced variable is defined' % ores[1], classes)


def classes_of(case):
    return []


# ------------------------------------------------------------------ run
def corpus_cases():
    out = []
    for p in sorted(glob.glob(os.path.join(CORPUS, '*.json'))):
        c = fix_stage_keys(json.load(open(p)))
        c.setdefault('inj', 'corpus')
        c['corpus'] = os.path.basename(p)
        out.append(c)
    return out


def exhaustive_cases():
    """one option (lsf.queue) and one variable (v0): every define/omit pattern over the 7+foreign option layers
    and over the variable layers, for platform p"""
    out = []
    import itertools
    layers = ['dg', 'ds', 'pg', 'ps', 'comp', 'ovp', 'qg', 'ovq']
    for bits in itertools.product([0, 1], repeat=len(layers)):
        doc = {'platforms': ['default', 'p', 'q'], 'blueprint': {}, 'variables': {},
               'components': [{'name': 'c', 'stage': 0, 'command': {'executable': 'e', 'arguments': '%(v0)s'}}]}
        files = [{}, {}]
        for b, l in zip(bits, layers):
            if b:
                od, vd = layer_slot(doc, files, l)
                put(od, ('resourceManager', 'lsf', 'queue'), 'q-' + l)
                if vd is None:
                    vd = doc['components'][0].setdefault('variables', {})
                vd['v0'] = 'v0-' + l
        doc['variables'].setdefault('default', {}).setdefault('global', {}).setdefault('v0', 'base')
        prune(doc['blueprint'])
        prune(doc['variables'])
        for c in doc['components']:
            if 'override' in c:
                prune(c['override'])
        out.append({'platform': 'p', 'stage': 0, 'name': 'c', 'doc': doc, 'files': [], 'inj': 'exhaustive'})
    return out


def _explore(ctx, cases, metamorphic=True):
    impl = Impl()
    terms, kept = [], []
    iterms, ikept = [], []
    try:
        dflt = impl.dflt()
        builtin = impl.builtin()
        for case in cases:
            ctx.count('question_%s' % ('active_platform', 'explicit_platform_on_other_object', 'after_primitive_resolution',
                                       'after_resolving_then_mutator')[impl.qmode(case)])
            oraw = impl.outcome(case, True)
            impl.tolerant = None
            ores = impl.outcome(case, False)
            # tolerating TYPE-CONVERSION errors must not make the lookup tolerate an undefined variable
            if impl.tolerant == 'ok' and ores[0] == 'err' and ores[1] in ('FlowIRVariableUnknown', 'FlowIRVariableInvalid'):
                ctx.fail({'case': case}, 'a lookup with ignore_convert_errors=True returned a configuration although a '
                         'variable it references is undefined (%s %s): the reference was left in place' % (ores[1], ores[2]),
                         classes_of(case))
            o_str = impl.outcome(strip_foreign(case), False) if metamorphic else None
            cls = classes_of(case)
            predicates(ctx, case, oraw, ores, builtin, o_str, cls)
            how, iobs, ires = instance_route(impl, case)
            ctx.count('instance_route_' + how)
            ctx.count('instance_outcome=' + ('ok' if iobs[0] == 'ok' else iobs[1]))
            ofac = None
            if case.get('corpus') or case_hash(case) % 6 == 0:
                ofac = factory_route(impl, case)
                ctx.count('instance_route_factory')
            instance_predicates(ctx, case, ores, how, iobs, ires, ofac, cls)
            iterms.append(inst_term(dflt, case, iobs))
            ikept.append((case, how, iobs))
            ol, vl = expected_layers(case, builtin)
            # non-trivial: some option or variable is defined by at least two layers of the selected platform
            multi = 0
            for p, _k in OPTS:
                if sum(1 for l in ol[1:] if get(l, p) is not None) >= 2:
                    multi += 1
            for n in VARS:
                if sum(1 for l in vl if n in l) >= 2:
                    multi += 1
            ctx.case([case['platform'], case['doc'], case['files']], multi >= 1)
            ctx.count('platform=' + case['platform'])
            ctx.count('inject=' + str(case.get('inj')))
            ctx.count('outcome=' + (ores[0] if ores[0] == 'ok' else ores[1]))
            ctx.count('multiply-defined=%s' % ('0' if multi == 0 else '1-3' if multi <= 3 else '4-8' if multi <= 8 else '9+'))
            depth = 0
            if oraw[0] == 'ok':
                V = oraw[1].get('variables', {})

                def dep(n, seen=()):
                    v = V.get(n)
                    if not isinstance(v, str) or n in seen or len(seen) > 8:
                        return 0
                    return 1 + max([dep(m.group(1), seen + (n,)) for m in VAR_RE.finditer(v)] + [0])
                depth = max([dep(n) for n in V] + [0])
            ctx.count('chain-depth=%d' % min(depth, 6))
            if len(ctx.samples) < 3 and multi >= 3:
                ctx.sample({'platform': case['platform'], 'doc': case['doc'], 'files': case['files'],
                            'resolved': (ores[1] if ores[0] == 'ok' else list(ores))})
            terms.append(case_term(dflt, case, oraw, ores))
            kept.append((case, oraw, ores))
    finally:
        impl.close()
    header = HEADER + '\nDefinition DFLT : jv := %s.' % cjv(dflt)
    # one Coq term per case: (input, (raw outcome, resolved outcome), observation of the instance)
    def both(i):
        return '((%s, %s) : case_in * (outcome * outcome) * inst_outcome)' % (terms[i], inst_obs_term(ikept[i][2]))
    plain = [i for i, (c, _a, _b) in enumerate(kept) if not c.get('rescan')]
    resc = [i for i, (c, _a, _b) in enumerate(kept) if c.get('rescan')]
    anybad = [plain[j] for j in ctx.model_mismatches(header, [both(i) for i in plain], CHECKER + '_i', chunk=40)]
    if resc:
        anybad += [resc[j] for j in ctx.model_mismatches(header, [both(i) for i in resc], CHECKER_RS + '_i', chunk=40,
                                                         name='model_rs')]
    # which half disagrees (only the mismatching cases are evaluated again)
    bp = [i for i in anybad if not kept[i][0].get('rescan')]
    br = [i for i in anybad if kept[i][0].get('rescan')]
    n0 = ctx.model_cases
    bad = [bp[j] for j in ctx.model_mismatches(header, [terms[i] for i in bp], CHECKER, chunk=40, name='model_again')]
    bad += [br[j] for j in ctx.model_mismatches(header, [terms[i] for i in br], CHECKER_RS, chunk=40, name='model_rs_again')]
    ibad = [anybad[j] for j in ctx.model_mismatches(header, [iterms[i] for i in anybad], CHECKER_INST, chunk=40,
                                                    name='model_inst')]
    ctx.model_cases = n0
    bad.sort()
    for k, i in enumerate(bad):
        case, oraw, ores = kept[i]
        model = ''
        if k < 2:
            model = ctx.model_eval(header, 'run_case (fst %s)' % terms[i])[-1500:]
            if kept[i][0].get('rescan'):
                model = ctx.model_eval(header, 'let \'(dflt, (b, v, cs), files, p, stage, name) := fst %s in resolve_rs '
                                       'rs_extra dflt {| d_blueprint := b; d_variables := v; d_components := cs |} files p '
                                       'stage name' % terms[i])[-1500:]
        ctx.disagree({'platform': case['platform'], 'doc': case['doc'], 'files': case['files'], 'stage': case['stage'],
                      'name': case['name'], 'inj': case.get('inj')},
                     {'raw': oraw if oraw[0] != 'ok' else 'ok', 'resolved': ores}, model,
                     'C04 get_component_configuration (raw / resolved) vs Conf.Model.resolve_raw / resolve / Conf.Rescan.resolve_rs')
    for k, i in enumerate(ibad):
        case, how, iobs = ikept[i]
        model = ''
        if k < 2:
            model = ctx.model_eval(header, 'let \'(dflt, (b, v, cs), files, p, stage, name) := fst %s in '
                                   'let d := {| d_blueprint := b; d_variables := v; d_components := cs |} in '
                                   'match user_vars files with Some u => Some (inst_vars_pre rs_extra d u p (zrepr stage), '
                                   'inst_must_fail dflt d u p, inst_may_fail d u p) | None => None end' % iterms[i])[-1500:]
        ctx.disagree({'platform': case['platform'], 'doc': case['doc'], 'files': case['files'], 'stage': case['stage'],
                      'name': case['name'], 'inj': case.get('inj'), 'route': how},
                     {'instance variables (global, stage, component)': list(iobs[:4])}, model,
                     'C04 FlowIRConcrete.instance/replicate (variables of the instance) vs Conf.Instance.inst_vars_pre')


# ------------------------------------------------------------------ sessions: several look-ups on ONE FlowIRConcrete
# The layers are what the package defines, no matter which look-ups the same object served before: one object is asked
# a SEQUENCE - instance()/replicate() of some platform, look-ups with the unusual options (inject_missing_fields=False,
# include_default=False, raw, is_primitive, ignore_convert_errors), raw() - and then the strict look-up for several
# (platform, component) pairs of the stage: other platforms, the SIBLING component of the one asked before.  Every
# strict answer is judged by the same predicates and compared with the same models as a first look-up on a fresh
# object (the model reads the ORIGINAL document); every answer of the sequence is also compared with the answer of the
# same call on a fresh object.
SESSION_CORPUS = os.path.join(CORPUS, 'sessions')
PLATS = ['default', 'p', 'q']
LOOKUP_FLAGS = ('raw', 'include_default', 'is_primitive', 'inject_missing_fields', 'ignore_convert_errors')


def gen_sibling(rng, case):
    """a second component `sib` in the stage of the component under test, with its own definition, variables and
    overrides (it shares every blueprint and variable layer of the stage with `c`)"""
    sib = {'name': 'sib', 'stage': case['stage'], 'command': {'executable': 'sib-exe'}}
    dens = rng.choice([0.15, 0.3, 0.5])
    for path, kind in OPTS:
        if rng.random() < dens:
            put(sib, path, gen_value(rng, kind, 'sib', path[-1]))
        for P in PLATS:
            if rng.random() < dens * 0.4:
                put(sib.setdefault('override', {}).setdefault(P, {}), path, gen_value(rng, kind, 'sov' + P[0], path[-1]))
    for name in VARS:
        if rng.random() < dens * 0.8:
            sib.setdefault('variables', {})[name] = gen_var_value(rng, name, 'sibv')
        for P in PLATS:
            if rng.random() < dens * 0.3:
                sib.setdefault('override', {}).setdefault(P, {}).setdefault('variables', {})[name] = \
                    gen_var_value(rng, name, 'sov' + P[0])
    return sib


def gen_step(rng):
    r = rng.random()
    X = rng.choice(PLATS)
    if r < 0.25:
        return {'op': 'instance', 'platform': X, 'inject_missing_fields': rng.random() < 0.5,
                'is_primitive': rng.random() < 0.3, 'fill_in_all': rng.random() < 0.2}
    if r < 0.35:
        return {'op': 'replicate', 'platform': X}
    if r < 0.4:
        return {'op': 'raw'}
    step = {'op': 'lookup', 'platform': X, 'name': rng.choice(['c', 'sib', 'c', 'sib', 'other'])}
    # at least one unusual option; inject_missing_fields=False (no built-in layer underneath: the first blueprint
    # layer that holds a section is the one the result is built on) is the most frequent one
    flags = {'raw': rng.random() < 0.4, 'include_default': rng.random() < 0.6, 'is_primitive': rng.random() < 0.3,
             'inject_missing_fields': rng.random() < 0.5, 'ignore_convert_errors': rng.random() < 0.2}
    if not flags['raw'] and flags['include_default'] and not flags['is_primitive'] and flags['inject_missing_fields']:
        flags['inject_missing_fields'] = False
    step.update(flags)
    return step


def gen_session(rng):
    case = gen_case(rng, dens=rng.choice([0.3, 0.3, 0.5]))
    doc = case['doc']
    doc['components'].append(gen_sibling(rng, case))
    doc['components'].sort(key=lambda c: c['stage'])
    steps = [gen_step(rng) for _ in range(rng.choice([1, 1, 2, 2, 3]))]
    pairs = [(P, n) for P in PLATS for n in ('c', 'sib')]
    rng.shuffle(pairs)
    case['session'] = {'active': rng.choice(PLATS), 'steps': steps, 'questions': [list(x) for x in pairs[:3]]}
    return case


def session_corpus():
    out = []
    for p in sorted(glob.glob(os.path.join(SESSION_CORPUS, '*.json'))):
        c = fix_stage_keys(json.load(open(p)))
        c.setdefault('inj', 'corpus')
        c.setdefault('files', [])
        c['corpus'] = os.path.basename(p)
        out.append(c)
    return out


def do_step(concrete, case, step):
    """one call of the sequence on the object; canonical outcome"""
    st = case['stage']
    try:
        if step['op'] == 'instance':
            return ('ok', concrete.instance(platform=step['platform'], ignore_errors=True,
                                            fill_in_all=step.get('fill_in_all', False),
                                            is_primitive=step.get('is_primitive', False),
                                            inject_missing_fields=step.get('inject_missing_fields', True)))
        if step['op'] == 'replicate':
            return ('ok', concrete.replicate(platform=step['platform'], ignore_errors=True))
        if step['op'] == 'raw':
            return ('ok', concrete.raw())
        name = step['name']
        cid = (st, name) if name != 'other' else (1 - st, name)
        kw = {k: step[k] for k in LOOKUP_FLAGS if k in step}
        return ('ok', concrete.get_component_configuration(cid, platform=step['platform'], **kw))
    except Exception as e:
        return _err_of(e)


def strict(concrete, case, P, name, raw, explicit):
    try:
        r = concrete.get_component_configuration((case['stage'], name), raw=raw, include_default=True,
                                                 platform=(P if explicit else None))
        r.pop('override', None)
        return ('ok', r)
    except Exception as e:
        return _err_of(e)


def step_label(step):
    if step['op'] != 'lookup':
        return step['op'] + ('' if step.get('inject_missing_fields', True) else '_no_builtin')
    odd = [k for k in ('raw', 'is_primitive', 'ignore_convert_errors') if step.get(k)]
    odd += ['no_' + k for k in ('include_default', 'inject_missing_fields') if not step.get(k, True)]
    return 'lookup[' + ','.join(odd) + ']'


def relation(last, P, name):
    """how a strict question relates to the last call of the sequence before it"""
    op = last.get('op')
    if op == 'lookup':
        if last.get('platform') == P:
            return 'same' if last.get('name') == name else 'other_component_same_platform'
        return 'other_platform_same_component' if last.get('name') == name else 'other_platform_and_component'
    if op in ('instance', 'replicate'):
        return 'instance_of_same_platform' if last.get('platform') == P else 'instance_of_other_platform'
    return 'after_raw'


def _explore_sessions(ctx, sessions):
    impl = Impl()
    terms, kept = [], []
    try:
        dflt = impl.dflt()
        builtin = impl.builtin()
        for case in sessions:
            ses = case['session']
            st = case['stage']
            names = [c['name'] for c in case['doc']['components'] if c['stage'] == st]
            try:
                concrete = impl.concrete(case, active=ses['active'])
            except Exception:
                ctx.count('session_object_not_built')
                continue
            rep = {'platform': ses['active'], 'doc': case['doc'], 'files': case['files'], 'stage': st,
                   'name': case['name'], 'inj': case.get('inj'), 'session': ses}
            stage_bp = sorted(P for P in PLATS if get(case['doc'].get('blueprint', {}), (P, 'stages', st)))
            ctx.count('session_stage_blueprint_on=' + ('+'.join(stage_bp) or 'none'))
            for k, step in enumerate(ses['steps']):
                got = do_step(concrete, case, step)
                ctx.count('session_step_' + step_label(step))
                if k == 0:
                    continue
                # the same call on an object that has served nothing yet
                fresh = do_step(impl.concrete(case, active=ses['active']), case, step)
                if got != fresh:
                    ctx.fail(rep, 'step %d of the sequence (%s) answers differently on the object that served the '
                                  'earlier look-ups than on a fresh object of the same document' % (k, step_label(step)),
                             classes_of(case))
            last = ses['steps'][-1] if ses['steps'] else {}
            for P, name in ses['questions']:
                if name not in names:
                    continue
                dcase = {'platform': P, 'stage': st, 'name': name, 'doc': case['doc'], 'files': case['files'],
                         'inj': case.get('inj'), 'session': ses}
                if case.get('rescan'):
                    dcase['rescan'] = True
                explicit = not (P == ses['active'] and case_hash(dcase) % 2 == 0)
                oraw = strict(concrete, case, P, name, True, explicit)
                ores = strict(concrete, case, P, name, False, explicit)
                predicates(ctx, dcase, oraw, ores, builtin, None, classes_of(case))
                rel = relation(last, P, name)
                ctx.count('session_question_vs_last_step=' + rel)
                ctx.count('session_outcome=' + (ores[0] if ores[0] == 'ok' else ores[1]))
                ctx.case(['session', ses, P, name, case['doc'], case['files']], rel != 'same' and bool(stage_bp))
                terms.append(case_term(dflt, dcase, oraw, ores))
                kept.append((dcase, oraw, ores))
    finally:
        impl.close()
    header = HEADER + '\nDefinition DFLT : jv := %s.' % cjv(dflt)
    plain = [i for i, (c, _a, _b) in enumerate(kept) if not c.get('rescan')]
    resc = [i for i, (c, _a, _b) in enumerate(kept) if c.get('rescan')]
    bad = [plain[j] for j in ctx.model_mismatches(header, [terms[i] for i in plain], CHECKER, chunk=40, name='model_ses')]
    if resc:
        bad += [resc[j] for j in ctx.model_mismatches(header, [terms[i] for i in resc], CHECKER_RS, chunk=40,
                                                      name='model_ses_rs')]
    bad.sort()
    for k, i in enumerate(bad):
        dcase, oraw, ores = kept[i]
        model = ''
        if k < 2:
            model = ctx.model_eval(header, 'run_case (fst %s)' % terms[i])[-1500:]
        ctx.disagree({'platform': dcase['platform'], 'doc': dcase['doc'], 'files': dcase['files'], 'stage': dcase['stage'],
                      'name': dcase['name'], 'inj': dcase.get('inj'), 'session': dcase['session']},
                     {'raw': oraw if oraw[0] != 'ok' else 'ok', 'resolved': ores}, model,
                     'C04 strict get_component_configuration on an object that served other look-ups before vs '
                     'Conf.Model.resolve_raw / resolve / Conf.Rescan.resolve_rs on the original document')


# ------------------------------------------------------------------ replication: workflowAttributes.replicate / aggregate
# FlowIRConcrete.replicate() (every non-primitive experiment) resolves the typed options workflowAttributes.replicate
# and workflowAttributes.aggregate in FlowIR.apply_replicate, with a dictionary of visible variables that it layers on
# its own (global < stage < component of the instance).  The documents above never set these two options, so that code
# decided nothing.  Here the component under test REPLICATES: workflowAttributes.replicate is a number or a reference
# (direct, or through a link variable) to a variable `rn` that up to 15 layers define with different numbers, given by
# the component and/or its overrides; a consumer `col` of c in the same stage aggregates or not, depending on a variable
# `ag` layered the same way.  Observed: how many replicas replicate() / the non-primitive experiment configuration
# generates for c and for col, and the value of workflowAttributes.replicate / aggregate that each of them resolves to.
CHECKER_REPL = 'check_replicate'
HEADER_REPL = ('Require Import V.Lib.JTree V.Conf.Model V.Conf.Rescan V.Conf.Instance V.Conf.Replicate.\n'
               'Open Scope string_scope.')
REPL_CORPUS = os.path.join(CORPUS, 'replicate')
REPL_ROUTES = ('replicate_active_platform', 'replicate_explicit_platform_on_other_object',
               'configurationForExperiment_primitive_False')


def repl_slot(case, files, layer, comp):
    """the variable dictionary of a layer tag, for the stage of the component under test (`comp`: c or col)"""
    doc, st = case['doc'], case['stage']
    vs = doc.setdefault('variables', {})
    plat = {'d': 'default', 'p': 'p', 'q': 'q'}
    if layer in ('dg', 'pg', 'qg'):
        return vs.setdefault(plat[layer[0]], {}).setdefault('global', {})
    if layer in ('ds', 'ps', 'qs', 'ds1'):
        sec = vs.setdefault(plat[layer[0]], {})
        sec.setdefault('global', {})
        return sec.setdefault('stages', {}).setdefault((1 - st) if layer.endswith('1') else st, {})
    if layer == 'cv':
        return comp.setdefault('variables', {})
    if layer in ('ovd', 'ovp', 'ovq'):
        return comp.setdefault('override', {}).setdefault(plat[layer[2]], {}).setdefault('variables', {})
    if layer == 'ug':
        return files[0].setdefault('global', {})
    if layer == 'us':
        return files[0].setdefault('stages', {}).setdefault(st, {})
    if layer == 'us1':
        return files[0].setdefault('stages', {}).setdefault(1 - st, {})
    if layer == 'ug2':
        return files[1].setdefault('global', {})
    raise ValueError(layer)


def gen_repl_case(rng):
    while True:
        case = gen_case(rng, dens=rng.choice([0.15, 0.15, 0.3]))
        if case['inj'] in ('none', 'undef'):
            break
    doc, st = case['doc'], case['stage']
    comp = [c for c in doc['components'] if c['name'] == 'c'][0]
    col = {'name': 'col', 'stage': st, 'command': {'executable': 'cat', 'arguments': 'c:ref'}, 'references': ['c:ref']}
    doc['components'].append(col)
    doc['components'].sort(key=lambda c: c['stage'])
    files = (case['files'] + [{}, {}])[:2]
    # ---- rn: the number of replicas, a different number in every layer that defines it
    numbers = list(range(1, 7)) + list(range(1, 7)) + list(range(1, 7))
    rng.shuffle(numbers)
    dens = rng.choice([0.2, 0.35, 0.5])
    defined = []
    for layer in VAR_LAYERS:
        if rng.random() < dens:
            n = numbers.pop()
            repl_slot(case, files, layer, comp)['rn'] = n if rng.random() < 0.8 else str(n)
            defined.append(layer)
    # (the pair the check is about is frequent: the component, or its override, AND a lower layer define it)
    if rng.random() < 0.5:
        for layer in (rng.choice(['cv', 'cv', 'ovp', 'ovd']), rng.choice(['ds', 'ps', 'us', 'ug', 'ug2', 'pg', 'dg'])):
            if layer not in defined:
                repl_slot(case, files, layer, comp)['rn'] = numbers.pop()
                defined.append(layer)
    # ---- rk: a link to rn (a chain of two references), in the component or (less often) below it
    link = rng.random() < 0.45
    if link:
        for layer in rng.sample(['cv', 'cv', 'ovp', 'us', 'ps', 'ds', 'dg', 'ug'], rng.choice([1, 1, 2])):
            repl_slot(case, files, layer, comp)['rk'] = '%(rn)s'
    text = lambda: rng.choice(['%(rk)s'] * 3 + ['%(rn)s'] if link else ['%(rn)s'] * 4 + [rng.randrange(0, 5), '3'])
    wa = comp.setdefault('workflowAttributes', {})
    if not isinstance(wa, dict):
        wa = comp['workflowAttributes'] = {}
    r = rng.random()
    if r < 0.85:
        wa['replicate'] = text()
    for P in PLATS:
        if rng.random() < (0.25 if r < 0.85 else 0.6):
            put(comp.setdefault('override', {}).setdefault(P, {}), ('workflowAttributes', 'replicate'), text())
    # the same variable in an ordinary option of c: every replica must read the same value there
    put(comp, ('command', 'arguments'), 'copy of %(rn)s')
    # ---- ag: whether col aggregates the replicas of c
    bools = [True, False, 'yes', 'no', 'true', 'False', 'y', 'N']
    for layer in VAR_LAYERS:
        if rng.random() < dens * 0.7:
            repl_slot(case, files, layer, col)['ag'] = rng.choice(bools)
    repl_slot(case, files, 'dg', col).setdefault('ag', rng.choice(bools))
    if rng.random() < 0.5:
        repl_slot(case, files, rng.choice(['cv', 'ovp', 'ovd']), col)['ag'] = rng.choice(bools)
    r = rng.random()
    if r < 0.8:
        col['workflowAttributes'] = {'aggregate': rng.choice(['%(ag)s', '%(ag)s', '%(ag)s', True, False, 'yes'])}
    if r > 0.7:
        put(col.setdefault('override', {}).setdefault(rng.choice(PLATS), {}), ('workflowAttributes', 'aggregate'),
            rng.choice(['%(ag)s', True, False]))
    for c in (comp, col):
        if 'override' in c:
            prune(c['override'])
            if not c['override']:
                del c['override']
    case['files'] = [f for f in (prune(f) for f in files) if f]
    case['col'] = 'col'
    return case


def repl_corpus():
    out = []
    for p in sorted(glob.glob(os.path.join(REPL_CORPUS, '*.json'))):
        c = fix_stage_keys(json.load(open(p)))
        c.setdefault('inj', 'corpus')
        c.setdefault('files', [])
        c.setdefault('col', 'col')
        c['corpus'] = os.path.basename(p)
        out.append(c)
    return out


def documented_value(case, name, text):
    """independent reading: the text resolved with the variables of (platform, stage, component `name`) layered in
    the documented order; ('ok', value) | ('undef',)"""
    want = {}
    for _sc, layer in documented_order(dict(case, name=name)):
        want.update(layer)

    def res(t, depth):
        if not isinstance(t, str):
            return t
        if depth > 12:
            raise KeyError('cycle')
        return VAR_RE.sub(lambda m: str(res(want[m.group(1)], depth + 1)), t)
    try:
        if isinstance(text, str) and VAR_RE.fullmatch(text):
            return ('ok', res(want[VAR_RE.fullmatch(text).group(1)], 1))
        return ('ok', res(text, 0))
    except KeyError:
        return ('undef',)


def documented_option(case, name, key):
    """workflowAttributes.<key> of the component by the documented order of the OPTION layers (only the component and
    its override for the platform give it in these documents)"""
    comp = [c for c in case['doc']['components'] if c['name'] == name and c['stage'] == case['stage']][0]
    v = get(comp, ('workflowAttributes', key))
    o = get(comp, ('override', case['platform'], 'workflowAttributes', key))
    return o if o is not None else v


def to_int(v):
    if isinstance(v, float):
        raise ValueError(v)
    return int(v)


def to_bool(v):
    if isinstance(v, bool):
        return v
    return {'true': True, 'false': False, 'y': True, 'n': False, 'yes': True, 'no': False}[v.lower()]


def replicate_route(impl, case):
    """(route, ('ok', replicated FlowIRConcrete) | ('err', class, detail))"""
    F, C = impl.F, impl.C
    P = case['platform']
    h = case.get('route', case_hash(case) // 11 % 3)
    how = REPL_ROUTES[h]
    try:
        if h == 0:
            inst = impl.concrete(case).replicate(ignore_errors=True)
            return how, ('ok', F.FlowIRConcrete(inst, 'default', {}))
        if h == 1:
            others = [q for q in PLATS if q != P]
            inst = impl.concrete(case, active=others[case_hash(case) % 2]).replicate(platform=P, ignore_errors=True)
            return how, ('ok', F.FlowIRConcrete(inst, 'default', {}))
        impl.k += 1
        paths = []
        for i, uf in enumerate(case['files']):
            p = os.path.join(impl.tmp, 'rvars_%d_%d.yaml' % (impl.k, i))
            with open(p, 'w') as fh:
                F.yaml_dump(uf, fh)
            paths.append(p)
        try:
            conf = C.FlowIRExperimentConfiguration(
                path=None, platform=P, variable_files=paths, system_vars=None, is_instance=False,
                createInstanceFiles=False, primitive=False, concrete=F.FlowIRConcrete(copy.deepcopy(case['doc']), P, {}),
                updateInstanceFiles=False, validate=False)
        finally:
            for p in paths:
                os.remove(p)
        rc = conf.get_flowir_concrete(return_copy=False)
        # (without validation the constructor keeps the errors to itself: when replicate() failed the configuration
        #  still holds the package - three platforms - and not the instance of the platform)
        if sorted(rc.raw().get('platforms') or []) not in (['default'], sorted(set(['default', P]))):
            return how, ('err', 'NotReplicated', '')
        return how, ('ok', rc)
    except Exception as e:
        return how, _err_of(e)


def replicate_observe(concrete, case):
    """what was generated for c and col: (number of replicas (0 = kept as it is), resolved workflowAttributes.replicate
    of the replicas, what %(rn)s resolved to in their arguments), (number of replicas of col, resolved aggregate)"""
    st = case['stage']
    names = sorted(n for (s, n) in concrete.get_component_identifiers(True) if s == st)
    out = []
    for base, key in (('c', 'replicate'), (case['col'], 'aggregate')):
        reps = [n for n in names if re.fullmatch(re.escape(base) + r'\d+', n)]
        if (base in names) == bool(reps):
            return ('err', 'BadReplication', 'components of the stage: %s' % names)
        vals, args = [], []
        for n in (reps or [base]):
            try:
                conf = concrete.get_component_configuration((st, n), raw=False, include_default=True)
                v = get(conf, ('workflowAttributes', key))
                a = get(conf, ('command', 'arguments'))
            except Exception as e:
                # (a replica that does not resolve - an undefined reference in some other option: the ordinary cases
                #  judge that; here only the number of replicas is)
                v = a = '!' + type(e).__name__
            if [v, type(v).__name__] not in vals:
                vals.append([v, type(v).__name__])
            if a not in args:
                args.append(a)
        out.append((len(reps), vals, args))
    return ('ok', out[0], out[1])


def _explore_replicas(ctx, cases):
    impl = Impl()
    terms, kept = [], []
    try:
        dflt = impl.dflt()
        for case in cases:
            st, P = case['stage'], case['platform']
            rep = {'platform': P, 'doc': case['doc'], 'files': case['files'], 'stage': st, 'name': 'c',
                   'col': case['col'], 'inj': case.get('inj'), 'replicate': True}
            how, got = replicate_route(impl, case)
            rep['route'] = REPL_ROUTES.index(how)
            obs = replicate_observe(got[1], case) if got[0] == 'ok' else got
            ctx.count('replicate_route_' + how)
            # ---- the documented reading
            closed = scope_closed(case) and scope_closed(dict(case, name=case['col']))
            rtext, atext = documented_option(case, 'c', 'replicate'), documented_option(case, case['col'], 'aggregate')
            wantn = ('ok', None) if rtext is None else documented_value(case, 'c', rtext)
            wanta = ('ok', False) if atext is None else documented_value(case, case['col'], atext)
            try:
                N = None if wantn[0] != 'ok' else (0 if wantn[1] is None else to_int(wantn[1]))
            except Exception:
                N = None
            try:
                A = None if wanta[0] != 'ok' else to_bool(wanta[1])
            except Exception:
                A = None
            wr = documented_value(case, 'c', '%(rn)s')
            vs = var_scopes(case)
            lower = any('rn' in l for l in vs[0] + vs[1])
            own = any('rn' in l for l in vs[2])
            ctx.count('replicate_variable_defined=%s' % ('component_and_below' if own and lower else 'component_only'
                                                         if own else 'below_component' if lower else 'nowhere'))
            ctx.count('replicate_scope_closed=%s' % closed)
            ctx.count('replicate_outcome=' + ('ok' if obs[0] == 'ok' else obs[1]))
            ctx.count('replicate_documented_replicas=%s' % ('unresolvable' if N is None else min(N, 6)))
            ctx.case(['replicate', P, case['doc'], case['files']], own and lower and N is not None)
            cls = classes_of(case)
            if closed and obs[0] == 'ok':
                (nc, cvals, cargs), (ncol, avals, _aargs) = obs[1], obs[2]
                if wantn[0] == 'undef':
                    ctx.fail(rep, 'workflowAttributes.replicate references an undefined variable and replicate() reports '
                                  'nothing', cls)
                elif N is not None:
                    k = N if N > 0 else 0
                    if nc != k:
                        ctx.fail(rep, 'replicate() generates %d replicas of the component, the documented layering gives '
                                      'workflowAttributes.replicate = %r' % (nc, N), cls)
                    elif k and cvals != [[N, 'int']] and not str(cvals[0][0]).startswith('!'):
                        ctx.fail(rep, 'workflowAttributes.replicate of the replicas resolves to %r, the documented layering '
                                      'gives %r' % (cvals, N), cls)
                    elif wr[0] == 'ok' and [a for a in cargs if str(a).startswith('copy of ')] not in (
                            [], ['copy of %s' % (wr[1],)]):
                        ctx.fail(rep, 'the replicas do not resolve the variable in their arguments to the documented '
                                      'value: %r' % (cargs,), cls)
                    if A is not None and nc == k:
                        if ncol != (0 if A else k):
                            ctx.fail(rep, 'the consumer of the replicas is generated %d times, the documented layering '
                                          'gives workflowAttributes.aggregate = %r and %d producers' % (ncol, A, k), cls)
                        elif k and A and avals != [[True, 'bool']] and not str(avals[0][0]).startswith('!'):
                            ctx.fail(rep, 'workflowAttributes.aggregate of the aggregating component resolves to %r' % (avals,), cls)
                if wanta[0] == 'undef' and wantn[0] == 'ok':
                    ctx.fail(rep, 'workflowAttributes.aggregate references an undefined variable and replicate() reports '
                                  'nothing', cls)
            elif closed and case.get('inj') in ('none', 'corpus') and N is not None and A is not None:
                ctx.fail(rep, 'replicate() fails (%s %s) although the documented layering resolves workflowAttributes.'
                              'replicate to %r and aggregate to %r' % (obs[1], obs[2], N, A), cls)
            doc = case['doc']
            i = '(%s, (%s, %s, %s), %s, %s, %s, %s)' % (
                'DFLT', cjv(doc.get('blueprint', {})), cjv(doc.get('variables', {})), clist(doc['components'], cjv),
                clist(case['files'], cjv), cstr(P), cZ(st), cstr('c'))
            o = ('(inl (%s, %s))' % (cZ(obs[1][0]), cZ(obs[2][0])) if obs[0] == 'ok'
                 else '(inr (%s, %s))' % (cstr(obs[1]), cstr(str(obs[2])[:80])))
            terms.append('((%s, %s, %s) : case_in * string * repl_outcome)' % (i, cstr(case['col']), o))
            kept.append((rep, obs))
    finally:
        impl.close()
    header = HEADER_REPL + '\nDefinition DFLT : jv := %s.' % cjv(dflt)
    bad = ctx.model_mismatches(header, terms, CHECKER_REPL, chunk=40, name='model_repl')
    for k, i in enumerate(bad):
        rep, obs = kept[i]
        model = ''
        if k < 2:
            model = ctx.model_eval(header, 'let \'(dflt, (b, v, cs), files, p, stage, name) := fst (fst %s) in '
                                   'let d := {| d_blueprint := b; d_variables := v; d_components := cs |} in '
                                   'match user_vars files, find_comp d stage name, find_comp d stage "col" with '
                                   'Some u, Some c, Some k => Some (repl_count rs_extra dflt d u p stage c, '
                                   'repl_aggregate rs_extra dflt d u p stage k, inst_must_fail dflt d u p, '
                                   'inst_may_fail d u p) | _, _, _ => None end' % terms[i])[-1500:]
        ctx.disagree(rep, list(obs), model,
                     'C04 FlowIRConcrete.replicate (replicas generated for workflowAttributes.replicate / aggregate) vs '
                     'Conf.Replicate.repl_count / repl_aggregate')


# ------------------------------------------------------------------ FlowIR.interpolate on its own (re-scanning)
FRAGS =['%', '%(', ')s', '(', ')', 's', 'a', 'b', 'c', 'd', 'zz', ' ', '-', 'x', '%(a)s', '%(b)s', '%(c)s', '%(d)s',
         '%(zz)s', '%(flow.x)s', '%(a)', '%%', '%(b', 'a)s', 'c)s', '%(d)s)s']
SNAMES = ['a', 'b', 'c', 'd']


def gen_string_case(rng):
    """variables a..d (values: fragments of the reference syntax; static references mostly point to later names so
    that most cases terminate), one string built the same way"""
    def text(later, n):
        out = []
        for _ in range(n):
            r = rng.random()
            if r < 0.35 and later:
                out.append('%%(%s)s' % rng.choice(later))
            elif r < 0.45:
                out.append(rng.choice(['%', '%(', ')s']))
            else:
                out.append(rng.choice(FRAGS))
        return ''.join(out)
    V = {}
    for i, n in enumerate(SNAMES):
        r = rng.random()
        if r < 0.15:
            continue
        if r < 0.25:
            V[n] = rng.choice([3, -7, True, False, 2.5, None, ['k']])
        elif r < 0.45:
            V[n] = rng.choice(['%', '%(', ')s', 'A', '%(', '(%s)s' % rng.choice(SNAMES)])
        else:
            V[n] = text(SNAMES[i + 1:] + (['zz'] if rng.random() < 0.1 else []), rng.randrange(1, 4))
    return V, text(SNAMES, rng.randrange(1, 5))


class _Timeout(Exception):
    pass


def interp_outcome(F, V, s):
    import signal

    def onalarm(_sig, _frm):
        raise _Timeout()
    old = signal.signal(signal.SIGALRM, onalarm)
    signal.setitimer(signal.ITIMER_REAL, 5.0)
    try:
        return ('ok', F.FlowIR.interpolate(s, copy.deepcopy(V), {}, False, label='x'))
    except _Timeout:
        return ('timeout',)
    except RecursionError:
        return ('err', 'RecursionError', '')
    except Exception as e:
        name = type(e).__name__
        if name == 'FLowIRSymbolTableNotImplemented':
            name = 'NotImplementedError'
        detail = ''
        if name in ('FlowIRVariableUnknown', 'FlowIRVariableInvalid'):
            detail = str(getattr(e, 'variable_route', ''))
        return ('err', name, detail)
    finally:
        signal.setitimer(signal.ITIMER_REAL, 0)
        signal.signal(signal.SIGALRM, old)


STRING_CORPUS = [
    ({'x': '%(', 'y': 'Y'}, '%(x)sy)s'),                      # a substitution completes a reference
    ({'a': '%(b)s(a)s', 'b': '%'}, '%(a)s'),                  # ... to the variable itself: never ends (Refuted.v)
    ({'a': '%(b)s(c)s', 'b': '%', 'c': 'C'}, 'u %(a)s'),
    ({'x': '%', 'y': 'Y'}, '%(x)s(flow.z)s %(y)s'),           # dotted name: stepped over
    ({'y': 'Y'}, '%(flow.z)s %(y)s %(u)s'),
    ({'x': '%'}, '%(x)s(u)s'),                                # ... completes a reference to an undefined variable
    ({'x': '%'}, '%(x)s(y)'),                                 # ... an incomplete reference
    ({'a': '%(p.q)s'}, '%(a)s'),
    ({'x': ')s%(x%(x'}, '%(x)s)s)s'),                         # text grows, the loop still ends
    ({'a': 'A', 'b': '<%(a)s>'}, '%(b)s%(b)s %(a)s'),
]


def _explore_strings(ctx, pairs):
    import experiment.model.frontends.flowir as F
    sys.setrecursionlimit(max(sys.getrecursionlimit(), 1000))
    terms, kept = [], []
    for V, s in pairs:
        o = interp_outcome(F, V, s)
        ctx.count('interpolate-outcome=' + (o[0] if o[0] != 'err' else o[1]))
        static = [m.group(1) for m in VAR_RE.finditer(s)]
        ctx.case(['interpolate', V, s], bool(static))
        if o[0] == 'timeout':
            continue
        rep = {'interpolate': s, 'variables': V}
        # mirror of theorem C04_rescan
        if o[0] == 'ok':
            if any('.' not in m.group(1) for m in VAR_RE.finditer(o[1])):
                ctx.fail(rep, 'interpolate returned text that still holds a reference to a variable', [])
            if static and '.' not in static[0] and static[0] not in V:
                ctx.fail(rep, 'interpolate passed over an undefined left-most reference', [])
        elif o[1] == 'FlowIRVariableUnknown' and o[2] in V:
            ctx.fail(rep, 'the variable reported as unknown is defined', [])
        created = o[0] == 'ok' and VAR_RE.search(s) and '%' in ''.join(v for v in V.values() if isinstance(v, str))
        ctx.count('interpolate-percent-in-values=%s' % bool(created))
        co = '(inl %s)' % cstr(o[1]) if o[0] == 'ok' else '(inr (%s, %s))' % (cstr(o[1]), cstr(o[2]))
        terms.append('((%s, %s, %s) : list (string * jv) * string * str_outcome)' % (
            clist(sorted(V.items()), lambda kv: cpair(cstr(kv[0]), cjv(kv[1]))), cstr(s), co))
        kept.append((V, s, o))
    bad = ctx.model_mismatches(HEADER, terms, 'check_interp_rs', chunk=250, name='model_str')
    for k, i in enumerate(bad):
        V, s, o = kept[i]
        model = ''
        if k < 2:
            model = ctx.model_eval(HEADER, 'interp_string_rs rs_extra %s %s' % (
                clist(sorted(V.items()), lambda kv: cpair(cstr(kv[0]), cjv(kv[1]))), cstr(s)))[-800:]
        ctx.disagree({'interpolate': s, 'variables': V}, list(o), model,
                     'C04 FlowIR.interpolate vs Conf.Rescan.interp_string_rs')


def run(ctx):
    ctx.rule = ('documents with platforms default/p/q, two stages, 14 options x 11 layers and 8 variables x 15 layers '
                '(default/platform/foreign-platform global+stage, foreign stage, two user variable files, component, '
                'override per platform) each defined independently with density 0.15/0.3/0.5, variable chains up to '
                'depth 5, one injected fault in ~29% of cases (undefined reference 15%, cycle, incomplete, shape clash, '
                'bad typed text, dotted name, invalid variable value, 4%: a variable holding % or %( completes a new reference during substitution); plus every define/omit pattern of one option and '
                'one variable over 8 layers (256 cases) and the corpus; non-trivial = some option or variable is '
                'defined by >= 2 layers of the selected platform; distinct by (platform, document, files); every case is asked in one of four ways (active platform, explicit platform on an object of another platform, after a primitive resolution, after resolving and then putting one variable definition back through set_platform_global/stage_variable) and ALSO resolved through instance()/replicate() (four entry-point variants, ignore_errors=True) and, for the corpus and 1 case in 6, through ExperimentConfigurationFactory.configurationForExperiment(primitive=False) on a scratch package; plus 500 (thorough 4000) direct calls of FlowIR.interpolate on variables a..d and a string built from fragments of the reference syntax (%, %(, )s, names, complete/incomplete/dotted references); plus 110 (thorough 800) generated SESSIONS and 5 fixed ones on ONE FlowIRConcrete object (document as above plus a sibling component with its own definition/variables/overrides in the stage of the component under test, density 0.3/0.5 so that default, p and q all have stage-level blueprints): 1-3 calls out of instance()/replicate() of a random platform (inject_missing_fields=False 50%, is_primitive 30%, fill_in_all 20%), raw(), get_component_configuration of c / sib / the component of the other stage on a random platform with at least one unusual option (raw, include_default=False, is_primitive, inject_missing_fields=False, ignore_convert_errors), then the strict look-up, raw and resolved, for 3 of the 6 (platform, component) pairs; non-trivial = the question differs from the last call in platform or component and the stage has a blueprint; plus 150 (thorough 1200) generated REPLICATION cases and 3 fixed ones: a document as above (density 0.15/0.3, fault none or an undefined reference) whose component c carries workflowAttributes.replicate (85% in the component, 25-60% per platform override) as %(rn)s, %(rk)s with rk = %(rn)s defined in 1-2 of 8 layers (45%), or a literal; rn defined with a different number by each of the 15 variable layers independently (density 0.2/0.35/0.5) and in 50% forced into the component or an override AND a stage / user / global layer; a consumer col of c in the stage with workflowAttributes.aggregate %(ag)s or a literal, ag layered likewise; driven through replicate() on the active platform, replicate(platform) on an object of another platform or FlowIRExperimentConfiguration(primitive=False, variable_files) (by hash); non-trivial = rn is defined by the component (or its override) and by a lower layer and the documented number of replicas is computable')
    rng = ctx.rng
    n = 900 if ctx.tier == 'quick' else 6000
    cases = corpus_cases()
    cases += exhaustive_cases()
    ctx.count('exhaustive_one_option_cases', 256)
    for _ in range(n):
        cases.append(gen_case(rng))
    # (development aid: VERIF_C04_ONLY=replicate explores the last family alone; the inputs drawn are the same)
    only = os.environ.get('VERIF_C04_ONLY')
    if only:
        _explore_x, _explore_strings_x, _explore_sessions_x = (lambda *a: None,) * 3
    else:
        _explore_x, _explore_strings_x, _explore_sessions_x = _explore, _explore_strings, _explore_sessions
    _explore_x(ctx, cases)
    ctx.count('cases', len(cases))
    pairs = list(STRING_CORPUS)
    for _ in range(500 if ctx.tier == 'quick' else 4000):
        pairs.append(gen_string_case(rng))
    _explore_strings_x(ctx, pairs)
    ctx.count('interpolate_cases', len(pairs))
    # (generated last: the documents and strings above are the same as before the sessions were added)
    sessions = session_corpus()
    for _ in range(110 if ctx.tier == 'quick' else 800):
        sessions.append(gen_session(rng))
    _explore_sessions_x(ctx, sessions)
    ctx.count('sessions', len(sessions))
    # (generated after everything else: the input streams above are unchanged)
    replicas = repl_corpus()
    for _ in range(150 if ctx.tier == 'quick' else 1200):
        replicas.append(gen_repl_case(rng))
    _explore_replicas(ctx, replicas)
    ctx.count('replicate_cases', len(replicas))


def replay(ctx, path):
    d = json.load(open(path))
    c = d.get('case') or d.get('first', {}).get('case')
    if isinstance(c, dict) and 'interpolate' in c:
        _explore_strings(ctx, [(c['variables'], c['interpolate'])])
        for f in ctx.failures:
            print('REPRODUCED: %s' % f['what'])
        for f in ctx.disagreements:
            print('DISAGREEMENT: impl=%s model=%s' % (f['impl'], str(f['model'])[-600:]))
        return 1 if (ctx.failures or ctx.disagreements) else 0
    if not isinstance(c, dict) or 'doc' not in c:
        print('replay file names no input (proof obligation): re-run ./check C04')
        return 2
    c = fix_stage_keys(c)
    c.setdefault('files', [])
    if c.get('replicate'):
        c.setdefault('col', 'col')
        _explore_replicas(ctx, [c])
    elif c.get('session'):
        _explore_sessions(ctx, [c])
    else:
        _explore(ctx, [c])
    for f in ctx.failures:
        print('REPRODUCED: %s' % f['what'])
    for f in ctx.disagreements:
        print('DISAGREEMENT: impl=%s model=%s' % (f['impl'], str(f['model'])[-600:]))
    return 1 if (ctx.failures or ctx.disagreements) else 0
