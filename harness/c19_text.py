"""C19 — the configparser text layer (stream T of harness/c19.py).

Tables of sections are handed to the REAL FlowConfigParser exactly as the writers of dosini.py do
(add_section, set(section, key, str(value)), write(file)), the file is read back with a fresh
FlowConfigParser.read and the parser's own tables (defaults, sections) are taken with get(raw) as dosini_to_dict
does.  Compared inside Coq with coq/Dosini/Text.v: the text written, the table read from it, and - inside the
guard table_ok of theorem C19_text_roundtrip - that the table read is the table written.  Raw hostile texts
(not produced by the writer) are also fed to the real reader and to the model's reader.
"""
import configparser
import os
import shutil
import tempfile

from common import cstr, clist, copt, cpair, cbool

HEADER = ('Require Import V.Lib.JTree V.Dosini.Codec V.Dosini.Text.\nOpen Scope string_scope.')

WS = ' \t\n\x0b\x0c\r\x1c\x1d\x1e\x1f'


# ------------------------------------------------------------------ the real code
def real_write(t, tmp):
    """-> text of the file, or None when add_section/set raised"""
    import experiment.model.frontends.dosini as D
    cfg = D.FlowConfigParser()
    try:
        for name, es in t:
            cfg.add_section(name)
            for k, v in es:
                cfg.set(name, k, str(v))
    except (ValueError, configparser.Error):
        return None
    path = os.path.join(tmp, 'w.conf')
    with open(path, 'w') as f:
        cfg.write(f)
    with open(path, newline='') as f:
        return f.read()


def real_read(text, tmp):
    """-> (defaults, sections) as lists in the parser's order, or None when reading raised"""
    import experiment.model.frontends.dosini as D
    path = os.path.join(tmp, 'r.conf')
    with open(path, 'w', newline='') as f:
        f.write(text)
    cfg = D.FlowConfigParser()
    try:
        cfg.read([path])
    except configparser.Error:
        return None
    defaults = [(k, cfg.get('DEFAULT', k)) for k in cfg.defaults()]
    secs = []
    for s in cfg.sections():
        secs.append((s, [(k, cfg.get(s, k)) for k in cfg._sections[s]]))
    return defaults, secs


# ------------------------------------------------------------------ the guard (mirror of Text.table_ok)
def _strip_ok(s):
    return s == s.strip(WS)


def set_ok(v):
    import re
    t = v.replace('%%', '')
    t = re.sub(r'%\(([^)]+)\)s', '', t)
    return '%' not in t


def key_ok(k):
    return (k != '' and k[0] not in '#;[' and _strip_ok(k) and '\n' not in k and '\r' not in k
            and '=' not in k and ':' not in k)


def value_ok(v):
    ls = v.split('\n')
    return (set_ok(v) and '\r' not in v and v == v.rstrip(WS) and all(_strip_ok(l) for l in ls)
            and all(not l.startswith(('#', ';')) for l in ls[1:]))


def table_ok(t):
    names = [n for n, _ in t]
    return (len(set(names)) == len(names) and 'DEFAULT' not in names
            and all(n != '' and '\n' not in n and '\r' not in n for n in names)
            and all(key_ok(k) and value_ok(v) for _, es in t for k, v in es))


# ------------------------------------------------------------------ generators
GOOD_NAMES = ['A', 'META', 'STAGE0', 'ENV-GPU-ENV', 'SANDBOX', 'Post-1', 'x_y', 'GLOBAL', 'default', 'a]b', '[x]',
              ' padded ', 'with space', 'n=1', '# not a comment', 'Result']
BAD_NAMES = ['DEFAULT', '', 'a\nb', 'a\rb', '\n']
GOOD_KEYS = ['executable', 'arguments', 'job-type', 'k8s-image', 'UPPER', 'Mixed_Case', 'my-var', 'x.y', 'stage-weight',
             'a b', 'k]', 'k#', 'k;x', 'PATH', '%(n)s', 'data-in', '0', '-']
BAD_KEYS = ['a:b', 'a=b', '#k', ';k', '[k]', '[k', ' k', 'k ', '\tk', 'k\t', 'k\nl', '', ':', '=', 'k\r', ' ', 'k :x']
WORDS = ['x', 'bin/run.sh', '-n', '%(n)s', 'A:ref', 'a=b', 'k: v', '#hash', ';semi', '[sec]', '100%%', 'stage0.A:ref', '$PATH',
         '/opt/bin:$PATH', '"q"', "'s'", 'back\\slash', 'x#y', 'x;y', '=', ':', '%(a.b-c_1)s', 'TRUE', '2.5', '-1', ']', '[',
         'tab\there', 'ff\x0cfeed', 'a  b', '%%(n)s', '%(n)s%%']
BAD_WORDS = ['50%', '%Y', '%(', '%()s', '%(n)', '%(n)x', '%%%', 'cr\rhere', '%(n)s%', '%(a)b)s']


def good_line(rng, first):
    n = rng.choice([0, 1, 1, 2, 3]) if not first else rng.choice([0, 1, 1, 2, 4])
    ws = [rng.choice(WORDS) for _ in range(n)]
    if ws and not first and ws[0][0] in '#;':
        ws[0] = 'w' + ws[0]
    return rng.choice([' ', '  ', '\t', ' = ', ' : ']).join(ws) if ws else ''


def good_value(rng):
    k = rng.choice([1, 1, 1, 2, 3, 5])
    ls = [good_line(rng, i == 0) for i in range(k)]
    while len(ls) > 1 and ls[-1] == '':
        ls.pop()
    v = '\n'.join(ls)
    return v if value_ok(v) else 'plain'


def hostile_value(rng):
    v = good_value(rng)
    r = rng.randrange(12)
    if r == 0:
        return ' ' + v
    if r == 1:
        return v + rng.choice([' ', '\n', '\t', '\n\n', ' \n'])
    if r == 2:
        return v + '\n' + rng.choice(['#', ';']) + 'comment like'
    if r == 3:
        return v + '\n ' + rng.choice(WORDS) + '\nend'
    if r == 4:
        return v + ' ' + rng.choice(BAD_WORDS)
    if r == 5:
        return v + '\n' + rng.choice(WORDS) + ' \nend'
    if r == 6:
        return v + rng.choice(['\r', '\r\n', '\rx', '\r\nx', '\n\rx'])
    if r == 7:
        return v + '\n\n\n' + rng.choice(WORDS)
    if r == 8:
        return rng.choice(['#', ';']) + v
    if r == 9:
        return v + '\n[A]\nk = v'
    if r == 10:
        return rng.choice(WS) + rng.choice(WORDS) + rng.choice(WS)
    return v + '\n' + rng.choice(['\x0c', '\x1c', '\x0b', '\t', ' ']) + '\nx'


def gen_table(rng, hostile):
    t = []
    names = set()
    for _ in range(rng.choice([1, 1, 2, 3])):
        if hostile and rng.random() < 0.15:
            n = rng.choice(BAD_NAMES + GOOD_NAMES[:3])      # may repeat a name: DuplicateSectionError
        else:
            n = rng.choice([x for x in GOOD_NAMES if x not in names])
        names.add(n)
        es = {}
        for _j in range(rng.choice([0, 1, 2, 3, 5])):
            k = rng.choice(BAD_KEYS) if hostile and rng.random() < 0.2 else rng.choice(GOOD_KEYS)
            es[k] = hostile_value(rng) if hostile and rng.random() < 0.4 else good_value(rng)
        t.append((n, sorted(es.items(), key=lambda kv: rng.random())))
    return t


PIECES = ['[A]', '[B]', '[DEFAULT]', '[A]', 'k = v', 'k: v', 'k=v', 'other = 1', 'K = upper', '  cont', '\tcont', '    deeper',
          '# c', '; c', '  # c', '\t; c', '', '   ', '\t', 'novalue', '= v', ': v', '[A', '[]', ' [B]', '  [C]', 'k = v ; not comment',
          '[A] trailing', 'k = [x]', ' k2 = indented', '  k3 : more', 'k =', 'k = ', 'k', '[a]b]', 'x = a = b : c', '\x0c', 'a b = c d',
          '[default]', 'k = %(raw)s 50%', ' = ', '[ A ]', '#[A]', 'k = v\x0c', '\x0bk = v']
BENIGN = ['[A]', '[B]', '[DEFAULT]', '[META]', 'k = v', 'k: v', 'other = 1', 'j=2', '  cont', '\tcont', '# c', '; c', '', '  ', 'k = ',
          'x = a = b', '    more', '[C]']


def gen_text(rng):
    src = BENIGN if rng.random() < 0.6 else PIECES     # benign texts mostly parse; hostile ones mostly raise
    n = rng.choice([1, 2, 4, 6, 9, 12])
    out = ''
    for i in range(n):
        out += rng.choice(src) + rng.choice(['\n', '\n', '\n', '\n', '\r\n', '\r', '']) if i < n - 1 else rng.choice(src) + rng.choice(['\n', ''])
    if rng.random() < 0.8 and not out.startswith('['):
        out = '[A]\n' + out
    return out


# the boundary witnesses of coq/Dosini/Refuted.v (C19_text_*_refuted), as tables
WITNESSES = [
    ('comment_line_in_value', [('A', [('k', 'a\n#b\nc')])]),
    ('leading_blank_in_value', [('A', [('k', ' a')])]),
    ('key_with_colon', [('A', [('a:b', 'v')])]),
    ('key_with_equals', [('A', [('a=b', 'v')])]),
    ('trailing_newline_in_value', [('A', [('k', 'a\n')])]),
    ('carriage_return_in_value', [('A', [('k', 'a\rb')])]),
    ('blank_inside_line_end', [('A', [('k', 'a \nb')])]),
    ('indented_continuation', [('A', [('k', 'a\n  b')])]),
    ('key_like_section', [('A', [('[k]', 'v')])]),
    ('key_like_comment', [('A', [('#k', 'v')])]),
    ('key_with_blank_end', [('A', [('k ', 'v')])]),
    ('bare_percent', [('A', [('k', '50% done')])]),
    ('section_DEFAULT', [('DEFAULT', [('k', 'v')])]),
    ('section_empty_name', [('', [('k', 'v')])]),
    ('section_name_newline', [('a\nb', [('k', 'v')])]),
    ('inside_guard_multiline', [('A', [('k', 'a\n\nb = c\n[x]\nk2: v'), ('Upper', '#first line may start with a hash')]), ('a]b', [])]),
]


# ------------------------------------------------------------------ terms
def centries(es):
    return clist(list(es), lambda kv: '(%s, %s)' % (cstr(kv[0]), cstr(kv[1])))


def ctable(t):
    return clist(list(t), lambda s: '(%s, %s)' % (cstr(s[0]), centries(s[1])))


def cread(r):
    return copt(None if r is None else '(%s, %s)' % (centries(r[0]), ctable(r[1])))


def explore(ctx, n_tables, n_texts, only_table=None, only_text=None):
    rng = ctx.rng
    tmp = tempfile.mkdtemp(prefix='verif_c19t_')
    try:
        tables = [(nm, t) for nm, t in WITNESSES] if only_table is None and only_text is None else []
        if only_table is not None:
            tables.append(('replay', [(n, [tuple(e) for e in es]) for n, es in only_table]))
        for i in range(n_tables):
            tables.append(('gen', gen_table(rng, hostile=(i % 2 == 1))))
        t_case, t_guard, keep = [], [], []
        for nm, t in tables:
            text = real_write(t, tmp)
            back = real_read(text, tmp) if text is not None else None
            ok = table_ok(t)
            ctx.case(['T', repr(t)], any(es for _, es in t))
            ctx.count('T_tables')
            ctx.count('T_inside_guard' if ok else 'T_outside_guard')
            if any('\n' in v for _, es in t for _, v in es):
                ctx.count('T_multiline_values')
            desc = {'stream': 'T', 'table': [[n, [list(e) for e in es]] for n, es in t]}
            same = back is not None and back[0] == [] and [(n, list(es)) for n, es in back[1]] == [(n, list(es)) for n, es in t]
            if ok and not same:
                ctx.fail(dict(desc, text=text, read=repr(back)),
                         'a table of sections inside the stated guard is not read back as written', [])
            if not ok:
                ctx.count('T_outside_guard_' + ('kept' if same else 'lost_or_rejected'))
            t_case.append('(%s, %s, %s)' % (ctable(t), copt(None if text is None else cstr(text)), cread(back)))
            t_guard.append(cpair(ctable(t), cbool(ok)))
            keep.append((desc, text, back))
            if nm != 'gen':
                ctx.sample({'stream': 'T', 'witness': nm, 'table': desc['table'], 'text': text, 'read': repr(back)}, limit=40)
        for terms, chk, name in ((t_case, 'check_text_case', 'C19 text layer: FlowConfigParser add_section/set/write/read vs Dosini.Text.write_table/read_text'),
                                 (t_guard, 'check_guard_case', 'C19 text layer: the guard of the harness vs Dosini.Text.table_ok')):
            for k, i in enumerate(ctx.model_mismatches(HEADER, terms, chk, chunk=150, name='T_' + chk)):
                desc, text, back = keep[i]
                ctx.disagree(desc, {'text': text, 'read': repr(back)},
                             ctx.model_eval(HEADER, '(write_table %s, table_ok %s)' % (ctable(tables[i][1]), ctable(tables[i][1])))[:600] if k < 2 else '', name)
        texts = [gen_text(rng) for _ in range(n_texts)] + ([only_text] if only_text is not None else [])
        t_read, keep = [], []
        for x in texts:
            r = real_read(x, tmp)
            ctx.case(['Tr', x], True)
            ctx.count('T_raw_texts')
            ctx.count('T_raw_' + ('parsed' if r is not None else 'rejected'))
            t_read.append(cpair(cstr(x), cread(r)))
            keep.append((x, r))
        for k, i in enumerate(ctx.model_mismatches(HEADER, t_read, 'check_read_case', chunk=150, name='T_read')):
            x, r = keep[i]
            ctx.disagree({'stream': 'T', 'text': x}, repr(r),
                         ctx.model_eval(HEADER, 'read_text %s' % cstr(x))[:600] if k < 2 else '',
                         'C19 text layer: FlowConfigParser.read on a hostile text vs Dosini.Text.read_text')
    finally:
        shutil.rmtree(tmp, ignore_errors=True)
