"""C09 — the life cycle of ONE Manifest object (sessions).

A session is {'init': [keys], 'how': way of constructing, 'ops': [op, ...], 'ctx': index of a context of c09.CONTEXTS}:

  how   'dict'        Manifest({key: source})
        'novalidate'  Manifest({...}, validate=False)
        'file'        Manifest.fromFile(<yaml file holding the dict>)
        'directory'   Manifest.fromDirectory(<directory with one sub-directory per key>)   (keys without '/')
  op    ['update', [keys], form]   Manifest.update(other); form = 'dict' | 'manifest' (another Manifest object) |
                                   'data' (the manifestData of another Manifest)
        ['clear']                  Manifest.clear()
        ['caller', what]           the CALLER changes the object it was handed by a getter (what = 'folders': extends and
                                   empties the list returned by top_level_folders; 'data': adds a key to the dict returned by
                                   manifestData): the manifest must not change (no operation of the model: MUpdate [])
        ['validate']               Manifest.validate() (a read)

After the construction and after EVERY operation the keys (in dict order) and top_level_folders are read; at the end the
reference functions are observed with the top_level_folders read last.  The oracle of the run is the dict simulated here
(expected_keys), not the code under test."""

# keys: plain folders, nested keys, names of known components of the contexts, reserved folders, application-dependency
# names, keys that differ only below the first segment, a key with a colon, a trailing / doubled separator
FLAT = ['hooks', 'scripts', 'foo', 'bar', 'lib', 'A', 'gen_2', 'comp-1', 'x.y.z', 'a.b', 'data', 'bin', 'appx', 'stage2', 'A1',
        '3#loop', 'Data', 'UPPER']
NESTED = ['assets/models/large', 'foo/bar', 'foo/baz', 'foo/bar/baz', 'analysis/templates', 'gen_2/x', 'A/deep', 'hooks/pre',
          'data/extra', 'x.y.z/deep', 'a:b/c', 'bar/', 'q//r', 'stage0.x/y', 'comp-1/in/put']
FORMS = ['dict', 'dict', 'manifest', 'data']
HOWS = ['dict', 'dict', 'dict', 'novalidate', 'file', 'directory']


def expected_keys(init, ops):
    """-> [keys after the construction, keys after op 1, ...] (dict order: a key that is already there keeps its place)"""
    cur = []
    for k in init:
        if k not in cur:
            cur.append(k)
    out = [list(cur)]
    for op in ops:
        if op[0] == 'update':
            for k in op[1]:
                if k not in cur:
                    cur.append(k)
        elif op[0] == 'clear':
            cur = []
        out.append(list(cur))
    return out


def first_segments(keys):
    return [k.split('/', 1)[0] for k in keys]


def mentioned(case):
    """every first segment the session ever mentions (in the order of appearance)"""
    out = []
    for k in list(case['init']) + [k for op in case['ops'] if op[0] == 'update' for k in op[1]]:
        s = k.split('/', 1)[0]
        if s not in out:
            out.append(s)
    return out


def coq_ops(ops, cstr, clist):
    out = []
    for op in ops:
        if op[0] == 'update':
            out.append('MUpdate %s' % clist(op[1], cstr))
        elif op[0] == 'clear':
            out.append('MClear')
        else:
            out.append('MUpdate []')
    return '[' + '; '.join(out) + ']'


def gen_keys(rng, lo=0, hi=3, flat_only=False):
    pool = FLAT if flat_only else FLAT + NESTED + NESTED
    return rng.sample(pool, rng.randint(lo, hi))


def gen_session(rng, nctx):
    how = rng.choice(HOWS)
    init = gen_keys(rng, 0, 3, flat_only=(how == 'directory'))
    ops = []
    seen = list(init)
    for _ in range(rng.randint(1, 5)):
        x = rng.random()
        if x < 0.55:
            keys = gen_keys(rng, 0 if x < 0.05 else 1, 3)
            if seen and rng.random() < 0.3:       # shadow a key that is (or was) there
                keys.insert(rng.randrange(len(keys) + 1), rng.choice(seen))
                keys = [k for i, k in enumerate(keys) if k not in keys[:i]]
            seen += [k for k in keys if k not in seen]
            ops.append(['update', keys, rng.choice(FORMS)])
        elif x < 0.78:
            ops.append(['clear'])
        elif x < 0.93:
            ops.append(['caller', rng.choice(['folders', 'data'])])
        else:
            ops.append(['validate'])
    return {'init': init, 'how': how, 'ops': ops, 'ctx': rng.randrange(nctx)}


# fixed boundary sessions (independent of VERIF_SEED)
CORPUS = [
    # the package gains a flat and a nested folder after the manifest was created
    {'init': ['hooks'], 'how': 'dict', 'ctx': 0,
     'ops': [['update', ['scripts', 'assets/models/large'], 'dict'], ['update', ['analysis/templates'], 'data']]},
    # a folder named like a known component of the owner stage comes and goes
    {'init': ['gen_2/x', 'foo'], 'how': 'dict', 'ctx': 0, 'ops': [['clear'], ['update', ['lib'], 'dict']]},
    {'init': [], 'how': 'dict', 'ctx': 2, 'ops': [['update', ['comp-1', 'A/deep'], 'manifest'], ['clear']]},
    # created empty, read, extended (a cache filled by the first read must not survive the update)
    {'init': [], 'how': 'novalidate', 'ctx': 3, 'ops': [['caller', 'folders'], ['update', ['foo/bar', 'hooks'], 'dict'],
                                                          ['caller', 'data'], ['update', ['foo/baz', 'hooks/pre'], 'dict']]},
    # clear() twice, shadowing update, update with nothing
    {'init': ['bar', 'foo/bar'], 'how': 'file', 'ctx': 5,
     'ops': [['update', ['foo/bar', 'bar/foo'], 'dict'], ['clear'], ['clear'], ['update', [], 'dict'], ['update', ['bar/foo'], 'manifest']]},
    # the implied manifest of a directory, then extended with a nested key and emptied
    {'init': ['lib', 'A'], 'how': 'directory', 'ctx': 1, 'ops': [['update', ['x.y.z/deep'], 'dict'], ['validate'], ['clear']]},
]


def systematic():
    """every sequence of at most two operations out of {update with a new flat key, update with a new nested key, update that
    shadows a key, clear} after a manifest created with a flat and with a nested key"""
    moves = {'flat': ['update', ['scripts'], 'dict'], 'nested': ['update', ['assets/models/large', 'gen_2/x'], 'manifest'],
             'shadow': ['update', ['hooks/pre', 'lib'], 'data'], 'clear': ['clear']}
    out = []
    k = 0
    for init in (['hooks/pre', 'A'], ['lib']):
        for n in (1, 2):
            import itertools
            for seq in itertools.product(sorted(moves), repeat=n):
                out.append({'init': list(init), 'how': 'dict', 'ctx': k % 4, 'ops': [list(moves[m]) for m in seq], 'few_refs': True})
                k += 1
    return out


def cases(tier, rng, nctx):
    out = [dict(c) for c in CORPUS] + systematic()
    for _ in range(30 if tier == 'quick' else 400):
        out.append(gen_session(rng, nctx))
    return out
