"""Shared by C01/C02: workflow + outcome generators, schedule exploration over the real Controller
(sched_driver), Coq encoding of traces."""
import itertools

from common import clist, cnat, cbool, cpair

STATE_CODE = {'running': 0, 'checking': 1, 'finished': 2, 'failed': 3, 'component_shutdown': 4}
HEADER = 'Require Import V.Restart.Model V.Sched.Model.'
REASONS = ['Success', 'KnownIssue', 'SystemIssue', 'SubmissionFailed', 'UnknownIssue', 'ResourceExhausted']


def comp(stage=0, rep=False, agg=False, repl=False, preds=(), sd=(), ro=('ResourceExhausted',), mx=3):
    return dict(stage=stage, is_repeat=rep, is_aggregate=agg, is_replica=repl, preds=list(preds),
                shutdown_on=list(sd), restart_on=list(ro), max_r=mx)


def gen_workflow(rng, nmax=7):
    n = rng.randint(1, nmax)
    nst = rng.randint(1, min(3, n))
    stages = sorted([0] + [rng.randrange(nst) for _ in range(n - 1)])
    # make stages contiguous
    remap = {s: i for i, s in enumerate(sorted(set(stages)))}
    stages = [remap[s] for s in stages]
    W = []
    for c in range(n):
        st = stages[c]
        cand = [p for p in range(c) if stages[p] <= st]
        k = 0 if not cand else rng.choice([0, 1, 1, 1, 2, 2, 3])
        preds = sorted(rng.sample(cand, min(k, len(cand))))
        same_stage_pred = any(stages[p] == st for p in preds)
        rep = same_stage_pred and rng.random() < 0.35 or (preds and rng.random() < 0.05)
        agg = len(preds) >= 2 and rng.random() < 0.4
        W.append(comp(stage=st, rep=bool(rep), agg=agg, repl=rng.random() < 0.35, preds=preds,
                      sd=rng.choice([[], [], ['KnownIssue'], ['KnownIssue', 'ResourceExhausted'], ['SystemIssue'], ['Success', 'KnownIssue']]),
                      ro=rng.choice([['ResourceExhausted'], ['ResourceExhausted', 'KnownIssue'], [], ['SubmissionFailed']]),
                      mx=rng.choice([0, 1, 2, 3])))
    return W


def gen_outcome(rng, W, benign=False):
    out = {}
    for c, d in enumerate(W):
        k = rng.randint(1, 4)
        pool = ['Success'] * 6 + d['shutdown_on'] * 3 + d['restart_on'] * 3 + (['SubmissionFailed'] if not benign else [])
        if not benign:
            pool += REASONS
        seq = [rng.choice(pool) for _ in range(k - 1)] + [rng.choice(['Success'] * 4 + d['shutdown_on'] + ([] if benign else ['KnownIssue', 'UnknownIssue']))]
        if not benign and rng.random() < 0.06:
            # the scheduler refuses the submission several times in a row (at most five re-submissions are allowed)
            seq = ['SubmissionFailed'] * rng.randint(4, 7) + seq[-1:]
        out[c] = seq
    return out


def obs_tuple(o):
    comps = [(STATE_CODE[c[0]], c[1], c[2], c[3], c[4], c[5]) for c in o['comps']]
    v = {None: 0, 'ok': 1, 'UnexpectedJobFailureError': 2, 'FinalStageNoFinishedLeafComponents': 3}.get(o['verdict'], 9)
    return (comps, o['done'], o['stop'], o['pmq'], o['finq'], o['running'], v, o['cur'] + 1)


def explore(W, outcome, chooser, maxlen=400, slow_pm=False, sleepy=False, start_at=0, with_cdb=False):
    """Runs one schedule to completion. chooser(enabled_events, step) -> index. Returns
    (trace [(event, obs_before, obs_after)], driver_errors, complete?)"""
    import sched_driver as S
    d = S.Driver(W, outcome, with_cdb=with_cdb)
    d.slow_pm = slow_pm
    d.sleepy = sleepy
    d.cur = start_at - 1        # start_at > 0: the experiment is restarted from that stage (earlier stages are skipped)
    first = True
    trace = []
    pre = d.observe()
    step = 0
    complete = False
    while step < maxlen:
        en = d.enabled()
        can_start = (not d.stage_running()) and (first or d.verdict == 'ok') and d.cur + 1 < d.nstages
        if can_start:
            en = en + [('Start',)]
        if not en:
            complete = True
            break
        ev = en[chooser(en, step) % len(en)]
        try:
            if ev[0] == 'Start':
                d.start_stage()
                first = False
            elif ev[0] == 'PMB':
                # a post-mortem that parks inside its stability wait changes nothing observable yet: for the model the
                # whole post-mortem happens when it is released (PME -> PM); one that completes at once is a plain PM
                if d.do(ev) == 'done':
                    ev = ('PM', ev[1])
                else:
                    ev = ('PMB', ev[1])
            else:
                d.do(ev)
        except RuntimeError as exc:
            if 'controller loop stuck' not in str(exc):
                raise
            trace.append((ev, pre, pre))
            break
        post = d.observe()
        trace.append((ev, pre, post))
        pre = post
        step += 1
    return trace, d.errors, complete, d


# ------------------------------------------------------------------ Coq terms
def coq_comp(d):
    return ('{| stage := %s; is_repeat := %s; is_aggregate := %s; is_replica := %s; preds := %s; cshutdown_on := %s; '
            'restart_on := %s; max_r := %s |}' % (cnat(d['stage']), cbool(d['is_repeat']), cbool(d['is_aggregate']),
                                                  cbool(d['is_replica']), clist(d['preds'], cnat), clist(d['shutdown_on']),
                                                  clist(d['restart_on']), cnat(d['max_r'])))


def coq_event(ev):
    k = ev[0]
    if k in ('Start', 'Tick'):
        return k
    return '(%s %s)' % ({'Exit': 'Exit', 'PM': 'PM', 'Fin': 'Fin'}[k], cnat(ev[1]))


def coq_obs(o):
    comps, done, stop, pmq, finq, running, v, cur = obs_tuple(o)
    cs = clist(['(%s, %s, %s, %s, %s, %s)' % (cnat(a), cbool(b), cnat(c), cbool(d_), cnat(e), cnat(f))
                for (a, b, c, d_, e, f) in comps])
    return '(%s, %s, %s, %s, %s, %s, %s, %s)' % (cs, clist(done, cnat), cbool(stop), clist(pmq, cnat), clist(finq, cnat),
                                                 cbool(running), cnat(v), cnat(cur))


def coq_scase(W, outcome, trace):
    """a trace with Sleep / Wake events, for Sched.Sleep.check_scase"""
    tbl = clist([clist(outcome[c]) for c in range(len(W))])
    items = []
    for (ev, pre, post) in trace:
        if ev[0] == 'PMB':
            continue
        if ev[0] == 'PME':
            items.append('(Ev (PM %s), Some %s)' % (cnat(ev[1]), coq_obs(post)))
        elif ev[0] == 'Start':
            items.append('(Ev Start, None)')
            items.append('(Ev Tick, Some %s)' % coq_obs(post))
        elif ev[0] in ('Sleep', 'Wake'):
            items.append('(%s, Some %s)' % (ev[0], coq_obs(post)))
        else:
            items.append('(Ev %s, Some %s)' % (coq_event(ev), coq_obs(post)))
    return '(%s, %s, %s)' % (clist([coq_comp(d) for d in W]), tbl, clist(items))


def coq_case(W, outcome, trace, fixed=True):
    tbl = clist([clist(outcome[c]) for c in range(len(W))])
    items = []
    for (ev, pre, post) in trace:
        if ev[0] == 'PMB':
            continue               # nothing happens in the model until the post-mortem is released
        if ev[0] == 'PME':
            items.append('(PM %s, Some %s)' % (cnat(ev[1]), coq_obs(post)))
            continue
        if ev[0] == 'Start':   # initialise + first _schedule, then the first loop iteration before the first wait
            items.append('(Start, None)')
            items.append('(Tick, Some %s)' % coq_obs(post))
        else:
            items.append('(%s, Some %s)' % (coq_event(ev), coq_obs(post)))
    tr = clist(items)
    return '(%s, %s, %s, %s)' % (clist([coq_comp(d) for d in W]), cbool(fixed), tbl, tr)


# ------------------------------------------------------------------ C01 predicate on one trace
def launch_violations(W, trace):
    """for every component whose run count becomes positive at an event, evaluate the property on the
    observation before the event"""
    bad = []
    for (ev, pre, post) in trace:
        for c, d in enumerate(W):
            if pre['comps'][c][2] == 0 and post['comps'][c][2] > 0:
                for p in d['preds']:
                    pst, pstaged, pruns = pre['comps'][p][0], pre['comps'][p][1], pre['comps'][p][2]
                    subject = d['is_repeat'] and W[p]['stage'] == d['stage']
                    final = pst in ('finished', 'failed', 'component_shutdown')
                    if pst == 'failed':
                        bad.append((c, p, 'launched although producer %d is failed' % p, ev))
                    if pst == 'component_shutdown' and not d['is_aggregate']:
                        bad.append((c, p, 'non-aggregating component launched although producer %d is shut down' % p, ev))
                    if subject:
                        # Start = initialise + two scheduler passes: a subject launched by the first pass
                        # legitimately enables its observer in the second (one pass can never launch both)
                        if ev[0] == 'Start' and post['comps'][p][2] > 0:
                            pruns = post['comps'][p][2]
                        if not final and pruns == 0:
                            bad.append((c, p, 'observer launched although its same-stage producer %d was never launched' % p, ev))
                    elif not (final and p in pre['done']):
                        bad.append((c, p, 'launched before producer %d reached a final state' % p, ev))
    return bad
