"""Shared by C01/C02: workflow + outcome generators, schedule exploration over the real Controller
(sched_driver), Coq encoding of traces."""
import itertools

from common import clist, cnat, cbool, cpair

STATE_CODE = {'running': 0, 'checking': 1, 'finished': 2, 'failed': 3, 'component_shutdown': 4}
HEADER = 'Require Import V.Restart.Model V.Sched.Model.'
REASONS = ['Success', 'KnownIssue', 'SystemIssue', 'SubmissionFailed', 'UnknownIssue', 'ResourceExhausted']


def comp(stage=0, rep=False, agg=False, repl=False, preds=(), sd=(), ro=('ResourceExhausted',), mx=3):
    return dict(stage=stage, is_repeat=rep, is_aggregate=agg, is_replica=repl, preds=list(preds),
                shutdown_on=list(sd), restart_on=list(ro), max_r=mx)


def gen_workflow(rng, nmax=7):
    n = rng.randint(1, nmax)
    nst = rng.randint(1, min(3, n))
    stages = sorted([0] + [rng.randrange(nst) for _ in range(n - 1)])
    # make stages contiguous
    remap = {s: i for i, s in enumerate(sorted(set(stages)))}
    stages = [remap[s] for s in stages]
    W = []
    for c in range(n):
        st = stages[c]
        cand = [p for p in range(c) if stages[p] <= st]
        k = 0 if not cand else rng.choice([0, 1, 1, 1, 2, 2, 3])
        preds = sorted(rng.sample(cand, min(k, len(cand))))
        same_stage_pred = any(stages[p] == st for p in preds)
        rep = same_stage_pred and rng.random() < 0.35 or (preds and rng.random() < 0.05)
        agg = len(preds) >= 2 and rng.random() < 0.4
        W.append(comp(stage=st, rep=bool(rep), agg=agg, repl=rng.random() < 0.35, preds=preds,
                      sd=rng.choice([[], [], ['KnownIssue'], ['KnownIssue', 'ResourceExhausted'], ['SystemIssue'], ['Success', 'KnownIssue']]),
                      ro=rng.choice([['ResourceExhausted'], ['ResourceExhausted', 'KnownIssue'], [], ['SubmissionFailed']]),
                      mx=rng.choice([0, 1, 2, 3])))
    return W


def gen_outcome(rng, W, benign=False):
    out = {}
    for c, d in enumerate(W):
        k = rng.randint(1, 4)
        pool = ['Success'] * 6 + d['shutdown_on'] * 3 + d['restart_on'] * 3 + (['SubmissionFailed'] if not benign else [])
        if not benign:
            pool += REASONS
        seq = [rng.choice(pool) for _ in range(k - 1)] + [rng.choice(['Success'] * 4 + d['shutdown_on'] + ([] if benign else ['KnownIssue', 'UnknownIssue']))]
        if not benign and rng.random() < 0.06:
            # the scheduler refuses the submission several times in a row (at most five re-submissions are allowed)
            seq = ['SubmissionFailed'] * rng.randint(4, 7) + seq[-1:]
        out[c] = seq
    return out


def make_patcher(rng, max_patches=2, prob=0.6):
    """live patches offered while the controller sleeps: one or two patched-in components (current or a later stage,
    sometimes a new last stage) that consume from existing components, plus new edges from them to existing
    components that have not been launched yet"""
    import networkx
    import sched_driver as S

    def patcher(d):
        if d.patches >= max_patches or d.cur < 0 or rng.random() > prob:
            return None
        lo = d.cur if d.stage_running() else d.cur + 1
        hi = d.nstages - 1 + (1 if rng.random() < 0.15 else 0)
        if lo > hi:
            return None
        n0 = len(d.W)
        new, outs, edges = [], [], []
        allW = lambda p: d.W[p] if p < n0 else new[p - n0]      # noqa
        for k in range(rng.choice([1, 1, 2])):
            st = rng.randint(lo, hi)
            cand = [p for p in range(n0 + len(new)) if allW(p)['stage'] <= st]
            preds = sorted(rng.sample(cand, min(rng.choice([0, 1, 1, 2]), len(cand))))
            same = any(allW(p)['stage'] == st for p in preds)
            dn = comp(stage=st, rep=bool(same and rng.random() < 0.25), agg=len(preds) >= 2 and rng.random() < 0.3,
                      repl=rng.random() < 0.2, preds=preds, sd=rng.choice([[], [], ['KnownIssue'], ['Success', 'KnownIssue']]),
                      ro=rng.choice([['ResourceExhausted'], [], ['SubmissionFailed']]), mx=rng.choice([0, 1, 3]))
            new.append(dn)
            outs.append(gen_outcome(rng, [dn])[0])
            staged = set(c.idx for c in d.ctl.comp_staged_in)
            elig = [c for c in range(n0) if d.comps[c].runs == 0 and d.comps[c].state not in S.FINAL
                    and c not in staged and d.W[c]['stage'] >= st]
            for c in rng.sample(elig, min(len(elig), rng.choice([0, 1, 1, 2]))):
                edges.append((n0 + len(new) - 1, c))
        g = networkx.DiGraph()
        for c in range(n0 + len(new)):
            for p in allW(c)['preds']:
                g.add_edge(p, c)
        g.add_edges_from(edges)
        if not networkx.is_directed_acyclic_graph(g):
            edges = []
        return ('Patch', new, edges, outs)
    return patcher


def apply_patch(W, ev):
    """the description after the patch event ev (a new list; W is not modified)"""
    import copy
    W2 = copy.deepcopy(W) + copy.deepcopy(ev[1])
    for (p, c) in ev[2]:
        if p not in W2[c]['preds']:
            W2[c]['preds'].append(p)
    return W2


def pad_obs(o, n):
    """an observation taken before a patch, extended to n components (the patched-in ones: never launched)"""
    if len(o['comps']) >= n:
        return o
    o2 = dict(o)
    o2['comps'] = list(o['comps']) + [('running', False, 0, False, 0, 0)] * (n - len(o['comps']))
    return o2


def coq_pcase(W0, outcome, trace):
    """a trace with Sleep / Wake / Patch events, for Sched.Patch.check_pcase; outcome: the final table (all components)"""
    W = W0
    items = []
    for (ev, pre, post) in trace:
        if ev[0] == 'PMB':
            continue
        if ev[0] == 'PME':
            items.append('(PE (Ev (PM %s)), Some %s)' % (cnat(ev[1]), coq_obs(post)))
        elif ev[0] == 'Start':
            items.append('(PE (Ev Start), None)')
            items.append('(PE (Ev Tick), Some %s)' % coq_obs(post))
        elif ev[0] in ('Sleep', 'Wake'):
            items.append('(PE %s, Some %s)' % (ev[0], coq_obs(post)))
        elif ev[0] == 'Patch':
            W = apply_patch(W, ev)
            items.append('(PPatch %s, Some %s)' % (clist([coq_comp(d) for d in W]), coq_obs(post)))
        else:
            items.append('(PE (Ev %s), Some %s)' % (coq_event(ev), coq_obs(post)))
    n = len(W)
    tbl = clist([clist(outcome[c]) for c in range(n)])
    return '(%s, %s, %s)' % (clist([coq_comp(d) for d in W0]), tbl, clist(items))


def obs_tuple(o):
    comps = [(STATE_CODE[c[0]], c[1], c[2], c[3], c[4], c[5]) for c in o['comps']]
    v = {None: 0, 'ok': 1, 'UnexpectedJobFailureError': 2, 'FinalStageNoFinishedLeafComponents': 3}.get(o['verdict'], 9)
    return (comps, o['done'], o['stop'], o['pmq'], o['finq'], o['running'], v, o['cur'] + 1)


def explore(W, outcome, chooser, maxlen=400, slow_pm=False, sleepy=False, start_at=0, with_cdb=False, patcher=None,
            lockfin=False):
    """Runs one schedule to completion. chooser(enabled_events, step) -> index. Returns
    (trace [(event, obs_before, obs_after)], driver_errors, complete?)"""
    import sched_driver as S
    d = S.Driver(W, outcome, with_cdb=with_cdb)
    d.slow_pm = slow_pm
    d.sleepy = sleepy
    d.patcher = patcher
    d.lockfin = lockfin
    d.cur = start_at - 1        # start_at > 0: the experiment is restarted from that stage (earlier stages are skipped)
    first = True
    trace = []
    pre = d.observe()
    step = 0
    complete = False
    while step < maxlen:
        en = d.enabled()
        can_start = (not d.stage_running()) and (first or d.verdict == 'ok') and d.cur + 1 < d.nstages
        if can_start:
            en = en + [('Start',)]
        if not [e for e in en if e[0] not in ('Sleep', 'Wake', 'Patch')]:
            # nothing but sleep()/wake_up() is left: wake a sleeping controller up (that handles what it postponed),
            # otherwise the run is over
            if en and d.ctl._start_sleeping:
                en = [('Wake',)]
            else:
                complete = True
                break
        ev = en[chooser(en, step) % len(en)]
        try:
            if ev[0] == 'Start':
                d.start_stage()
                first = False
            elif ev[0] == 'PMB':
                # a post-mortem that parks inside its stability wait changes nothing observable yet: for the model the
                # whole post-mortem happens when it is released (PME -> PM); one that completes at once is a plain PM
                if d.do(ev) == 'done':
                    ev = ('PM', ev[1])
                else:
                    ev = ('PMB', ev[1])
            else:
                d.do(ev)
        except RuntimeError as exc:
            if 'controller loop stuck' not in str(exc):
                raise
            trace.append((ev, pre, pre))
            break
        post = d.observe()
        trace.append((ev, pre, post))
        pre = post
        step += 1
    return trace, d.errors, complete, d


# ------------------------------------------------------------------ Coq terms
def coq_comp(d):
    return ('{| stage := %s; is_repeat := %s; is_aggregate := %s; is_replica := %s; preds := %s; cshutdown_on := %s; '
            'restart_on := %s; max_r := %s |}' % (cnat(d['stage']), cbool(d['is_repeat']), cbool(d['is_aggregate']),
                                                  cbool(d['is_replica']), clist(d['preds'], cnat), clist(d['shutdown_on']),
                                                  clist(d['restart_on']), cnat(d['max_r'])))


def coq_event(ev):
    k = ev[0]
    if k in ('Start', 'Tick'):
        return k
    return '(%s %s)' % ({'Exit': 'Exit', 'PM': 'PM', 'Fin': 'Fin'}[k], cnat(ev[1]))


def coq_obs(o):
    comps, done, stop, pmq, finq, running, v, cur = obs_tuple(o)
    cs = clist(['(%s, %s, %s, %s, %s, %s)' % (cnat(a), cbool(b), cnat(c), cbool(d_), cnat(e), cnat(f))
                for (a, b, c, d_, e, f) in comps])
    return '(%s, %s, %s, %s, %s, %s, %s, %s)' % (cs, clist(done, cnat), cbool(stop), clist(pmq, cnat), clist(finq, cnat),
                                                 cbool(running), cnat(v), cnat(cur))


def coq_scase(W, outcome, trace):
    """a trace with Sleep / Wake events, for Sched.Sleep.check_scase"""
    tbl = clist([clist(outcome[c]) for c in range(len(W))])
    items = []
    for (ev, pre, post) in trace:
        if ev[0] == 'PMB':
            continue
        if ev[0] == 'PME':
            items.append('(Ev (PM %s), Some %s)' % (cnat(ev[1]), coq_obs(post)))
        elif ev[0] == 'Start':
            items.append('(Ev Start, None)')
            items.append('(Ev Tick, Some %s)' % coq_obs(post))
        elif ev[0] in ('Sleep', 'Wake'):
            items.append('(%s, Some %s)' % (ev[0], coq_obs(post)))
        else:
            items.append('(Ev %s, Some %s)' % (coq_event(ev), coq_obs(post)))
    return '(%s, %s, %s)' % (clist([coq_comp(d) for d in W]), tbl, clist(items))


def coq_case(W, outcome, trace, fixed=True):
    tbl = clist([clist(outcome[c]) for c in range(len(W))])
    items = []
    for (ev, pre, post) in trace:
        if ev[0] == 'PMB':
            continue               # nothing happens in the model until the post-mortem is released
        if ev[0] == 'PME':
            items.append('(PM %s, Some %s)' % (cnat(ev[1]), coq_obs(post)))
            continue
        if ev[0] == 'Start':   # initialise + first _schedule, then the first loop iteration before the first wait
            items.append('(Start, None)')
            items.append('(Tick, Some %s)' % coq_obs(post))
        else:
            items.append('(%s, Some %s)' % (coq_event(ev), coq_obs(post)))
    tr = clist(items)
    return '(%s, %s, %s, %s)' % (clist([coq_comp(d) for d in W]), cbool(fixed), tbl, tr)


def stage_state_violations(W, trace):
    """Controller.stageState() (what the status reporter writes as the state of the stage / experiment): whenever a
    component of the current stage is failed the stage is reported failed, and a stage whose loop ended without a
    failed component is not"""
    bad = []
    for (ev, pre, post) in trace:
        sst = post.get('stage_state')
        cur = post['cur']
        if sst is None or cur < 0:
            continue
        if isinstance(sst, str) and sst.startswith('error:'):
            bad.append((ev, 'Controller.stageState() raised %s' % sst[6:]))
            continue
        mine = [c for c in range(len(post['comps'])) if c < len(W) and W[c]['stage'] == cur]
        failed = [c for c in mine if post['comps'][c][0] == 'failed']
        if failed and sst != 'failed':
            bad.append((ev, 'component %d of the current stage is failed but the stage is reported as %s' % (failed[0], sst)))
        if not failed and not post['running'] and post['verdict'] == 'ok' and sst == 'failed':
            bad.append((ev, 'the stage ended without a failed component but is reported as failed'))
    return bad


# ------------------------------------------------------------------ C01 predicate on one trace
def launch_violations(W, trace):
    """for every component whose run count becomes positive at an event, evaluate the property on the
    observation before the event"""
    bad = []
    for (ev, pre, post) in trace:
        for c, d in enumerate(W):
            if pre['comps'][c][2] == 0 and post['comps'][c][2] > 0:
                for p in d['preds']:
                    pst, pstaged, pruns = pre['comps'][p][0], pre['comps'][p][1], pre['comps'][p][2]
                    subject = d['is_repeat'] and W[p]['stage'] == d['stage']
                    final = pst in ('finished', 'failed', 'component_shutdown')
                    if pst == 'failed':
                        bad.append((c, p, 'launched although producer %d is failed' % p, ev))
                    if pst == 'component_shutdown' and not d['is_aggregate']:
                        bad.append((c, p, 'non-aggregating component launched although producer %d is shut down' % p, ev))
                    if subject:
                        # Start = initialise + two scheduler passes: a subject launched by the first pass
                        # legitimately enables its observer in the second (one pass can never launch both)
                        if ev[0] == 'Start' and post['comps'][p][2] > 0:
                            pruns = post['comps'][p][2]
                        if not final and pruns == 0:
                            bad.append((c, p, 'observer launched although its same-stage producer %d was never launched' % p, ev))
                    elif not (final and p in pre['done']):
                        bad.append((c, p, 'launched before producer %d reached a final state' % p, ev))
    return bad
