"""C09 — Data references parse, print and classify consistently.

Implementation driven (all real, in-process, no fakes): FlowIR.ParseDataReference, ParseProducerReference,
ParseDataReferenceFull, compile_reference, expand_potential_component_reference, expand_component_references,
is_datareference_to_component, application_dependency_to_name (flowir.py), Manifest(...).top_level_folders,
graph.DataReference / ComponentIdentifier (absoluteReference, relativeReference, to_uid) and, for a handful of
packages, WorkflowGraph.graphFromFlowIR (the validate() verdict on references to manifest folders).

Cases: reference strings enumerated from a token grammar (stage prefix x producer name x 0-3 path segments x
method, plus malformed colon counts and random character soups) under 6 contexts (owner stage, known components,
application dependencies, manifest keys incl. nested ones).  Every (context, string) is evaluated by the model
inside Coq (coq/Ref/Model.v: observe) and compared slot by slot with what the implementation returned; the
property predicates (round trip, idempotent expansion, same target, classification) are evaluated on the
implementation's outputs with an oracle for "first path segment / folders" that is computed by this file, not by
the code under test.

Folders taken from a DIRECTORY LISTING (c09_listing.py): Manifest.fromDirectory is run on real temporary directories that
hold real sub-directories, files, fifos, symbolic links to each of them (absolute, relative, to a sibling, chained, to
'.' and '..'), dangling links and link loops, hidden entries and entries named like known components / reserved folders,
under every include_dirs / include_files setting and for a path that is a directory, a link to one, a file, missing or
dangling.  The kind of every entry is read back with lstat()/stat(); the implied manifest and top_level_folders are compared
with that oracle and with Ref.Model.from_directory / dir_folders, every reference function is observed on references into
each kind of entry with the folder list the implementation derived (Ref.Model.check_listing), and about 4 of 10 random
listings are also loaded as a package through ExperimentConfigurationFactory.configurationForExperiment."""
import itertools
import json
import os
import re
import shutil
import tempfile

from common import clist, cstr, cnat, cjv, cpair, cZ
import c09_listing as L
import c09_session as S

PROP = 'C09'
COQ_DIR = 'Ref'
ASSUMPTIONS = [
    'reference strings are ASCII; os.path is posixpath (os.sep = "/", os.pathsep = ":")',
    'the regular expressions stage([0-9]+) (re.match), %\\([a-zA-Z0-9_.-]+\\)s and \\[(\\d+)\\] (re.search) are modelled by the '
    'dedicated recognisers stage_match / var_search / index_search of coq/Ref/Model.v, validated against re by the '
    'correspondence run on every enumerated string',
    'known component names contain no "/" (C09_expand_idempotent hypothesis; FlowIR validation rejects such names)',
    'well-formed references are the image of the printer on parts satisfying wf_parts; the same set is recognised on strings '
    'by wf_string (proved equivalent, and proved to be exactly the strings with print(parse s) = s); the run compares wf_string '
    'with the implementation (print(parse r) == r) and with a recogniser written with re on every enumerated, random and '
    'malformed string',
    'directory listings: an entry is one of 7 kinds (directory, regular file, other, symbolic link resolving to each of them, '
    'link that does not resolve); os.path.isdir / isfile follow links (Ref.Model.kind_isdir / kind_isfile); the kinds are read '
    'back from the real file system with lstat()/stat() by harness/c09_listing.py; entry names hold no "/"',
    'a Manifest object is changed only through Manifest.update (dict.update of the keys: an existing key keeps its place) and '
    'Manifest.clear (Ref.Model.mop / mrun); the expected keys are simulated by harness/c09_session.py, not taken from the code',
    'nf_guard (the accepted strings on which parse(print(parse s)) = parse s is proved) is compared with an re-based oracle of '
    'this file and the fixed-point claim is evaluated on the implementation for every string',
]

METHODS = ['copy', 'link', 'ref', 'copyout', 'extract', 'output', 'loopref', 'loopoutput']
SPECIAL = ['input', 'data', 'bin', 'conf']

# ---------------------------------------------------------------- contexts
CONTEXTS = [
    {'stage': 0, 'known': {0: ['A', 'comp-1', 'a.b', '3#loop', 'gen_2'], 1: ['A', 'x.y.z']}, 'appdeps': [], 'keys': []},
    {'stage': 1, 'known': {0: ['A', 'comp-1', 'a.b', '3#loop', 'gen_2'], 1: ['A', 'x.y.z']},
     'appdeps': ['appx.application', '/opt/apps/Foo.bar.d/'], 'keys': ['foo']},
    {'stage': 0, 'known': {0: ['A', 'comp-1', '3#loop'], 2: ['gen_2']}, 'appdeps': [], 'keys': ['foo/bar', 'bar']},
    {'stage': 2, 'known': {0: ['A'], 2: ['A', 'comp-1', 'a.b']}, 'appdeps': ['Appx'],
     'keys': ['foo/bar/baz', 'data/extra', 'hooks']},
    {'stage': 0, 'known': {}, 'appdeps': ['/usr/lib/gen_2.application'], 'keys': ['x.y.z/deep', 'foo']},
    {'stage': 12, 'known': {12: ['stage2', 'A1', 'Data', 'A'], 1: ['foo', 'comp-1']}, 'appdeps': [], 'keys': ['bar/foo']},
]

PREFIXES = ['', 'stage0.', 'stage1.', 'stage12.', 'stage1x.', 'stage01.', 'stage.']
BOUNDARY_PREFIXES = ['stage1x.', 'stage01.']
PRODUCERS = ['A', 'comp-1', 'a.b', 'gen_2', '3#loop', 'x.y.z', 'A1', 'stage2', 'Data',
             'data', 'input', 'bin', 'foo', 'bar', 'appx', 'foo.bar', 'hooks',
             '%(v)s', 'a%(v.w-1)sb', '%(v)', 'r[1]', 'r[x]',
             '/abs', '/abs/dir.d', '/']
PATHS = [[], ['f.txt'], ['bar', 'f.txt'], ['sub', 'out.d', '*.dat'], ['bar'], ['%(v)s', 'x'], ['']]
BAD_METHODS = ['', 'bogus', 'ref:copy']


def build(prefix, prod, path, method):
    s = prefix + prod
    if path:
        if prod == '/':
            s = prefix + '/' + '/'.join(path)
        else:
            s = s + '/' + '/'.join(path)
    return s if method is None else s + ':' + method


def enumerate_refs(tier, rng):
    """-> list of (context index, reference string)"""
    out = []
    seen = set()

    def add(ci, r):
        if (ci, r) not in seen:
            seen.add((ci, r))
            out.append((ci, r))
    nctx = len(CONTEXTS)
    # corpus first: witnesses of the recorded findings and of the repaired defect
    for ci, r in CORPUS:
        add(ci, r)
    core_methods = ['ref', 'loopref'] if tier == 'quick' else METHODS
    for ci in range(nctx):
        for pre, prod, path, m in itertools.product(PREFIXES, PRODUCERS, PATHS, core_methods):
            if pre in BOUNDARY_PREFIXES and ci not in (0, 3) and tier == 'quick':
                continue   # keep the share of cases inside the known-finding classes small
            add(ci, build(pre, prod, path, m))
    # all methods, malformed methods / colon counts
    for k, (pre, prod, path) in enumerate(itertools.product(PREFIXES, PRODUCERS, PATHS[:3])):
        ci = k % nctx
        for m in METHODS + BAD_METHODS + [None]:
            add(ci, build(pre, prod, path, m))
    # absolute paths: directory part empty / root / doubled and trailing separators (F9a boundary, exact guard)
    for k, (a, m) in enumerate(itertools.product(ABS_PATHS, ['ref', 'copy', 'loopref'])):
        add(k % nctx, a + ':' + m)
    # malformed stream: one to three random edits of strings of the grammar (accept/reject boundary of the recogniser)
    edits = [':', '/', '.', '%', '(', ')', 's', '0', '1', 'x', '#', '[', ']', ' ', 'stage', '//', '..', ')s', '%(']
    n_mal = 2000 if tier == 'quick' else 16000
    for _ in range(n_mal):
        base = build(rng.choice(PREFIXES), rng.choice(PRODUCERS + ['/abs/dir.d', '/a/b', 'stage3.A', '7#gen_2']),
                     rng.choice(PATHS), rng.choice(METHODS))
        cs = list(base)
        for _k in range(rng.randint(1, 3)):
            op = rng.randrange(4)
            i = rng.randrange(len(cs) + 1)
            if op == 0 or not cs:
                cs.insert(i, rng.choice(edits))
            elif op == 1:
                del cs[min(i, len(cs) - 1)]
            elif op == 2:
                j = min(i, len(cs) - 1)
                cs.insert(j, cs[j])
            else:
                j = min(i, len(cs) - 1)
                k2 = rng.randrange(len(cs))
                cs[j], cs[k2] = cs[k2], cs[j]
        add(rng.randrange(nctx), ''.join(cs))
    # character soups around the recognisers (colon/slash/dot/stage/variable syntax)
    alphabet = ['s', 't', 'a', 'g', 'e', 'stage', '0', '1', '7', '.', '/', ':', '%(', ')s', '(', ')', '%', '[', ']', 'x', '-',
                '_', 'data', 'foo', 'A', ':ref', '#', '&']
    n_soup = 2500 if tier == 'quick' else 20000
    for _ in range(n_soup):
        n = rng.randint(1, 9)
        s = ''.join(rng.choice(alphabet) for _ in range(n))
        if rng.random() < 0.7 and ':' not in s:
            s += ':' + rng.choice(METHODS)
        add(rng.randrange(nctx), s)
    return out


ABS_PATHS = ['/a/b/f', '//a/f', '/a//f', '/a/b//', '/a/b/', '/a', '//a', '//', '/', '/a//', '///x', '/a/b//f', '/a.b/c.d/e.f',
             '/stage1.x/y', '/data/x', '/%(v)s/x', '/a/b/c/d/e.txt', '/a/', '/a_s//', '/opt//data.d/sub/f.txt', '/x/stage1.A']

# Fixed corpus, enumerated FIRST and independent of VERIF_SEED: one witness per OPEN finding (F9a, F9b, F9d, F9e), so that each
# KNOWN-FINDING line is printed on every run, plus the witness of the repaired defect F9c and the boundary cases of the guards.
CORPUS = [
    (2, 'foo/bar/f.txt:ref'),      # F9c (fixed): nested manifest key
    (2, 'foo/f.txt:ref'), (2, 'foo:ref'), (3, 'foo/bar/baz/q:copy'), (5, 'bar/foo/x:ref'),
    (0, '/file:ref'),              # F9a
    (0, 'stage1x.foo:ref'),        # F9b
    (0, 'stage01.A:ref'),          # F9d
    (0, 'stage1.%(v)s:ref'),       # F9e
    (0, 'stage1.stage2.%(v)s:ref'),  # F9e: not a fixed point of parse-then-print
    (1, '/a_s//:loopref'), (1, '//file:ref'), (3, '/a/b/f:ref'), (4, '/a//b/f:copy'),   # F9a boundary, exact guard
    (0, 'stage0.3#loop/out:ref'), (0, '3#loop/out:ref'),   # DoWhile iteration names
]


# ---------------------------------------------------------------- oracle of the harness (independent of the code)
_STRICT_STAGE = re.compile(r'^stage(0|[1-9][0-9]*)\.(.*)$', re.S)
_VAR = re.compile(r'%\([a-zA-Z0-9_.-]+\)s')


def app_name(x):
    x = x.rstrip('/')
    base = x.rsplit('/', 1)[-1] if x.startswith('/') else x
    # extension of the last path component, leading dots do not start an extension
    head, sep, last = base.rpartition('/')
    stripped = last.lstrip('.')
    if '.' in stripped:
        last = last[:len(last) - len(stripped)] + stripped.rsplit('.', 1)[0]
    return (head + sep + last).lower()


def folders_of(cx):
    return set(SPECIAL) | {k.split('/')[0] for k in cx['keys']} | {app_name(a) for a in cx['appdeps']}


def shape(r):
    """refpart, method, first segment, strict stage prefix (or None), name (segment without strict prefix)"""
    refpart, method = r.split(':')
    seg = refpart.split('/', 1)[0]
    m = _STRICT_STAGE.match(seg)
    if m:
        return refpart, method, seg, int(m.group(1)), m.group(2)
    return refpart, method, seg, None, seg


_STAGE_RE = re.compile(r'stage([0-9]+)')       # the regular expression of ParseProducerReference (used with re.match)


def _stage_prefix(seg):
    """(text before the first dot, its re.match with the stage expression, text after the first dot) or None"""
    if '.' not in seg:
        return None
    st, job = seg.split('.', 1)
    m = _STAGE_RE.match(st)
    return (st, m, job) if m else None


def py_wf_string(r):
    """recogniser of canonical reference strings written with re (mirror of Ref.Model.wf_string)"""
    if r.count(':') != 1:
        return False
    a = r.split(':')[0]
    if a.startswith('/'):
        return re.match(r'^/.*[^/]/[^/]*$', a, re.S) is not None
    seg = a.split('/', 1)[0]
    if '/' in a and seg in SPECIAL:
        return True
    sp = _stage_prefix(seg)
    if sp is None:
        return True
    st, m, job = sp
    return re.match(r'^stage(0|[1-9][0-9]*)$', st) is not None and not _VAR.search(job)


def py_nf_guard(r):
    """mirror of Ref.Model.nf_guard: accepted strings for which parse(print(parse r)) == parse(r) is proved"""
    if r.count(':') != 1:
        return True
    a = r.split(':')[0]
    if a.startswith('/'):
        return re.match(r'^/+[^/]*$', a) is None
    sp = _stage_prefix(a.split('/', 1)[0])
    if sp is None:
        return True
    return not (_VAR.search(sp[2]) and _stage_prefix(sp[2]) is not None)


def finding_classes(r):
    """classes of the open findings a reference string belongs to (predicates on the INPUT only)"""
    cl = []
    if r.count(':') != 1:
        return cl
    refpart = r.split(':')[0]
    seg = refpart.split('/', 1)[0]
    # F9a: absolute paths go through os.path.split / os.path.join: a path whose directory part is empty ("/file") or
    # ends with a separator ("//file", "/a//", "/a//f") is not printed back as written.  This is the exact complement
    # of the proved guard of wf_abs: a doubled separator INSIDE the directory part ("/a//b/f") round-trips.
    if refpart.startswith('/') and re.match(r'^(.*/)?/[^/]*$', refpart, re.S):
        cl.append('absolute_path_directly_under_root')
    if not refpart.startswith('/') and '.' in refpart:
        before_dot = refpart.split('.', 1)[0]
        # F9b: stage<digits> followed by garbage before the first dot
        if re.match(r'^stage[0-9]+[^0-9.]', before_dot):
            cl.append('stage_prefix_with_trailing_garbage')
        # F9d: leading zeros
        if re.match(r'^stage0[0-9]+$', before_dot):
            cl.append('stage_index_with_leading_zeros')
        # F9e: well formed stage prefix in front of a producer holding a variable reference
        m = _STRICT_STAGE.match(seg)
        if m and _VAR.search(m.group(2)) and seg.split('.', 1)[0] == 'stage' + m.group(1):
            cl.append('stage_prefix_before_variable_producer')
    return cl


# ---------------------------------------------------------------- driving the implementation
ERR = -1


def _call(f, *a, **k):
    try:
        return f(*a, **k)
    except ValueError:
        return ERR
    except Exception as e:  # any other exception class is a divergence from the model
        return 'EXC:' + type(e).__name__


class Impl(object):
    def __init__(self):
        import experiment.model.frontends.flowir as F
        import experiment.model.graph as G
        self.F, self.G, self.FI = F, G, F.FlowIR
        self.tlf = [F.Manifest({k: 'src:copy' for k in cx['keys']}).top_level_folders for cx in CONTEXTS]

    def observe(self, ci, r):
        return self.observe_cx(CONTEXTS[ci], self.tlf[ci], r)

    def observe_cx(self, cx, tlf, r):
        """cx: owner stage / known components / application dependencies; tlf: the top-level folders the implementation
        derived (from manifest keys, or from a directory listing)"""
        FI, G = self.FI, self.G
        st, known, ad = cx['stage'], cx['known'], cx['appdeps']
        o = []
        pd = _call(FI.ParseDataReference, r)
        o.append(list(pd) if isinstance(pd, tuple) else pd)
        if isinstance(pd, tuple):
            a = _call(FI.ParseProducerReference, pd[0], st)
            b = _call(FI.ParseProducerReference, pd[0], None)
            o.append(list(a) + list(b) if isinstance(a, tuple) and isinstance(b, tuple) else 'EXC')
        else:
            o.append(pd)
        for args in ((r, None), (r, st, ad, tlf)):
            p = _call(FI.ParseDataReferenceFull, *args)
            o.append(list(p) if isinstance(p, tuple) else p)
            o.append(_call(FI.compile_reference, p[1], p[2], p[3], p[0]) if isinstance(p, tuple) else p)
        e1 = _call(FI.expand_component_references, [r], st, known, ad, tlf)
        e1 = e1[0] if isinstance(e1, list) else e1
        o.append(e1)
        if isinstance(e1, str) and not e1.startswith('EXC:'):
            e2 = _call(FI.expand_component_references, [e1], st, known, ad, tlf)
            o.append(e2[0] if isinstance(e2, list) else e2)
        else:
            o.append(e1)
        o.append(_call(FI.expand_potential_component_reference, r, st, known, None, False))
        o.append(_call(FI.expand_potential_component_reference, r, st, None, None, True))
        o.append(_call(FI.expand_potential_component_reference, r, st, None, tlf, False))
        o.append(_call(FI.is_datareference_to_component, r, tlf + [FI.application_dependency_to_name(a) for a in ad]))
        for idx in (st, None):
            def mk():
                d = G.DataReference(r, idx)
                return [d.absoluteReference, d.relativeReference, d.stageIndex, d.producerName, d.path, d.method,
                        d.producerIdentifier.to_uid('I')[2:]]
            o.append(_call(mk))
        return o

    def observe2(self, ci, r, o):
        return self.observe2_cx(CONTEXTS[ci], self.tlf[ci], r, o)

    def observe2_cx(self, cx, tlf, r, o):
        """[print(parse r) == r, guard oracle, parse(print(parse r)) == parse r without / with the context]"""
        FI = self.FI
        out = [isinstance(o[2], list) and o[3] == r, py_nf_guard(r)]
        for args in ((None,), (cx['stage'], cx['appdeps'], tlf)):
            p = _call(FI.ParseDataReferenceFull, r, *args)
            if not isinstance(p, tuple):
                out.append(p)
                continue
            back = _call(FI.compile_reference, p[1], p[2], p[3], p[0])
            p2 = _call(FI.ParseDataReferenceFull, back, *args) if isinstance(back, str) and not back.startswith('EXC:') else back
            out.append(isinstance(p2, tuple) and list(p2) == list(p))
        return out


def _predicates(ctx, impl, ci, r, o, o2, cx=None, tlf=None, case=None):
    """the property as stated, evaluated on the implementation's outputs.  cx / tlf / case: for the listing cases
    (cx['keys'] holds the folders the ORACLE of the harness expects, tlf the folders the implementation derived)"""
    cx = CONTEXTS[ci] if cx is None else cx
    tlf = impl.tlf[ci] if tlf is None else tlf
    case = {'ctx': ci, 'ref': r} if case is None else case
    if r.count(':') != 1:
        if o[0] != ERR:
            ctx.fail(dict(case, got=o[0]), 'a string without exactly one colon was accepted as a reference', [])
        return
    if any(isinstance(x, str) and x.startswith('EXC') for x in o):
        ctx.fail(dict(case, obs=o), 'a parsing/printing function raised an unexpected exception class', [])
        return
    cls = finding_classes(r)
    st = cx['stage']
    # ---- round trip: print (parse r) == r, for the context-free and the contextual parser
    if o[3] != r:
        ctx.fail(dict(case, parsed=o[2], printed=o[3]), 'printing the parsed parts does not give back the reference', cls)
    # ---- the recogniser of canonical strings accepts exactly the strings that round-trip (C09_wf_string_iff_roundtrip)
    if py_wf_string(r) != (o[3] == r):
        ctx.fail(dict(case, recognised=py_wf_string(r), printed=o[3]),
                 'the recogniser of canonical reference strings and print(parse r) == r disagree', [])
    # ---- normal form: the parsed parts are a fixed point of print-then-parse (C09_normal_form), outside nf_guard's classes
    if o2[2] is not True or o2[3] is not True:
        ctx.fail(dict(case, parsed=o[2], printed=o[3], fixed_point=o2[2:]),
                 'parsing the printed parse does not give back the parsed parts', [] if py_nf_guard(r) else cls)
    # ---- idempotent expansion
    if o[7] != o[6]:
        ctx.fail(dict(case, once=o[6], twice=o[7]), 'expanding a reference to its absolute form is not idempotent', [])
    # ---- classification
    refpart, method, seg, strict_stage, name = shape(r)
    folders = folders_of(cx)
    full = o[4]
    is_abs = refpart.startswith('/')
    has_var = bool(_VAR.search(name))
    direct = is_abs or (strict_stage is None and seg in folders) or has_var
    knows = cx['known'].get(strict_stage if strict_stage is not None else st, [])
    if direct and not (name in knows and not is_abs and not has_var):
        bad = []
        if full[0] is not None:
            bad.append('ParseDataReferenceFull gives stage %r' % (full[0],))
        if o[6] != r:
            bad.append('expand_component_references rewrites it to %r' % (o[6],))
        if o[11] is not False:
            bad.append('is_datareference_to_component says True')
        if bad:
            ctx.fail(dict(case, folders=sorted(folders), verdict=bad),
                     'a reference to a folder / absolute path / variable is treated as a component reference', cls)
    elif not direct and name in knows and '/' not in name and not impl.FI.is_var_reference(name) and not cls:
        want_stage = strict_stage if strict_stage is not None else st
        rel = refpart[len(seg) - len(name):]
        absolute = 'stage%d.%s:%s' % (want_stage, rel, method)
        bad = []
        if full[0] != want_stage or full[1] != name:
            bad.append('ParseDataReferenceFull gives %r' % (full[:2],))
        if o[6] != absolute:
            bad.append('expand_component_references gives %r, expected %r' % (o[6], absolute))
        if o[11] is not True:
            bad.append('is_datareference_to_component says False')
        if bad:
            ctx.fail(dict(case, verdict=bad), 'a reference to a known component is not treated as a component reference', cls)
    # ---- same target: relative and absolute spelling
    if isinstance(full, list) and full[0] is not None and strict_stage is None and o[1][5] is False:
        absolute = 'stage%d.%s' % (st, r)
        p_abs = _call(impl.FI.ParseDataReferenceFull, absolute, None, cx['appdeps'], tlf)
        p_abs2 = _call(impl.FI.ParseDataReferenceFull, absolute, 99, cx['appdeps'], tlf)
        d_rel = o[12]
        ok = (isinstance(p_abs, tuple) and list(p_abs) == full and list(p_abs2) == full and o[6] in (r, absolute))
        if ok and isinstance(d_rel, list) and not (full[2] or '').startswith('/'):
            d_abs = _call(lambda: impl.G.DataReference(absolute))
            ok = (d_rel[0] == absolute and d_rel[1] == r and not isinstance(d_abs, (int, str)) and
                  [d_abs.stageIndex, d_abs.producerName, d_abs.path, d_abs.method] == full and
                  d_abs.relativeReference == r and d_abs.absoluteReference == absolute)
        ctx.count('same_target_checked')
        if not ok:
            ctx.fail(dict(case, absolute=absolute, rel_parts=full, abs_parts=p_abs, expanded=o[6]),
                     'relative and absolute spelling do not name the same stage, producer, file and method', cls)


def _explore(ctx, pairs, impl=None):
    impl = impl or Impl()
    terms = []
    for ci, r in pairs:
        o = impl.observe(ci, r)
        o2 = impl.observe2(ci, r, o)
        _predicates(ctx, impl, ci, r, o, o2)
        parses = isinstance(o[0], list)
        refpart = r.split(':')[0]
        ctx.case([ci, r], parses and any(c in refpart for c in '/.%#'))
        ctx.count('ctx%d' % ci)
        ctx.count('parses' if parses else 'rejected')
        if parses:
            full = o[4]
            ctx.count('classified_component' if full[0] is not None else 'classified_direct')
            if o[6] != r:
                ctx.count('expanded')
            if finding_classes(r):
                ctx.count('in_a_finding_class')
            ctx.count('recognised_canonical' if o2[0] else 'accepted_not_canonical')
            if refpart.startswith('/'):
                ctx.count('absolute_path_canonical' if o2[0] else 'absolute_path_not_canonical')
            if not o2[1]:
                ctx.count('outside_nf_guard')
        if len(ctx.samples) < 6 and parses and '/' in refpart and (ci + len(r)) % 7 == 0:
            ctx.sample({'context': CONTEXTS[ci], 'reference': r, 'ParseDataReferenceFull': o[4], 'expanded': o[6],
                        'is_component': o[11], 'DataReference.absolute': o[12][0] if isinstance(o[12], list) else o[12]})
        terms.append('(%s, %s, %s, %s)' % (cnat(ci), cstr(r), cjv(o), cjv(o2)))
    bad = ctx.model_mismatches(HEADER(), terms, '(check_case2 ctxs)', chunk=400, name='refs')
    for k, i in enumerate(bad):
        ci, r = pairs[i]
        model = ctx.model_eval(HEADER(), 'match nth_error ctxs %s with Some c => JList [observe c %s; observe2 c %s] | None => JNull end'
                               % (cnat(ci), cstr(r), cstr(r)))[:1800] if k < 3 else ''
        o = impl.observe(ci, r)
        ctx.disagree({'ctx': ci, 'ref': r}, [o, impl.observe2(ci, r, o)], model,
                     'C09 reference functions vs Ref.Model.observe / observe2 (slot order: see Model.v)')
    return impl


def HEADER():
    def ctx_term(cx):
        known = clist(sorted(cx['known'].items()), lambda kv: '(%s, %s)' % ('%d%%N' % kv[0], clist(kv[1], cstr)))
        return '{| c_stage := %d%%N; c_known := %s; c_appdeps := %s; c_keys := %s |}' % (
            cx['stage'], known, clist(cx['appdeps'], cstr), clist(cx['keys'], cstr))
    return ('Require Import V.Lib.JTree V.Ref.Model.\nFrom Coq Require Import NArith.\nOpen Scope Z_scope.\n'
            'Definition ctxs : list ctx := %s.' % clist(CONTEXTS, ctx_term))


KEY_POOL = ['foo', 'foo/bar', 'a/b/c', 'data/extra', 'x.y/z', 'bin', 'hooks', 'a:b/c', 'bar/', 'q//r', 'stage0.x/y', 'A']
APPDEP_POOL = ['appx.application', '/opt/apps/Foo.bar.d/', 'Name', 'x/y.z', '/a/b/', '.hidden', '/p/.hid.ext', 'UP.per/',
               'a.b.c', '..', 'dir.d/file', '/', '//', '', '/x', 'a/.b', 'a/..b.c', '...', 'A.B/']


def _folders(ctx, impl):
    """Manifest.top_level_folders and application_dependency_to_name vs the model and vs the harness oracle"""
    rng = ctx.rng
    F = impl.F
    cases = [(['foo/bar'], ['/opt/apps/Foo.bar.d/'])]
    for k in range(len(KEY_POOL)):
        cases.append(([KEY_POOL[k]], [APPDEP_POOL[k % len(APPDEP_POOL)]]))
    for a in APPDEP_POOL:
        cases.append(([], [a]))
    for _ in range(60):
        cases.append((rng.sample(KEY_POOL, rng.randint(0, 4)), rng.sample(APPDEP_POOL, rng.randint(0, 3))))
    terms = []
    for keys, ads in cases:
        tl = _call(lambda: F.Manifest({k: 'src:copy' for k in keys}).top_level_folders)
        names = [_call(F.FlowIR.application_dependency_to_name, a) for a in ads]
        ctx.case(['folders', keys, ads], any('/' in k for k in keys))
        ctx.count('folder_cases')
        want = [k.split('/')[0] for k in keys]
        if tl != want:
            ctx.fail({'manifest_keys': keys, 'top_level_folders': tl, 'expected': want},
                     'Manifest.top_level_folders is not the first path segment of every manifest key', [])
        if names != [app_name(a) for a in ads]:
            ctx.fail({'appdeps': ads, 'names': names, 'expected': [app_name(a) for a in ads]},
                     'application dependency name is not the lower-cased base name without extension', [])
        terms.append('(%s, %s, %s, %s)' % (clist(keys, cstr), clist(tl, cstr) if isinstance(tl, list) else '["<exc>"]',
                                           clist(ads, cstr), clist([str(n) for n in names], cstr)))
    bad = ctx.model_mismatches(HEADER(), terms, 'check_folders', chunk=200, name='folders')
    for i in bad:
        ctx.disagree({'folders_case': cases[i]}, terms[i], '', 'C09 Manifest.top_level_folders / application_dependency_to_name vs Ref.Model')


def _end_to_end(ctx, impl):
    """validate() verdict through WorkflowGraph.graphFromFlowIR on references to manifest folders"""
    G = impl.G
    probes = [({'foo/bar': 'x:copy'}, 'foo/bar/f.txt:ref', True), ({'foo/bar': 'x:copy'}, 'foo:ref', True),
              ({'foo/bar/baz': 'x', 'hooks': 'y'}, 'foo/bar/baz/q.dat:copy', True), ({'foo': 'x'}, 'foo/f.txt:ref', True),
              ({'bar/foo': 'x'}, 'bar/foo:link', True), ({'foo/bar': 'x:copy'}, 'nothere/f.txt:ref', False),
              ({}, 'data/f.txt:ref', True), ({'foo': 'x'}, 'bar:ref', False)]
    for manifest, ref, accept in probes:
        doc = {'components': [{'name': 'hello', 'command': {'executable': 'ls', 'arguments': '-l ' + ref}, 'references': [ref]}]}
        try:
            G.WorkflowGraph.graphFromFlowIR(doc, dict(manifest))
            got = True
        except Exception as e:
            got = False
        ctx.case(['e2e', sorted(manifest), ref], True)
        ctx.count('end_to_end_packages')
        if got != accept:
            ctx.fail({'manifest': manifest, 'ref': ref, 'accepted': got},
                     'validate() verdict: a reference to a manifest folder is rejected as an unknown component'
                     if accept else 'validate() verdict: a reference to an unknown producer is accepted', [])


# ---------------------------------------------------------------- folders taken from a directory listing
REF_TEMPLATES = ['%s/f.txt:ref', '%s:copy', '%s/sub/out.d/x.dat:link', '%s/large/net.pt:copyout', 'stage0.%s/f:ref',
                 '%s/:ref', '%s/%%(v)s/x:loopref', 'stage1.%s:output']
LOADER_COMPONENTS = ['A', 'gen_2']


def listing_cases(tier, rng):
    """-> list of dicts {listing, root, opts, ctx, load}: fixed corpus, the systematic family (every kind and variant in
    one directory x the four include_dirs/include_files settings x every kind of path), then random listings"""
    nctx = len(CONTEXTS)
    cases = []
    for k, l in enumerate(L.CORPUS_LISTINGS):
        cases.append({'listing': [list(e) for e in l], 'root': 'dir', 'opts': {}, 'ctx': k % nctx,
                      'load': any(e[0] == 'conf' and e[1] == 'dir' for e in l)})
    syst = [list(e) for e in L.systematic_listing()]
    for k, (incd, incf) in enumerate(itertools.product([True, False], repeat=2)):
        cases.append({'listing': syst, 'root': 'dir', 'opts': {'include_dirs': incd, 'include_files': incf}, 'ctx': k % nctx,
                      'load': False})
    for k, root in enumerate(L.ROOTS[1:]):
        cases.append({'listing': syst[:8] + syst[-6:], 'root': root, 'opts': {}, 'ctx': (k + 1) % nctx, 'load': False})
    for _ in range(36 if tier == 'quick' else 500):
        load = rng.random() < 0.4
        l = L.gen_listing(rng, L.SAFE_E2E if load else None, force_conf=load)
        opts = {}
        if not load and rng.random() < 0.4:
            opts = {'include_dirs': rng.random() < 0.7, 'include_files': rng.random() < 0.5,
                    'resolve_paths': rng.random() < 0.5, 'method': rng.choice(['copy', 'link']), 'validate': rng.random() < 0.5}
        root = 'dir' if (load or rng.random() < 0.65) else rng.choice(L.ROOTS)
        cases.append({'listing': [list(e) for e in l], 'root': root, 'opts': opts, 'ctx': rng.randrange(nctx), 'load': load,
                      'explicit_manifest': load and rng.random() < 0.3})
    return cases


def _listing_refs(lc, cx, rng):
    """reference strings into every listed entry, into one known component and into a name that is not listed"""
    names = [e[0] for e in lc['listing']]
    extra = ['nothere'] + sorted(cx['known'].get(cx['stage'], []))[:1]
    refs = []
    for n in names + [x for x in extra if x not in names]:
        ts = REF_TEMPLATES if rng is None else rng.sample(REF_TEMPLATES[:5], 2) + rng.sample(REF_TEMPLATES[5:], 1)
        for t in ts:
            r = t % n
            if r not in refs and not finding_classes(r):
                refs.append(r)
    return refs


def _load_package(ctx, impl, lc, pkg, base):
    """the front door: ExperimentConfigurationFactory.configurationForExperiment on the real package directory (the
    implied manifest of the listing, sometimes merged with an explicit manifest holding a nested key)"""
    import yaml
    import experiment.model.conf
    kinds = {e[0]: e[1] for e in lc['listing']}
    dirlike = sorted(n for n, k in kinds.items() if k in L.DIRLIKE)
    manifest = None
    tops = set(dirlike)
    refs, want = [], []
    if lc.get('explicit_manifest') and 'extra' not in kinds:
        manifest = {'extra/deep': os.path.join(base, 'outside') + ':copy'}
        tops.add('extra')
        refs.append('extra/deep/f.txt:ref')
        want.append('extra/deep/f.txt:ref')
    for n in sorted(kinds):
        if n == 'conf' or n not in L.SAFE_E2E:
            continue
        if n in dirlike and n not in LOADER_COMPONENTS:
            refs.append('%s/f.txt:ref' % n)
            want.append('%s/f.txt:ref' % n)
    for c in LOADER_COMPONENTS:
        if c not in dirlike:      # also when the package holds a FILE or a dangling link of that name
            refs.append('%s/out.d/x:ref' % c)
            want.append('stage0.%s/out.d/x:ref' % c)
    doc = {'components': [{'name': c, 'command': {'executable': 'echo', 'arguments': 'hello'}} for c in LOADER_COMPONENTS] +
           [{'name': 'consumer', 'command': {'executable': 'cat', 'arguments': ' '.join(refs)}, 'references': refs}]}
    with open(os.path.join(pkg, 'conf', 'flowir_package.yaml'), 'w') as f:
        yaml.safe_dump(doc, f)
    case = {'listing': lc['listing'], 'root': lc['root'], 'opts': lc['opts'], 'ctx': lc['ctx'], 'load': True,
            'explicit_manifest': bool(manifest)}
    ctx.case(['load', lc['listing'], sorted(manifest or {})], True)
    ctx.count('listing_packages_loaded')
    try:
        conf = experiment.model.conf.ExperimentConfigurationFactory.configurationForExperiment(pkg, manifest=manifest)
        got_tops = sorted(conf.top_level_folders)
        got_refs = conf.configurationForNode('stage0.consumer')['references']
    except Exception as e:
        ctx.fail(dict(case, references=refs, error='%s: %s' % (type(e).__name__, str(e)[:300].replace(base, '<tmp>'))),
                 'loading a package whose references point into its top-level folders (directories and links to '
                 'directories) or to its components failed', [])
        return
    if got_tops != sorted(tops):
        ctx.fail(dict(case, top_level_folders=got_tops, expected=sorted(tops)),
                 'the top-level folders of the loaded package are not the directories (symbolic links followed) of its listing', [])
    if list(got_refs) != want:
        ctx.fail(dict(case, references=list(got_refs), expected=want),
                 'the loaded package does not keep folder references as written / expand component references', [])


def _run_listing_case(ctx, impl, lc, rng):
    """-> Coq term of the case (or None)"""
    F = impl.F
    base_cx = CONTEXTS[lc['ctx']]
    opts = dict(lc['opts'])
    incd, incf = opts.get('include_dirs', True), opts.get('include_files', False)
    listing = sorted(tuple(e) for e in lc['listing'])
    root_ok = lc['root'] in ('dir', 'slash', 'link')
    want = sorted(n for n, k, _v in listing if (incd and k in L.DIRLIKE) or (incf and k in L.FILELIKE)) if root_ok else []
    cx = {'stage': base_cx['stage'], 'known': base_cx['known'], 'appdeps': base_cx['appdeps'], 'keys': want}
    desc = {'listing': lc['listing'], 'root': lc['root'], 'opts': lc['opts'], 'ctx': lc['ctx']}
    base = tempfile.mkdtemp(prefix='c09l_')
    try:
        pkg = L.materialise(base, listing)
        path = L.root_path(base, pkg, lc['root'])
        m = _call(lambda: F.Manifest.fromDirectory(path, **opts))
        ctx.case(['listing', lc['listing'], lc['root'], sorted(opts.items())], any(k.startswith('link') or k == 'dangling' for _n, k, _v in listing))
        ctx.count('listing_cases')
        ctx.count('listing_root_' + lc['root'])
        for _n, k, _v in listing:
            ctx.count('listing_entry_' + k)
        if isinstance(m, (int, str)):
            ctx.fail(dict(desc, raised=m), 'Manifest.fromDirectory raised on a directory that can be listed', [])
            return None
        keys, tl = sorted(m.manifestData), sorted(m.top_level_folders)
        if keys != want or tl != want:
            ctx.fail(dict(desc, manifest_keys=keys, top_level_folders=tl, expected=want),
                     'the folders taken from a directory listing are not the entries that are directories (symbolic links '
                     'followed; files only with include_files)', [])
        tlf = list(m.top_level_folders)
        rterms = []
        for r in _listing_refs(lc, cx, rng):
            o = impl.observe_cx(cx, tlf, r)
            o2 = impl.observe2_cx(cx, tlf, r, o)
            _predicates(ctx, impl, lc['ctx'], r, o, o2, cx=cx, tlf=tlf, case=dict(desc, ref=r))
            ctx.case(['listing-ref', lc['listing'], lc['root'], sorted(opts.items()), lc['ctx'], r], isinstance(o[0], list))
            ctx.count('listing_refs')
            if isinstance(o[4], list):
                ctx.count('listing_ref_component' if o[4][0] is not None else 'listing_ref_direct')
            rterms.append('(%s, %s, %s)' % (cstr(r), cjv(o), cjv(o2)))
        if lc.get('load') and root_ok:
            _load_package(ctx, impl, lc, pkg, base)
    finally:
        shutil.rmtree(base, ignore_errors=True)
    known = clist(sorted(cx['known'].items()), lambda kv: '(%s, %s)' % ('%d%%N' % kv[0], clist(kv[1], cstr)))
    return '(%s, %s, %s, %s, %s, %s, %d%%N, %s, %s, %s)' % (
        L.ROOT_COQ[lc['root']], 'true' if incd else 'false', 'true' if incf else 'false',
        clist(listing, lambda e: '(%s, %s)' % (cstr(e[0]), L.KIND_COQ[e[1]])), clist(keys, cstr), clist(tl, cstr),
        cx['stage'], known, clist(cx['appdeps'], cstr), '[' + '; '.join(rterms) + ']')


def _listings(ctx, impl, cases=None, rng='ctx'):
    """Manifest.fromDirectory on real temporary directories vs the harness oracle (lstat/stat) and vs Ref.Model.check_listing"""
    rng = ctx.rng if rng == 'ctx' else rng
    cases = listing_cases(ctx.tier, ctx.rng) if cases is None else cases
    terms, idx = [], []
    for k, lc in enumerate(cases):
        t = _run_listing_case(ctx, impl, lc, rng)
        if t is not None:
            terms.append(t)
            idx.append(k)
    bad = ctx.model_mismatches(HEADER(), terms, 'check_listing', chunk=12, name='listings')
    for i in bad:
        lc = cases[idx[i]]
        ctx.disagree({'listing': lc['listing'], 'root': lc['root'], 'opts': lc['opts'], 'ctx': lc['ctx']}, terms[i][:1500], '',
                     'C09 Manifest.fromDirectory / reference functions under the listed folders vs Ref.Model.check_listing')

# ---------------------------------------------------------------- the life cycle of ONE Manifest object
SESSION_TEMPLATES = ['%s/run.sh:ref', '%s:copy', '%s/models/large/weights.bin:link', '%s/bar/f.txt:copyout', 'stage0.%s/f:ref']


def _session_refs(case, cx, rng):
    """references into every folder the session ever mentions (present at the end or not), into one known component of the
    owner stage and into a name that was never a folder"""
    names = S.mentioned(case)
    extra = ['nothere'] + sorted(cx['known'].get(cx['stage'], []))[:1]
    refs = []
    for n in names + [x for x in extra if x not in names]:
        if case.get('few_refs'):
            ts = SESSION_TEMPLATES[:1]
        else:
            ts = SESSION_TEMPLATES if rng is None else rng.sample(SESSION_TEMPLATES, 2)
        for t in ts:
            r = t % n
            if r.count(':') == 1 and r not in refs and not finding_classes(r):
                refs.append(r)
    return refs


def _make_manifest(F, case, base):
    import yaml
    src = {k: 'src:copy' for k in case['init']}
    how = case['how']
    if how == 'novalidate':
        return F.Manifest(dict(src), validate=False)
    if how == 'file':
        path = os.path.join(base, 'manifest.yaml')
        with open(path, 'w') as f:
            yaml.safe_dump(src, f, sort_keys=False)
        return F.Manifest.fromFile(path)
    if how == 'directory':
        pkg = os.path.join(base, 'pkg')
        os.makedirs(pkg)
        for k in case['init']:
            os.makedirs(os.path.join(pkg, k))
        return F.Manifest.fromDirectory(pkg)
    return F.Manifest(dict(src))


def _run_session(ctx, impl, case, rng):
    """-> Coq term of the session (or None)"""
    F = impl.F
    base_cx = CONTEXTS[case['ctx']]
    desc = {'session': {k: case[k] for k in ('init', 'how', 'ops', 'ctx')}}
    want = S.expected_keys(case['init'], case['ops'])
    base = tempfile.mkdtemp(prefix='c09s_')
    steps = []
    try:
        def read(m, k):
            keys, tl = list(m.manifestData), m.top_level_folders
            steps.append((keys, list(tl)))
            return keys, tl

        def act():
            m = _make_manifest(F, case, base)
            read(m, 0)
            for k, op in enumerate(case['ops']):
                if op[0] == 'update':
                    src = {x: '/store/%d:link' % k for x in op[1]}
                    other = src if op[2] == 'dict' else F.Manifest(dict(src), validate=False)
                    m.update(other.manifestData if op[2] == 'data' else other)
                elif op[0] == 'clear':
                    m.clear()
                elif op[0] == 'validate':
                    try:
                        m.validate()
                    except Exception:
                        pass
                elif op[1] == 'folders':
                    mine = m.top_level_folders
                    mine += ['nothere', 'zz']
                    del mine[:]
                else:
                    mine = m.manifestData
                    mine['nothere/deep'] = 'x:copy'
                    mine.pop(next(iter(mine)))
                read(m, k + 1)
            return m
        m = _call(act)
        ctx.case(['session', case['init'], case['how'], case['ops']], any('/' in k for ks in want for k in ks))
        ctx.count('session_cases')
        ctx.count('session_how_' + case['how'])
        for op in case['ops']:
            ctx.count('session_op_' + op[0] + ('_' + op[2] if op[0] == 'update' else ''))
        if isinstance(m, (int, str)):
            ctx.fail(dict(desc, raised=m, after_steps=len(steps)),
                     'creating a Manifest and changing it with update() / clear() raised', [])
            return None
        init_order = None
        if case['how'] == 'directory':
            # os.listdir gives the entries in no particular order: the model is told the order the implementation saw
            if sorted(steps[0][0]) == sorted(want[0]):
                init_order = list(steps[0][0])
                want = S.expected_keys(init_order, case['ops'])
        for k, (keys, tl) in enumerate(steps):
            if keys != want[k] or list(tl) != S.first_segments(want[k]):
                ctx.fail(dict(desc, step=k, manifest_keys=keys, top_level_folders=list(tl), expected_keys=want[k],
                              expected_folders=S.first_segments(want[k])),
                         'the top-level folders of a manifest that was changed with update() / clear() are not the first path '
                         'segments of the keys it holds now', [])
                break
        cx = {'stage': base_cx['stage'], 'known': base_cx['known'], 'appdeps': base_cx['appdeps'], 'keys': want[-1]}
        tlf = list(m.top_level_folders)
        rterms = []
        for r in _session_refs(case, cx, rng):
            o = impl.observe_cx(cx, tlf, r)
            o2 = impl.observe2_cx(cx, tlf, r, o)
            _predicates(ctx, impl, case['ctx'], r, o, o2, cx=cx, tlf=tlf, case=dict(desc, ref=r))
            ctx.case(['session-ref', case['init'], case['how'], case['ops'], case['ctx'], r], isinstance(o[0], list))
            ctx.count('session_refs')
            if isinstance(o[4], list):
                ctx.count('session_ref_component' if o[4][0] is not None else 'session_ref_direct')
            rterms.append('(%s, %s, %s)' % (cstr(r), cjv(o), cjv(o2)))
    finally:
        shutil.rmtree(base, ignore_errors=True)
    known = clist(sorted(cx['known'].items()), lambda kv: '(%s, %s)' % ('%d%%N' % kv[0], clist(kv[1], cstr)))
    return '(%s, %s, %s, %d%%N, %s, %s, %s)' % (
        clist(init_order if init_order is not None else case['init'], cstr), S.coq_ops(case['ops'], cstr, clist),
        clist(steps, lambda s: '(%s, %s)' % (clist(s[0], cstr), clist(s[1], cstr))),
        cx['stage'], known, clist(cx['appdeps'], cstr), '[' + '; '.join(rterms) + ']')


def _sessions(ctx, impl, cases=None, rng='ctx'):
    """one Manifest object created, changed with update() / clear(), read after every step: vs the dict simulated by the
    harness and vs Ref.Model.check_session"""
    rng = ctx.rng if rng == 'ctx' else rng
    cases = S.cases(ctx.tier, ctx.rng, len(CONTEXTS)) if cases is None else cases
    terms, idx = [], []
    for k, case in enumerate(cases):
        t = _run_session(ctx, impl, case, rng)
        if t is not None:
            terms.append(t)
            idx.append(k)
    bad = ctx.model_mismatches(HEADER(), terms, 'check_session', chunk=16, name='sessions')
    for i in bad:
        case = cases[idx[i]]
        ctx.disagree({'session': {k: case[k] for k in ('init', 'how', 'ops', 'ctx')}}, terms[i][:1500], '',
                     'C09 Manifest life cycle (keys / top_level_folders after every step, reference functions under the final '
                     'folders) vs Ref.Model.check_session')


def run(ctx):
    ctx.rule = ('reference strings = stage prefix (none, stage0., stage1., stage12., stage1x., stage01., stage.) x 25 producer '
                'names (dots, dashes, digits, loop prefix, special folders, manifest/app-dep folder names, variables, index, '
                'absolute paths) x 7 file paths (0-3 segments, glob, variable, empty) x methods (8 real, 3 malformed, none), '
                'plus absolute paths with empty / doubled / trailing separators, a malformed stream (1-3 random edits of '
                'grammar strings) and random token soups, under 6 contexts (owner stage, known components, application dependencies, '
                'manifest keys incl. nested); folder lists taken from real directory listings (Manifest.fromDirectory on temporary '
                'directories: 7 entry kinds x 21 ways of making them, 4 include_dirs/include_files settings, 6 kinds of path; fixed '
                'corpus + systematic family + random listings, 3 of 8 reference templates into every entry, package load through '
                'configurationForExperiment for about 4 of 10 random listings); sessions on ONE Manifest object (created by '
                'Manifest(dict) / validate=False / fromFile / fromDirectory, then 1-5 of update(dict | Manifest | manifestData), clear(), '
                'validate(), caller-side change of a returned list / dict; fixed corpus + every sequence of at most two operations + '
                'random sessions; keys and top_level_folders read after every step); non-trivial = accepted by the parser and holding at least one of / . % # '
                'before the colon; distinct by (context, string)')
    pairs = enumerate_refs(ctx.tier, ctx.rng)
    impl = _explore(ctx, pairs)
    _folders(ctx, impl)
    _listings(ctx, impl)
    _sessions(ctx, impl)
    _end_to_end(ctx, impl)
    ctx.exhaustive = True
    ctx.extra['exhaustive_scope'] = 'the token grammar above is enumerated completely (quick: 2 methods in the full cross product)'


def replay(ctx, path):
    d = json.load(open(path))
    c = d.get('case') or d.get('first', {}).get('case') or {}
    if 'listing' in c:
        # rebuild the directory of the case and run every reference template (and the package load) on it
        _listings(ctx, Impl(), cases=[{'listing': c['listing'], 'root': c.get('root', 'dir'), 'opts': c.get('opts', {}),
                                       'ctx': c.get('ctx', 0), 'explicit_manifest': bool(c.get('explicit_manifest')),
                                       'load': bool(c.get('load')) or any(e[0] == 'conf' and e[1] == 'dir' for e in c['listing'])}],
                  rng=None)
    elif 'session' in c:
        _sessions(ctx, Impl(), cases=[dict(c['session'])], rng=None)
    elif 'ref' in c:
        _explore(ctx, [(c['ctx'], c['ref'])])
    elif 'manifest_keys' in c or 'folders_case' in c or 'manifest' in c or 'appdeps' in c:
        impl = Impl()
        _folders(ctx, impl)
        _end_to_end(ctx, impl)
    else:
        print('replay file names no input (proof/correspondence obligation): re-run ./check C09')
        return 2
    for f in ctx.failures:
        print('REPRODUCED: %s on %s' % (f['what'], f['case']))
    for f in ctx.disagreements:
        print('DISAGREEMENT: %s' % (f,))
    return 1 if (ctx.failures or ctx.disagreements) else 0
