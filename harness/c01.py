"""C01 — Tasks start only after everything they consume from is finished.
Implementation driven: the real Controller (see sched_driver.py) under harness-chosen interleavings."""
import itertools
import json

import sched_common as SC

PROP = 'C01'
COQ_DIR = 'Sched'
ASSUMPTIONS = [
    'component objects, engines, experiment/graph containers and rx delivery are fakes (sched_driver.py); the '
    'Controller object and all of its scheduling/termination methods are the real code',
    'postMortemCheck is atomic (the stability waits inside _restartComponent are not interleaved with other callbacks); that '
    'finishedCheck changes nothing before it holds comp_lock is CHECKED (a third of the random schedules deliver every '
    'finished-notification while the lock is held and compare the state seen meanwhile)',
    'no DoWhile placeholders, memoization hits, migration, optimizer, stage-in failures (Controller.sleep/wake_up and the '
    'controller part of a live patch — new graph object, parse_workflow_graph — ARE modelled and driven)',
]


def F1_witness():
    W = [SC.comp(sd=['KnownIssue']), SC.comp(preds=[0]), SC.comp(preds=[1], rep=True)]
    out = {0: ['KnownIssue'], 1: ['Success'], 2: ['Success']}
    sched = [('Start',), ('Exit', 0), ('PM', 0), ('Fin', 0), ('Tick',)]
    return W, out, sched


def scripted(sched):
    norm = lambda e: json.loads(json.dumps(list(e)))     # noqa: events read back from a replay file hold lists
    def ch(en, step):
        if step < len(sched):
            want = norm(sched[step])
            for k, e in enumerate(en):
                if norm(e) == want:
                    return k
            return 0
        return len(en) - 1
    return ch


def nontrivial(trace):
    """a scheduler pass happens between a task exit and the delivery of its finished-notification"""
    exited = set()
    for (ev, pre, post) in trace:
        if ev[0] == 'Exit':
            exited.add(ev[1])
        elif ev[0] == 'Fin':
            exited.discard(ev[1])
        elif ev[0] in ('Tick', 'Start') and exited:
            return True
    return False


ATOMIC = ('the model takes the handling of a finished-notification as one event under comp_lock: a notification that is '
          'still waiting for the lock (a scheduler pass is under way) must not have changed what the controller decides on')


def report_atomicity(ctx, case, drv, who='C01'):
    for a in drv.atomicity[:1]:
        ctx.disagree(dict(case, **a), 'a finished-notification changed %s before it held comp_lock' % ', '.join(a['changed_before_lock']),
                     None, '%s atomicity of finishedCheck w.r.t. comp_lock (assumed by Sched.Model events)' % who)


def run_one(ctx, W, out, chooser, terms, tag, slow_pm=False, sleepy=False, with_cdb=False, lockfin=False):
    """sleepy: Controller.sleep()/wake_up() are among the events; the trace is then a term for Sched.Sleep.check_scase
    lockfin: every finished-notification arrives while comp_lock is held (sched_driver.Driver.deliver_fin)"""
    trace, errors, complete, drv = SC.explore(W, out, chooser, slow_pm=slow_pm, sleepy=sleepy, with_cdb=with_cdb, lockfin=lockfin)
    if lockfin:
        ctx.count('schedules_with_notifications_arriving_during_a_pass')
    evs = [t[0] for t in trace]
    ctx.case([W, sorted(out.items()), evs], nontrivial(trace))
    ctx.count('%s_schedules' % tag)
    ctx.count('events', len(trace))
    for e in evs:
        ctx.count('ev_' + e[0])
    case = {'W': W, 'outcome': {str(k): v for k, v in out.items()}, 'schedule': evs}
    if errors:
        ctx.disagree(case, errors[0][-1500:], None, 'C01 driver: Controller.run raised an unexpected exception')
    report_atomicity(ctx, case, drv)
    first_final = {}
    for (ev, pre, post) in trace:
        for c in range(len(W)):
            st = post['comps'][c][0]
            if st in ('finished', 'failed', 'component_shutdown'):
                if c in first_final and first_final[c] != st:
                    ctx.fail(dict(case, component=c, at=ev), 'a recorded final state changed (%s -> %s)' % (first_final[c], st), [])
                first_final.setdefault(c, st)
    for (c, p, what, ev) in SC.launch_violations(W, trace):
        cls = []
        ctx.fail(dict(case, component=c, producer=p, at=ev), what, cls)
    for (ev, what) in SC.stage_state_violations(W, trace)[:1]:
        ctx.fail(dict(case, at=ev), what, [])
    terms.append(((SC.coq_scase if sleepy else SC.coq_case)(W, out, trace), case))
    if len(trace) > 6:
        ctx.sample({'workflow': W, 'outcome': out, 'schedule': evs,
                    'final_states': [c[0] for c in trace[-1][2]['comps']]}, limit=3)
    return trace


FINALS = ('finished', 'failed', 'component_shutdown')


def patch_chooser(r2, psl, ppatch=0.7):
    def ch(en, step):
        pk = [k for k, e in enumerate(en) if e[0] == 'Patch']
        sl = [k for k, e in enumerate(en) if e[0] in ('Sleep', 'Wake')]
        rest = [k for k, e in enumerate(en) if e[0] not in ('Sleep', 'Wake', 'Patch')]
        if pk and r2.random() < ppatch:
            return pk[0]
        if sl and (not rest or r2.random() < psl):
            return sl[0]
        return r2.choice(rest)
    return ch


def run_patched(ctx, W, out, chooser, pterms, tag, patcher, who='C01'):
    """a run in which the workflow is live-patched while the controller sleeps (sched_driver.Driver.patch); the trace
    is a term for Sched.Patch.check_pcase; predicates: launch guard against the workflow in force (a component is
    given new producers only before its launch, so that is the final description), final states never change, a
    stage ends only with all of its components final, a failed component makes its stage fail, the run ends"""
    trace, errors, complete, drv = SC.explore(W, out, chooser, sleepy=True, patcher=patcher, maxlen=600)
    evs = [t[0] for t in trace]
    Wf, outf = drv.W, drv.outcome
    n = len(Wf)
    npatch = sum(1 for e in evs if e[0] == 'Patch')
    nedges = sum(len(e[2]) for e in evs if e[0] == 'Patch')
    ctx.case([W, sorted(out.items()), evs], npatch > 0 and nedges > 0)
    ctx.count('%s_schedules' % tag)
    ctx.count('patches_applied', npatch)
    ctx.count('patched_in_components', n - len(W))
    ctx.count('patched_in_edges_to_existing_components', nedges)
    ctx.count('events', len(trace))
    case = {'W': W, 'outcome': {str(k): v for k, v in out.items()}, 'schedule': evs, 'live_patch': True}
    if errors:
        ctx.disagree(case, errors[0][-1500:], None, '%s driver (live patch): Controller.run raised an unexpected exception' % who)
        return trace
    if not complete:
        ctx.fail(case, 'the run did not end within 600 events (live patch)', [])
        return trace
    ptrace = [(ev, SC.pad_obs(pre, n), SC.pad_obs(post, n)) for (ev, pre, post) in trace]
    first_final = {}
    for (ev, pre, post) in trace:
        for c in range(len(post['comps'])):
            st = post['comps'][c][0]
            if st in FINALS:
                if c in first_final and first_final[c] != st:
                    ctx.fail(dict(case, component=c, at=ev), 'a recorded final state changed (%s -> %s)' % (first_final[c], st), [])
                first_final.setdefault(c, st)
        if ev[0] in ('Tick', 'Start') and not post['running']:
            # run() returned for stage post['cur']: the components that exist at this moment
            st_comps = [c for c in range(len(post['comps'])) if Wf[c]['stage'] == post['cur']]
            for c in st_comps:
                if post['comps'][c][0] not in FINALS:
                    ctx.fail(dict(case, component=c, at=ev), 'stage loop ended with a component of the stage not in a final state (live patch)', [])
            if any(post['comps'][c][0] == 'failed' for c in st_comps) and post['verdict'] != 'UnexpectedJobFailureError':
                ctx.fail(dict(case, at=ev), 'a component failed but its stage was not reported as failed (live patch)', [])
    for (c, p, what, ev) in SC.launch_violations(Wf, ptrace):
        ctx.fail(dict(case, component=c, producer=p, at=ev), what + ' (live patch)', [])
    for (ev, what) in SC.stage_state_violations(Wf, trace)[:1]:
        ctx.fail(dict(case, at=ev), what + ' (live patch)', [])
    pterms.append((SC.coq_pcase(W, outf, trace), case))
    if npatch and len(trace) > 8:
        ctx.sample({'workflow': W, 'patched_workflow': Wf, 'schedule': evs,
                    'final_states': [c[0] for c in trace[-1][2]['comps']]}, limit=2)
    return trace


def exhaustive_small(ctx, terms, depth):
    """all schedules (up to `depth` choice points, then first-enabled) of a family of <=3-component shapes"""
    shapes = []
    for rep2 in (False, True):
        for sd in ([], ['KnownIssue']):
            shapes.append([SC.comp(sd=sd), SC.comp(preds=[0], rep=rep2)])
            shapes.append([SC.comp(sd=sd), SC.comp(preds=[0]), SC.comp(preds=[1], rep=rep2)])
            shapes.append([SC.comp(sd=sd, repl=True), SC.comp(sd=sd, repl=True), SC.comp(preds=[0, 1], agg=True)])
            shapes.append([SC.comp(sd=sd), SC.comp(preds=[0], rep=rep2), SC.comp(stage=1, preds=[0, 1])])
    outs = [['Success'], ['KnownIssue'], ['ResourceExhausted', 'Success']]
    n = 0
    for W in shapes:
        for o0 in outs:
            out = {c: ['Success'] for c in range(len(W))}
            out[0] = o0
            # every choice vector exactly once: run a prefix (then always the first enabled event), and
            # branch on each position >= len(prefix) below the depth bound
            stack = [[]]
            while stack:
                prefix = stack.pop()
                seen_len = {}

                def ch(en, step, prefix=prefix, seen_len=seen_len):
                    seen_len[step] = len(en)
                    # default (-1): the last enabled event, i.e. prefer Start/Fin/PM/Exit over another Tick
                    i = prefix[step] if step < len(prefix) else -1
                    return len(en) - 1 if i == -1 else i
                run_one(ctx, W, out, ch, terms, 'exhaustive')
                n += 1
                for k in range(len(prefix), depth):
                    if k not in seen_len:
                        break
                    full = prefix + [-1] * (k - len(prefix))
                    for alt in range(0, seen_len[k] - 1):
                        stack.append(full + [alt])
    return n


def run(ctx):
    rng = ctx.rng
    ctx.rule = ('random DAGs (1-7 components, 1-3 stages, replicas, aggregators, observers) x random outcome tables x '
                'random interleavings of Start/Tick/Exit/PM/Fin chosen among the events the real controller has enabled, '
                'plus all interleavings up to a depth for a family of <=3-component shapes; non-trivial = a scheduler '
                'pass occurs between a task exit and the delivery of its finished-notification; distinct by (W, outcomes, schedule)')
    terms = []
    W, out, sched = F1_witness()
    run_one(ctx, W, out, scripted(sched), terms, 'corpus')
    # the same with memoization switched on (a central database is configured), and a shut-down producer of a
    # non-aggregating consumer / a failed producer of a later-stage consumer under a configured database
    run_one(ctx, W, out, scripted(sched), terms, 'corpus', with_cdb=True)
    run_one(ctx, W, out, scripted(sched), terms, 'corpus', lockfin=True)
    Wc = [SC.comp(sd=['KnownIssue']), SC.comp(mx=0), SC.comp(stage=1, preds=[0]), SC.comp(stage=1, preds=[1])]
    outc = {0: ['KnownIssue'], 1: ['UnknownIssue'], 2: ['Success'], 3: ['Success']}
    run_one(ctx, Wc, outc, scripted([('Start',), ('Exit', 0), ('PM', 0), ('Fin', 0), ('Tick',), ('Exit', 1), ('PM', 1),
                                     ('Fin', 1), ('Tick',), ('Tick',)]), terms, 'corpus', with_cdb=True)
    # a successful exit of a component that lists Success in shutdownOn still gives finished
    Ws = [SC.comp(sd=['Success', 'KnownIssue']), SC.comp(preds=[0])]
    run_one(ctx, Ws, {0: ['Success'], 1: ['Success']}, scripted([('Start',), ('Exit', 0), ('PM', 0), ('Fin', 0), ('Tick',)]),
            terms, 'corpus')
    # F2b (fixed): Y's post-mortem is inside its 25 s stability wait while the failure of X shuts Y down
    W2 = [SC.comp(), SC.comp()]
    out2 = {0: ['UnknownIssue'], 1: ['KnownIssue']}
    sched2 = [('Start',), ('Exit', 0), ('Exit', 1), ('PM', 0), ('PMB', 1), ('Fin', 0), ('Fin', 1), ('PME', 1), ('Tick',)]
    run_one(ctx, W2, out2, scripted(sched2), terms, 'corpus', slow_pm=True)
    # several stages: a component of stage 1 is launched after stage 0 has observed a failure, against a
    # producer that was stopped rather than left to fail (C02_multistage_spec_refuted)
    W3 = [SC.comp(mx=0), SC.comp(repl=True, mx=0), SC.comp(repl=True, mx=0), SC.comp(mx=0),
          SC.comp(stage=1, agg=True, preds=[1, 2], mx=0)]
    out3 = {0: ['UnknownIssue'], 1: ['UnknownIssue'], 2: ['Success'], 3: ['Success'], 4: ['Success']}
    sched3 = [('Start',), ('Tick',), ('Exit', 2), ('PM', 2), ('Fin', 2), ('Exit', 0), ('PM', 0), ('Fin', 0), ('Exit', 1),
              ('Fin', 1), ('Tick',), ('Exit', 4), ('PM', 4), ('Fin', 4), ('Exit', 3), ('Fin', 3), ('Tick',)]
    tr3 = run_one(ctx, W3, out3, scripted(sched3), terms, 'corpus')
    if [t[0] for t in tr3][:len(sched3)] != sched3 or tr3[len(sched3) - 1][2]['comps'][4][0] != 'finished':
        ctx.disagree({'W': W3, 'schedule': [t[0] for t in tr3]}, 'the multi-stage witness of C02_multistage_spec_refuted did not replay on the real controller',
                     None, 'C02 Refuted.v witness vs real Controller')
    # producers of different stages that share their NAME (names are unique within a stage only): one is shut down,
    # the other finishes; the consumer must be shut down whichever is listed first
    for preds in ([0, 1], [1, 0]):
        for bad in (0, 1):
            W4 = [SC.comp(sd=['KnownIssue']), SC.comp(stage=1, sd=['KnownIssue']), SC.comp(stage=2, preds=preds)]
            out4 = {0: ['Success'], 1: ['Success'], 2: ['Success']}
            out4[bad] = ['KnownIssue']
            run_one(ctx, W4, out4, scripted([('Start',), ('Exit', 0), ('PM', 0), ('Fin', 0), ('Tick',), ('Start',),
                                             ('Exit', 1), ('PM', 1), ('Fin', 1), ('Tick',), ('Start',), ('Tick',)]),
                    terms, 'corpus')
    # the experiment restarted from a later stage (Controller.initialise marks the skipped components finished):
    # predicate-only stream shared with C02 (launch guard on the observed states, final states never change)
    import c02
    nres = 8 if ctx.tier == 'quick' else 100
    for i in range(nres):
        Wr = SC.gen_workflow(rng)
        nst = max(d['stage'] for d in Wr) + 1
        if nst >= 2:
            c02.restart_family(ctx, Wr, SC.gen_outcome(rng, Wr), rng.randint(1, nst - 1), 2)
    Wr = [SC.comp(), SC.comp(stage=1, sd=['KnownIssue']), SC.comp(stage=1), SC.comp(stage=2, preds=[1, 2]), SC.comp(stage=3, preds=[1])]
    c02.restart_family(ctx, Wr, {0: ['Success'], 1: ['KnownIssue'], 2: ['Success'], 3: ['Success'], 4: ['Success']}, 1, 6)
    nex = exhaustive_small(ctx, terms, 4 if ctx.tier == 'quick' else 5)
    ctx.count('exhaustive_runs', nex)
    nrand = 200 if ctx.tier == 'quick' else 1500
    for i in range(nrand):
        W = SC.gen_workflow(rng)
        out = SC.gen_outcome(rng, W)
        for j in range(2):
            r2 = __import__('random').Random(rng.random())
            bias = r2.random()

            def ch(en, step, r2=r2, bias=bias):
                # bias towards/away from scheduler passes so that both orders of Tick vs notifications occur
                ticks = [k for k, e in enumerate(en) if e[0] in ('Tick',)]
                others = [k for k, e in enumerate(en) if e[0] not in ('Tick',)]
                if ticks and others:
                    return r2.choice(ticks) if r2.random() < bias else r2.choice(others)
                return r2.randrange(len(en))
            # half of the second schedules run with memoization switched on (a central database that never matches)
            run_one(ctx, W, out, ch, terms, 'random', slow_pm=(j == 1), with_cdb=(j == 1 and i % 2 == 0),
                    lockfin=(j == 0 and i % 3 == 0))
    # ---- the controller put to sleep and woken up (Controller.sleep / wake_up) at arbitrary points
    sterms = []
    Ws = [SC.comp(), SC.comp(preds=[0]), SC.comp(preds=[1], rep=True)]
    outs = {0: ['Success'], 1: ['Success'], 2: ['Success']}
    run_one(ctx, Ws, outs, scripted([('Start',), ('Exit', 0), ('PM', 0), ('Fin', 0), ('Sleep',), ('Tick',), ('Wake',),
                                     ('Tick',), ('Tick',)]), sterms, 'sleep_corpus', sleepy=True)
    run_one(ctx, Ws, outs, scripted([('Start',), ('Sleep',), ('Exit', 0), ('PM', 0), ('Fin', 0), ('Tick',), ('Tick',),
                                     ('Wake',), ('Tick',)]), sterms, 'sleep_corpus', sleepy=True)
    nsl = 120 if ctx.tier == 'quick' else 800
    for i in range(nsl):
        W = SC.gen_workflow(rng, nmax=5)
        out = SC.gen_outcome(rng, W)
        r2 = __import__('random').Random(rng.random())
        psl = r2.choice([0.05, 0.15, 0.4])

        def chs(en, step, r2=r2, psl=psl):
            sl = [k for k, e in enumerate(en) if e[0] in ('Sleep', 'Wake')]
            rest = [k for k, e in enumerate(en) if e[0] not in ('Sleep', 'Wake')]
            if sl and (not rest or r2.random() < psl):
                return sl[0]
            return r2.choice(rest)
        run_one(ctx, W, out, chs, sterms, 'sleep_random', sleepy=True)
    sbad = ctx.model_mismatches(SC.HEADER + '\nRequire Import V.Sched.Sleep.', [t[0] for t in sterms], 'check_scase',
                                chunk=30, name='sleep')
    for k, i in enumerate(sbad):
        ctx.disagree(sterms[i][1], 'trace of the real controller with sleep()/wake_up()', '',
                     'C01 trace with sleep/wake_up: real Controller vs Sched.Sleep.sstep')
    # ---- live patch while the controller sleeps (elaunch LivePatcher: new graph object + parse_workflow_graph)
    pterms = []
    Rnd = __import__('random').Random
    # corpus: first -> sim -> monitor; while first runs a component `extra` is patched in and sim is made to consume
    # from it (C01_patch_nonvacuous); first finishes before extra: sim must wait for extra
    Wp = [SC.comp(sd=['KnownIssue']), SC.comp(preds=[0]), SC.comp(preds=[1], rep=True)]
    pev = ('Patch', [SC.comp()], [(3, 1)], [['Success']])
    for tail in ([('Exit', 0), ('PM', 0), ('Fin', 0), ('Tick',), ('Tick',), ('Exit', 3), ('PM', 3), ('Fin', 3), ('Tick',), ('Tick',)],
                 [('Exit', 3), ('PM', 3), ('Fin', 3), ('Tick',), ('Exit', 0), ('PM', 0), ('Fin', 0), ('Tick',), ('Tick',)]):
        sched = [('Start',), ('Sleep',), pev, ('Wake',), ('Tick',)] + tail
        run_patched(ctx, Wp, {0: ['Success'], 1: ['Success'], 2: ['Success']}, scripted(sched), pterms, 'patch_corpus',
                    lambda d: (pev if d.patches == 0 else None))
    # corpus: a component patched into the running stage fails: the stage must be reported as failed
    pev2 = ('Patch', [SC.comp(mx=0, ro=[])], [], [['UnknownIssue']])
    run_patched(ctx, [SC.comp()], {0: ['Success']},
                scripted([('Start',), ('Sleep',), pev2, ('Wake',), ('Tick',), ('Exit', 0), ('PM', 0), ('Fin', 0), ('Exit', 1),
                          ('PM', 1), ('Fin', 1), ('Tick',), ('Tick',)]), pterms, 'patch_corpus',
                lambda d: (pev2 if d.patches == 0 else None))
    npa = 100 if ctx.tier == "quick" else 500
    for i in range(npa):
        W = SC.gen_workflow(rng, nmax=5)
        out = SC.gen_outcome(rng, W)
        r2 = Rnd(rng.random())
        run_patched(ctx, W, out, patch_chooser(r2, r2.choice([0.1, 0.25, 0.4])), pterms, 'patch_random', SC.make_patcher(r2))
    pbad = ctx.model_mismatches(SC.HEADER + '\nRequire Import V.Sched.Sleep V.Sched.Patch.', [t[0] for t in pterms],
                                'check_pcase', chunk=25, name='patch')
    for k, i in enumerate(pbad):
        ctx.disagree(pterms[i][1], 'trace of the real controller with a live patch applied while it sleeps', '',
                     'C01 trace with live patch: real Controller vs Sched.Patch.prun')
    bad = ctx.model_mismatches(SC.HEADER, [t[0] for t in terms], 'check_case', chunk=40)
    for k, i in enumerate(bad):
        where = ctx.model_eval(SC.HEADER, 'let \'(W, fx, tbl, tr) := %s in check_trace W fx (outcome_of tbl) state0 tr 0' % terms[i][0]) if k < 3 else ''
        ctx.disagree(terms[i][1], 'trace of the real controller', 'first differing event index: ' + where[-200:],
                     'C01/C02 trace: real Controller vs Sched.Model.step')


def replay(ctx, path):
    d = json.load(open(path))
    c = d.get('case') or d.get('first', {}).get('case')
    if not c or 'W' not in c:
        print('replay file names no input (proof/correspondence obligation): re-run ./check C01')
        return 2
    terms = []
    out = {int(k): v for k, v in c['outcome'].items()}
    sched = [tuple(e) for e in c['schedule']]
    if c.get('live_patch'):
        patches = [e for e in sched if e[0] == 'Patch']

        def patcher(d):
            return tuple(patches[d.patches]) if d.patches < len(patches) else None
        run_patched(ctx, c['W'], out, scripted(sched), terms, 'replay', patcher)
        bad = ctx.model_mismatches(SC.HEADER + '\nRequire Import V.Sched.Sleep V.Sched.Patch.', [t[0] for t in terms], 'check_pcase')
    else:
        sleepy = any(e[0] in ('Sleep', 'Wake') for e in sched)
        run_one(ctx, c['W'], out, scripted(sched), terms, 'replay', sleepy=sleepy, slow_pm=any(e[0] in ('PMB', 'PME') for e in sched),
                lockfin='changed_before_lock' in c)
        if sleepy:
            bad = ctx.model_mismatches(SC.HEADER + '\nRequire Import V.Sched.Sleep.', [t[0] for t in terms], 'check_scase')
        else:
            bad = ctx.model_mismatches(SC.HEADER, [t[0] for t in terms], 'check_case')
    for f in ctx.disagreements:
        print('DISAGREEMENT: %s' % f.get('correspondence', ''))
    for f in ctx.failures:
        print('REPRODUCED: %s' % f['what'])
    if bad:
        print('DISAGREEMENT: model and controller differ on this schedule')
    return 1 if (ctx.failures or bad or ctx.disagreements) else 0
