"""C12 — Task restarts stay within the configured policy.
Implementation driven: real Controller.postMortemCheck -> _restartComponent/_unstableSystemRestart ->
real ComponentState.restart/finish -> real Engine.restart / RepeatingEngine.restart, with Engine.run counted
instead of executed, the restart hook a generated module whose behaviour the harness selects per exit, and
MonitorExceptionTracker.isSystemStable an oracle."""
import builtins
import itertools
import json
import logging
import os
import shutil
import tempfile
import types

from common import clist, cZ, cbool, cpair, copt

PROP = 'C12'
COQ_DIR = 'Restart'
ASSUMPTIONS = [
    'task outcome (exit reason), restart hook behaviour, system-stability verdict and failure of Engine.run() are oracle inputs',
    'the working directory holds no DLMESO CONTROL file (default hook raises IOError on ResourceExhausted)',
    'duck-typed job/specification objects; ComponentState is the real class with its constructor bypassed',
    'threads: RepeatingEngine.restart thread is not started (threading.Thread replaced); time.sleep is a no-op',
]
HEADER = 'Require Import V.Restart.Model.\nOpen Scope Z_scope.'

REASONS = ['Success', 'KnownIssue', 'SystemIssue', 'SubmissionFailed', 'UnknownIssue', 'Killed', 'Cancelled',
           'ResourceExhausted']
HOOKS = ['HPossible', 'HNotAvailable', 'HNotRequired', 'HNotPossible', 'HFailed', 'HCondNotMet', 'HTrue', 'HFalse',
         'HJunk', 'HRaiseIO', 'HRaiseOther']
HOOK_MODULE = '''
import builtins
def Restart(workingDirectory, restarts, componentName, log, exitReason, exitCode):
    h = builtins._verif_c12_hook
    ctx = {'HPossible': 'RestartContextRestartPossible', 'HNotAvailable': 'RestartContextHookNotAvailable',
           'HNotRequired': 'RestartContextRestartNotRequired', 'HNotPossible': 'RestartContextRestartNotPossible',
           'HFailed': 'RestartContextHookFailed', 'HCondNotMet': 'RestartContextRestartConditionsNotMet'}
    if h in ctx: return ctx[h]
    if h == 'HTrue': return True
    if h == 'HFalse': return False
    if h == 'HJunk': return 42
    if h == 'HRaiseIO': raise IOError('verif')
    raise ValueError('verif')
'''


class _Obj(object):
    pass


class Driver(object):
    def __init__(self):
        import experiment.runtime.engine as E
        import experiment.runtime.control as C
        import experiment.runtime.workflow as W
        import experiment.runtime.monitor as M
        self.E, self.C, self.W, self.M = E, C, W, M
        self.tmp = tempfile.mkdtemp(prefix='verif_c12_')
        os.makedirs(os.path.join(self.tmp, 'hooks'))
        os.makedirs(os.path.join(self.tmp, 'wd'))
        for name in ('restart.py', 'named.py'):
            open(os.path.join(self.tmp, 'hooks', name), 'w').write(HOOK_MODULE)
        self.runs = [0]
        self.run_ok = [True]
        self.stable = [True]

        def fake_run(eng):
            if not self.run_ok[0]:
                raise RuntimeError('verif: run() fails')
            self.runs[0] += 1
        self._orig_run = E.Engine.run
        E.Engine.run = fake_run
        C.time.sleep = lambda s: None
        M.MonitorExceptionTracker.defaultTracker().isSystemStable = lambda *a, **k: self.stable[0]
        M.MonitorExceptionTracker.defaultTracker().printStatus = lambda *a, **k: None

        class FakeThread(object):
            def __init__(s, *a, **k):
                pass

            def start(s):
                pass
        self._orig_thread = E.threading.Thread
        self.FakeThread = FakeThread

        W_ = W

        class CS(W_.ComponentState):
            def __init__(s, engine, job):
                s._engine = engine
                s._specification = job
                s._finishedCalled = False
                s.controllerState = None
                s.log = logging.getLogger('verif.cs')
                s.repeatingDisposable = None
                s.finals = []

            def finish(s, st):
                s.finals.append(st)
                return W_.ComponentState.finish(s, st)
        self.CS = CS
        ctl = C.Controller.__new__(C.Controller)
        ctl.log = logging.getLogger('verif.ctl')
        ctl._max_resubmission_attempts = 5
        ctl.stage = lambda: types.SimpleNamespace(index=0)
        self.ctl = ctl

    def close(self):
        self.E.Engine.run = self._orig_run
        shutil.rmtree(self.tmp, ignore_errors=True)

    def job(self, cfg):
        j = _Obj()
        j.reference = 'stage0.comp'
        j.name = 'comp'
        j.type = 'simulator' if cfg['is_sim'] else 'local'
        j.directory = os.path.join(self.tmp, 'wd')
        j.workingDirectory = types.SimpleNamespace(path=j.directory)
        j.stageIndex = 0
        inst = self.tmp
        if not cfg['hook_loadable']:
            inst = os.path.join(self.tmp, 'nohooks')
        j.workflowGraph = types.SimpleNamespace(rootStorage=types.SimpleNamespace(instancePath=inst))
        j.customAttributes = {'sim_restart': 'yes' if cfg['sim_restart'] else 'no'}
        j.executable = 'ls'
        j.arguments = ''
        j.isRepeat = cfg['is_rep']
        j.isMigratable = False
        j.identification = types.SimpleNamespace(identifier='stage0.comp')
        wa = {'restartHookOn': list(cfg['hook_on']), 'shutdownOn': list(cfg['shutdown_on']),
              'repeatRetries': 3, 'optimizer': {'disable': True}}
        if cfg['max_restarts'] != 'absent':
            wa['maxRestarts'] = cfg['max_restarts']
        hf = cfg['hook_file']
        if hf == 'HFNone':
            wa['restartHookFile'] = None
        elif hf == 'HFEmpty':
            wa['restartHookFile'] = ''
        else:
            wa['restartHookFile'] = 'named.py'
        j.workflowAttributes = wa
        j.repeatInterval = lambda: 5.0
        j.producerInstances = []
        j.flowir_description = {'variables': {}}
        j.producersHaveOutputSinceDate = lambda d: False
        return j

    def run_case(self, cfg, hist):
        """returns (list of (code, restarts, resub), final or None)"""
        E = self.E
        job = self.job(cfg)
        if cfg['is_rep']:
            eng = E.RepeatingEngine(job, taskGenerator=lambda *a, **k: None)
        else:
            eng = E.Engine(job, taskGenerator=lambda *a, **k: None)
        cs = self.CS(eng, job)
        obs = []
        final = None
        codes = {'RestartInitiated': 'Initiated', 'RestartNotRequired': 'NotRequired',
                 'RestartCouldNotInitiate': 'CouldNotInitiate', 'RestartMaxAttemptsExceeded': 'MaxAttemptsExceeded'}
        got = {}
        orig = self.ctl._restartComponent.__func__

        def spy(ctl_self, component, exitReason=None, returncode=None):
            r = orig(ctl_self, component, exitReason=exitReason, returncode=returncode)
            got['code'] = r
            return r
        self.ctl._restartComponent = types.MethodType(spy, self.ctl)
        E.threading.Thread = self.FakeThread
        try:
            for (reason, hook, stable, run_ok) in hist:
                builtins._verif_c12_hook = hook
                self.stable[0] = stable
                self.run_ok[0] = run_ok
                # the task exits: what Engine._setExitReason does with the reason
                if reason == 'Success':
                    eng._resubmissionAttempts = 0
                eng.exitReason = (lambda r=reason: r)
                runs0 = self.runs[0]
                got.clear()
                self.ctl.postMortemCheck({}, cs)
                code = codes.get(got.get('code'), 'EXC:%s' % got.get('code'))
                obs.append((code, eng.restarts, eng.resubmissionAttempts()))
                started = self.runs[0] - runs0
                if cfg['is_rep']:
                    started = 1 if code == 'Initiated' else 0
                if (code == 'Initiated') != (started == 1):
                    obs[-1] = ('RUNCOUNT:%s:%d' % (code, started), eng.restarts, eng.resubmissionAttempts())
                if code != 'Initiated':
                    final = cs.finals[-1] if cs.finals else 'NONE'
                    if len(cs.finals) != 1 or not eng.isShutdown:
                        final = 'BAD:%s:%s' % (cs.finals, eng.isShutdown)
                    break
                if cs.finals:
                    final = 'EARLY:%s' % cs.finals
                    break
        finally:
            E.threading.Thread = self._orig_thread
            del self.ctl._restartComponent
        return obs, final


# ------------------------------------------------------------------ Coq printing
def coq_cfg(c):
    mr = c['max_restarts']
    return ('{| max_restarts := %s; hook_file := %s; hook_loadable := %s; hook_on := %s; is_sim := %s; '
            'sim_restart := %s; is_rep := %s; shutdown_on := %s |}' % (
                'None' if mr in (None, 'absent') else '(Some %s)' % cZ(mr), c['hook_file'], cbool(c['hook_loadable']),
                clist(c['hook_on']), cbool(c['is_sim']), cbool(c['sim_restart']), cbool(c['is_rep']),
                clist(c['shutdown_on'])))


def coq_hist(h):
    return clist(['{| ev_reason := %s; ev_hook := %s; ev_stable := %s; ev_run_ok := %s |}' % (r, hk, cbool(s), cbool(o))
                  for (r, hk, s, o) in h])


FIN = {'finished': 'Finished', 'component_shutdown': 'Shutdown', 'failed': 'Failed'}


def coq_obs(obs, final):
    o = clist(['(%s, %s, %s)' % (c, cZ(r), cZ(q)) for (c, r, q) in obs])
    f = 'None' if final is None else '(Some %s)' % FIN[final]
    return '(%s, %s)' % (o, f)


# ------------------------------------------------------------------ property predicate on impl outputs
def eff_max(cfg):
    mr = cfg['max_restarts']
    if mr in (None, 'absent'):
        return -1 if cfg['hook_file'] == 'HFNamed' else 3
    return mr


def predicate(ctx, cfg, hist, obs, final):
    cls = []
    case = {'cfg': cfg, 'hist': hist, 'obs': obs, 'final': final}
    cont = 0
    consec = 0
    for (reason, hook, stable, ok), (code, restarts, resub) in zip(hist, obs):
        if reason == 'Success':
            consec = 0
        if code == 'Initiated':
            if reason not in cfg['hook_on'] and reason != 'SubmissionFailed':
                k = (['repeating_engine_restarts_on_unlisted_ResourceExhausted']
                     if (cfg['is_rep'] and reason == 'ResourceExhausted' and not stable) else [])
                ctx.fail(case, 'task restarted after an exit reason (%s) that is neither listed as restartable nor a failed submission' % reason, k)
            if reason in ('Killed', 'Cancelled'):
                ctx.fail(case, 'task restarted after %s' % reason, cls)
            if reason == 'SubmissionFailed':
                consec += 1
            else:
                cont += 1
        elif not code in ('NotRequired', 'CouldNotInitiate', 'MaxAttemptsExceeded'):
            ctx.fail(case, 'unexpected outcome of postMortemCheck: %s' % code, cls)
    mx = eff_max(cfg)
    if cfg['is_rep']:
        if cont > 1:
            ctx.fail(case, 'repeating engine restarted more than once', cls)
    elif mx != -1 and cont > max(0, mx):
        ctx.fail(case, 'number of restarts %d exceeds the maximum %d' % (cont, mx), cls)
    if consec > 5:
        ctx.fail(case, 'more than five consecutive re-submissions (%d)' % consec, cls)
    if obs and obs[-1][0] != 'Initiated':
        r = hist[len(obs) - 1][0]
        want = 'finished' if r == 'Success' else ('component_shutdown' if r in cfg['shutdown_on'] else 'failed')
        if final != want:
            ctx.fail(case, 'after a refused restart the component did not receive its final state (%s, expected %s)' % (final, want), cls)


# ------------------------------------------------------------------ generation
HOOK_ON_SETS = [['ResourceExhausted'], ['ResourceExhausted', 'KnownIssue'], ['SubmissionFailed'],
                [], ['KnownIssue', 'SystemIssue', 'UnknownIssue', 'Success'], ['SubmissionFailed', 'ResourceExhausted']]


def gen_cfg(rng):
    return {
        'max_restarts': rng.choice(['absent', None, -1, 0, 1, 2, 3, 5]),
        'hook_file': rng.choice(['HFNone', 'HFEmpty', 'HFNamed']),
        'hook_loadable': rng.random() < 0.6,
        'hook_on': rng.choice(HOOK_ON_SETS),
        'is_sim': rng.random() < 0.2,
        'sim_restart': rng.random() < 0.7,
        'is_rep': rng.random() < 0.15,
        'shutdown_on': rng.choice([[], ['KnownIssue'], ['ResourceExhausted', 'Killed']]),
    }


def gen_hist(rng, cfg, n):
    h = []
    pool = list(cfg['hook_on']) * 3 + ['SubmissionFailed'] * 3 + REASONS
    for _ in range(n):
        h.append((rng.choice(pool), rng.choice(HOOKS + ['HPossible'] * 6), rng.random() < 0.75, rng.random() < 0.95))
    return h


def explore(ctx, cases):
    drv = Driver()
    terms = []
    try:
        for cfg, hist in cases:
            obs, final = drv.run_case(cfg, hist)
            nontriv = sum(1 for o in obs if o[0] == 'Initiated') >= 1
            ctx.case([cfg, hist], nontriv)
            ctx.count('hist_len_%d' % min(len(hist), 13))
            for o in obs:
                ctx.count('code_' + o[0].split(':')[0])
            predicate(ctx, cfg, hist, obs, final)
            malformed = any(':' in o[0] for o in obs) or (final is not None and final not in FIN)
            if malformed:
                ctx.disagree({'cfg': cfg, 'hist': hist}, {'obs': obs, 'final': final}, None,
                             'C12 trace: implementation outcome not expressible in the model (engine start count / final state protocol)')
            else:
                terms.append((cpair(cpair(coq_cfg(cfg), coq_hist(hist)), coq_obs(obs, final)), cfg, hist, obs, final))
            if nontriv:
                ctx.sample({'cfg': cfg, 'history': hist, 'observed': obs, 'final': final}, limit=4)
    finally:
        drv.close()
    bad = ctx.model_mismatches(HEADER, [t[0] for t in terms], 'check_case', chunk=400)
    for k, i in enumerate(bad):
        _, cfg, hist, obs, final = terms[i]
        m = ctx.model_eval(HEADER, 'trace %s init_st %s' % (coq_cfg(cfg), coq_hist(hist))) if k < 3 else ''
        ctx.disagree({'cfg': cfg, 'hist': hist}, {'obs': obs, 'final': final}, m,
                     'C12 trace: postMortemCheck/Engine.restart vs Restart.Model.trace')


def run(ctx):
    rng = ctx.rng
    ctx.rule = ('exhaustive: every history of length <= L over 8 exit reasons x {hook says possible, not required, raises} '
                'for a grid of configurations; plus random configurations x random histories (length <= 12, all 11 hook '
                'behaviours, stability and run() oracles); non-trivial = at least one restart initiated; distinct by (cfg, history)')
    cases = []
    # corpus: witnesses of fixed / open findings first
    sf = {'max_restarts': -1, 'hook_file': 'HFNone', 'hook_loadable': False, 'hook_on': ['SubmissionFailed'],
          'is_sim': False, 'sim_restart': False, 'is_rep': False, 'shutdown_on': []}
    cases.append((sf, [('SubmissionFailed', 'HJunk', True, True)] * 12))
    rep = dict(sf, hook_on=['KnownIssue'], is_rep=True, max_restarts=None)
    cases.append((rep, [('ResourceExhausted', 'HJunk', False, True), ('ResourceExhausted', 'HJunk', False, True)]))
    # exhaustive small scope
    L = 2 if ctx.tier == 'quick' else 3
    grid = []
    for mr in (['absent', 0, 1, -1] if ctx.tier == 'quick' else ['absent', None, -1, 0, 1, 2]):
        for hf, ld in (('HFNone', False), ('HFNone', True), ('HFNamed', True), ('HFEmpty', True)):
            for on in HOOK_ON_SETS[:3]:
                grid.append({'max_restarts': mr, 'hook_file': hf, 'hook_loadable': ld, 'hook_on': on, 'is_sim': False,
                             'sim_restart': False, 'is_rep': False, 'shutdown_on': ['KnownIssue']})
    evs = [(r, hk, True, True) for r in REASONS for hk in ('HPossible', 'HNotRequired', 'HRaiseOther')]
    for cfg in grid:
        for n in range(1, L + 1):
            for h in itertools.product(evs, repeat=n):
                # prune: a history continues only while restarts are initiated; keep all, the driver stops at refusal
                cases.append((cfg, list(h)))
    ctx.exhaustive = False
    ctx.count('exhaustive_small_scope_cases', len(cases))
    nrand = 1500 if ctx.tier == 'quick' else 20000
    for _ in range(nrand):
        cfg = gen_cfg(rng)
        cases.append((cfg, gen_hist(rng, cfg, rng.randint(1, 12))))
    # de-duplicate the exhaustive part by effective prefix is not attempted; distinctness is counted by ctx.case
    explore(ctx, cases)


def replay(ctx, path):
    d = json.load(open(path))
    c = d.get('case') or d.get('first', {}).get('case')
    if not c or 'cfg' not in c:
        print('replay file names no input (proof/correspondence obligation): re-run ./check C12')
        return 2
    explore(ctx, [(c['cfg'], [tuple(e) for e in c['hist']])])
    for f in ctx.failures:
        print('REPRODUCED: %s' % f['what'])
    for f in ctx.disagreements:
        print('DISAGREEMENT: %s' % (f,))
    return 1 if (ctx.failures or ctx.disagreements) else 0
