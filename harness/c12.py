"""C12 — Task restarts stay within the configured policy.
Implementation driven: real Controller.postMortemCheck -> _restartComponent/_unstableSystemRestart ->
real ComponentState.restart/finish -> real Engine.restart / RepeatingEngine.restart.  For ordinary engines the REAL
Engine.run() is executed (first launch and every restart): its reactive pipeline (_prime, InitPerformanceInfo,
LaunchTask on the harness's task generator, SetLaunchTime, Wait, FinalisePerformanceInfo, HandleTaskExit ->
_setExitReason, emit_now/stateDictionary) runs on immediate schedulers; the start signal (a 1 s timer + 5 s delay in
production) is a subject the harness fires after the controller has handled the previous exit, which is the order
of events in production (Engine.restart returns before the new task is launched).  The exit reason the controller
reads is the one the real engine recorded from the fake task (or from the failing task generator); nothing on the
engine is set by hand.  The restart hook is a generated module whose behaviour the harness selects per exit,
MonitorExceptionTracker.isSystemStable an oracle, run() raising inside Engine.restart a separate oracle input."""
import builtins
import itertools
import json
import logging
import os
import shutil
import tempfile
import types

from common import clist, cZ, cbool, cpair, copt, cstr
import c12_config

PROP = 'C12'
COQ_DIR = 'Restart'
ASSUMPTIONS = [
    'task outcome (the exit reason a fake task reports after wait(), or the exception its generator raises), restart hook behaviour, '
    'system-stability verdict and failure of Engine.run() are oracle inputs',
    'history cases run in a working directory without DLMESO CONTROL file (default hook raises IOError on ResourceExhausted); '
    'the CONTROL-file cases drive the real DLMESORestart on generated ASCII files (line pool, 0-5 lines, missing, a directory)',
    'ordinary engines: the real Engine.run() pipeline runs synchronously (thread-pool schedulers -> ImmediateScheduler, op.delay -> identity, '
    'reactivex.interval/timer -> never, start signal fired by the harness, fake clock advanced by the fake task); repeating engines: '
    'exitReason() is the per-exit oracle (their monitor loop is not driven here, see C13)',
    'when run() is made to raise inside Engine.restart the exit reason the real engine had recorded is frozen on exitReason() so that the '
    'engine still looks dead when the final state is delivered',
    'a raising restart hook / a hook module failing at import raises an exception produced by a harness-selected action (61 actions: lazy imports of missing bindings, ImportError family, data errors, IOError aliases and subclasses); the model is told its MRO only; BaseException-only exceptions (KeyboardInterrupt, SystemExit) are not generated',
    'duck-typed job/specification objects; ComponentState is the real class with its constructor bypassed',
    'threads: RepeatingEngine.restart thread is not started (threading.Thread replaced); time.sleep is a no-op',
    'configuration side: layering and variable resolution of workflowAttributes.restartHookOn / shutdownOn are the real code\'s '
    '(the effective lists are read off FlowIRConcrete.get_component_configuration and handed to the duck-typed job); '
    'documents are minimal one-component FlowIR dictionaries, not packages on disk',
]
HEADER = 'Require Import V.Restart.Model V.Restart.Raise.\nOpen Scope Z_scope.'
# how an exit comes about: the launched task reports it / the task generator raises (Engine.run: LaunchTask)
LAUNCH_KINDS = {'task': None, 'os': 'GenOSError', 'launch': 'GenLaunchError', 'other': 'GenOtherError'}
LAUNCH_REASON = {'os': 'SubmissionFailed', 'launch': 'SubmissionFailed', 'other': 'UnknownIssue'}


def ev_kind(ev):
    return ev[4] if len(ev) > 4 else 'task'

REASONS = ['Success', 'KnownIssue', 'SystemIssue', 'SubmissionFailed', 'UnknownIssue', 'Killed', 'Cancelled',
           'ResourceExhausted']
HOOKS = ['HPossible', 'HNotAvailable', 'HNotRequired', 'HNotPossible', 'HFailed', 'HCondNotMet', 'HTrue', 'HFalse',
         'HJunk', 'HRaiseIO', 'HRaiseOther']
HOOK_MODULE = '''
import builtins
# the module is executed at every restart attempt (import_hooks_restart): it may fail while it is imported
builtins._verif_c12_loads = getattr(builtins, '_verif_c12_loads', 0) + 1
_h = getattr(builtins, '_verif_c12_hook', '')
if _h.startswith('HLoad:') and _h != 'HLoad:no-restart':
    builtins._verif_c12_raise[_h[6:]]()
    raise SystemError('verif: the selected action did not raise')
def Restart(workingDirectory, restarts, componentName, log, exitReason, exitCode):
    builtins._verif_c12_calls = getattr(builtins, '_verif_c12_calls', 0) + 1
    h = builtins._verif_c12_hook
    ctx = {'HPossible': 'RestartContextRestartPossible', 'HNotAvailable': 'RestartContextHookNotAvailable',
           'HNotRequired': 'RestartContextRestartNotRequired', 'HNotPossible': 'RestartContextRestartNotPossible',
           'HFailed': 'RestartContextHookFailed', 'HCondNotMet': 'RestartContextRestartConditionsNotMet'}
    if h in ctx: return ctx[h]
    if h == 'HTrue': return True
    if h == 'HFalse': return False
    if h == 'HJunk': return 42
    if h == 'HRaiseIO': raise IOError('verif')
    if h.startswith('HRaise:'):
        # the hook raises while it works: what it does (a lazy import of bindings that are not installed, opening a
        # file that is not there, a dictionary lookup ...) is selected by the harness, the exception is Python's
        builtins._verif_c12_raise[h[7:]]()
        raise SystemError('verif: the selected action did not raise')
    raise ValueError('verif')
if _h == 'HLoad:no-restart':
    del Restart
'''


# ---- a hook that raises: WHICH exception.  Engine.restart tells "hook not available" (IOError) from "hook failed"
# (any other exception) by the class of what the hook raised; a hook behaviour 'HRaise:<key>' makes the generated hook
# module perform the action below.  The model classifies the exception from its MRO (Restart.Raise.raise_out), the
# harness only reports the MRO of what Python actually raised.
def _raise_actions():
    import importlib
    import io
    import json as _json
    import pickle
    import shutil as _shutil
    import socket
    import subprocess
    import zipimport

    class HookError(Exception):
        pass

    class HookImportError(ImportError):
        pass

    class HookModuleNotFound(ModuleNotFoundError):
        pass

    class HookIOError(IOError):
        pass

    class HookLookupValueError(KeyError, ValueError):
        pass

    def lazy_import():
        import verif_c12_bindings_of_a_code_that_is_not_installed

    def lazy_import_sub():
        importlib.import_module('verif_c12_bindings_that_are_missing.core')

    def lazy_from_import():
        from os import verif_c12_a_name_os_does_not_have

    def lazy_relative_import():
        importlib.import_module('.sibling', package=None)      # TypeError: relative import without package

    def open_missing():
        open(os.path.join(tempfile.gettempdir(), 'verif_c12_absent_dir', 'CONTROL'))

    def open_dir():
        open(tempfile.gettempdir())

    def open_under_file():
        open(os.path.join(os.path.abspath(__file__), 'CONTROL'))

    def listdir_missing():
        os.listdir(os.path.join(tempfile.gettempdir(), 'verif_c12_absent_dir'))

    def unsupported_io():
        io.StringIO('x').fileno()

    def run_missing_exe():
        subprocess.check_call([os.path.join(tempfile.gettempdir(), 'verif_c12_absent_exe')])

    def failing_cmd():
        subprocess.check_call(['false'])

    def raiser(cls, *args):
        def act():
            raise cls(*(args or ('verif',)))
        return act

    acts = {
        # the import family: what a hook that imports lazily raises on a machine without the bindings
        'lazy-import': lazy_import, 'lazy-import-sub': lazy_import_sub, 'lazy-from-import': lazy_from_import,
        'lazy-relative-import': lazy_relative_import,
        'ImportError': raiser(ImportError), 'ModuleNotFoundError': raiser(ModuleNotFoundError),
        'ZipImportError': raiser(zipimport.ZipImportError), 'HookImportError': raiser(HookImportError),
        'HookModuleNotFound': raiser(HookModuleNotFound),
        # other programming / data errors
        'ValueError': raiser(ValueError), 'KeyError': lambda: {}['restart'], 'IndexError': lambda: [][-2],
        'AttributeError': lambda: None.restart, 'TypeError': lambda: len(3), 'NameError': raiser(NameError),
        'UnboundLocalError': raiser(UnboundLocalError), 'RuntimeError': raiser(RuntimeError),
        'NotImplementedError': raiser(NotImplementedError), 'RecursionError': raiser(RecursionError),
        'AssertionError': raiser(AssertionError), 'ZeroDivisionError': lambda: 1 // 0,
        'OverflowError': raiser(OverflowError), 'MemoryError': raiser(MemoryError), 'EOFError': raiser(EOFError),
        'LookupError': raiser(LookupError), 'StopIteration': lambda: next(iter(())),
        'UnicodeDecodeError': lambda: b'\xff'.decode('utf-8'), 'JSONDecodeError': lambda: _json.loads('{'),
        'UnpicklingError': raiser(pickle.UnpicklingError), 'CalledProcessError': failing_cmd,
        'TimeoutExpired': raiser(subprocess.TimeoutExpired, 'cmd', 1), 'Exception': raiser(Exception),
        'HookError': raiser(HookError), 'HookLookupValueError': raiser(HookLookupValueError),
        'SyntaxError': lambda: compile('def (', 'restart.py', 'exec'), 'SystemError': raiser(SystemError), 'BufferError': raiser(BufferError), 'Warning': raiser(UserWarning),
        # the IOError family ("not a DLMESO job"): IOError, its aliases and subclasses
        'OSError': raiser(OSError), 'EnvironmentError': raiser(EnvironmentError), 'open-missing': open_missing,
        'open-dir': open_dir, 'open-under-file': open_under_file, 'listdir-missing': listdir_missing,
        'unsupported-io': unsupported_io, 'run-missing-exe': run_missing_exe,
        'PermissionError': raiser(PermissionError), 'FileExistsError': raiser(FileExistsError),
        'TimeoutError': raiser(TimeoutError), 'ConnectionError': raiser(ConnectionError),
        'ConnectionRefusedError': raiser(ConnectionRefusedError), 'BrokenPipeError': raiser(BrokenPipeError),
        'BlockingIOError': raiser(BlockingIOError), 'InterruptedError': raiser(InterruptedError),
        'ChildProcessError': raiser(ChildProcessError), 'ProcessLookupError': raiser(ProcessLookupError),
        'socket.timeout': raiser(socket.timeout), 'socket.gaierror': raiser(socket.gaierror),
        'shutil.Error': raiser(_shutil.Error), 'SameFileError': raiser(_shutil.SameFileError),
        'HookIOError': raiser(HookIOError),
    }
    classes = {}
    for key in sorted(acts):
        try:
            acts[key]()
        except Exception as error:
            classes[key] = type(error)
        else:
            raise RuntimeError('verif C12: raise action %s does not raise' % key)
    return acts, classes


RAISE_ACTIONS, RAISE_CLASS = _raise_actions()
RAISE_MRO = {k: [c.__name__ for c in RAISE_CLASS[k].__mro__] for k in RAISE_CLASS}
RAISE_IO = sorted(k for k in RAISE_CLASS if issubclass(RAISE_CLASS[k], IOError))
RAISE_OTHER = sorted(k for k in RAISE_CLASS if not issubclass(RAISE_CLASS[k], IOError))
RAISE_IMPORT = sorted(k for k in RAISE_CLASS if issubclass(RAISE_CLASS[k], ImportError))
# hook answers that refuse the restart (Engine.restart's documented protocol): once such a hook has been consulted
# the task must not be started again
REFUSING = ('HNotRequired', 'HNotPossible', 'HFailed', 'HCondNotMet', 'HFalse', 'HRaiseOther')


def hook_refuses(h):
    if h.startswith('HRaise:'):
        return not issubclass(RAISE_CLASS[h[7:]], IOError)
    return h in REFUSING


def load_broken(h):
    """'HLoad:<key>': the hook module raises <key> while it is imported / 'HLoad:no-restart': it defines no Restart.
    Broken = not one of the two exceptions that mean 'the package has no such hook' (ImportError, IOError)"""
    if not h.startswith('HLoad:'):
        return False
    return h == 'HLoad:no-restart' or not issubclass(RAISE_CLASS[h[6:]], (ImportError, IOError))


LOADS = ['HLoad:' + k for k in sorted(RAISE_CLASS)] + ['HLoad:no-restart']


def coq_hook(h, reason='Success'):
    if h.startswith('HRaise:'):
        return '(raise_out %s)' % clist([cstr(n) for n in RAISE_MRO[h[7:]]])
    if h == 'HLoad:no-restart':
        return '(hook_after_load LoadNoRestart %s HJunk)' % reason
    if h.startswith('HLoad:'):
        return '(hook_after_load (LoadRaises %s) %s HJunk)' % (clist([cstr(n) for n in RAISE_MRO[h[6:]]]), reason)
    return h


class _Obj(object):
    pass


class FakeTask(object):
    """what a back-end task is to the engine: alive until wait() returns, then it reports returncode / exitReason /
    status; the exit reason is the oracle input of the exit"""
    def __init__(self, drv, reason):
        import experiment.utilities.data
        self.drv = drv
        self.reason = reason
        self.returncode = None
        self.exitReason = None
        self.schedulerId = 'verif'
        self.status = 'running'
        self.waits = 0
        self.kills = 0
        self._alive = True
        self.performanceInfo = experiment.utilities.data.Matrix()

    def wait(self):
        self.waits += 1
        self.drv.now_ms += 1000
        self.returncode = 0 if self.reason == 'Success' else 1
        self.exitReason = self.reason
        self.status = 'finished' if self.reason == 'Success' else 'failed'
        self._alive = False

    def isAlive(self):
        return self._alive

    def kill(self):
        self.kills += 1

    def poll(self):
        return self.returncode


class Driver(object):
    def __init__(self):
        import datetime as _dt
        import threading
        import reactivex
        import reactivex.scheduler
        import reactivex.subject
        import experiment.runtime.engine as E
        import experiment.runtime.control as C
        import experiment.runtime.workflow as W
        import experiment.runtime.monitor as M
        import experiment.runtime.errors as ERR
        self.E, self.C, self.W, self.M, self.ERR = E, C, W, M, ERR
        self.threading = threading
        self.threads0 = threading.active_count()
        self.tmp = tempfile.mkdtemp(prefix='verif_c12_')
        os.makedirs(os.path.join(self.tmp, 'hooks'))
        os.makedirs(os.path.join(self.tmp, 'wd'))
        for name in ('restart.py', 'named.py'):
            open(os.path.join(self.tmp, 'hooks', name), 'w').write(HOOK_MODULE)
        self.runs = [0]
        self.run_ok = [True]
        self.stable = [True]
        self.pending = []       # start signals of run() calls whose launch has not happened yet
        self.launch = None      # (reason, kind) of the next launch
        self.tasks = []         # tasks / failed launches of the current case
        self.now_ms = 0
        self.hook_calls = []    # per handled exit of the last case: calls of the package's restart hook
        builtins._verif_c12_raise = RAISE_ACTIONS
        drv = self

        # ---- the real Engine.run(), made synchronous ----------------------------------------------------------
        # thread pools -> immediate scheduler (Engine.__init__ creates the pools only when these are None)
        self._saved_pools = (E.Engine.enginePoolScheduler, E.Engine.triggerPoolScheduler, E.Engine.taskPoolScheduler)
        imm = reactivex.scheduler.ImmediateScheduler()
        E.Engine.enginePoolScheduler = E.Engine.triggerPoolScheduler = E.Engine.taskPoolScheduler = imm
        self._saved_mods = (E.reactivex, E.op, E.datetime)
        # reactivex.interval (periodic state emission) / reactivex.timer would start timer threads: never emit
        rx = types.SimpleNamespace(**{k: getattr(E.reactivex, k) for k in dir(E.reactivex) if not k.startswith('__')})
        real_never = E.reactivex.never
        rx.interval = lambda *a, **k: real_never()
        rx.timer = lambda *a, **k: real_never()
        E.reactivex = rx
        # op.delay(ENGINE_LAUNCH_DELAY_SECONDS) schedules on a timer thread: the start signal is not delayed
        opn = types.SimpleNamespace(**{k: getattr(E.op, k) for k in dir(E.op) if not k.startswith('__')})
        opn.delay = lambda *a, **k: (lambda source: source)
        E.op = opn
        # a clock that advances only while a task runs (FinalisePerformanceInfo divides by the task's run time)
        epoch = _dt.datetime(2030, 1, 1)

        class FakeDT(_dt.datetime):
            @classmethod
            def now(cls, tz=None):
                return epoch + _dt.timedelta(milliseconds=drv.now_ms)
        E.datetime = types.SimpleNamespace(datetime=FakeDT, timedelta=_dt.timedelta, date=_dt.date, time=_dt.time)

        self._orig_run = E.Engine.run
        orig_run = E.Engine.run

        def run(eng, *a, **k):
            """Engine.run with the oracle 'run() raises' and a start signal the harness fires later (in production
            a 1 s timer: the launch happens after the caller - Engine.restart, the controller - has returned)"""
            if not self.run_ok[0]:
                raise RuntimeError('verif: run() fails')
            self.runs[0] += 1
            start = reactivex.subject.Subject()
            self.pending.append(start)
            return orig_run(eng, startObservable=start)
        E.Engine.run = run

        def generator(job, *a, **k):
            reason, kind = self.launch
            self.launch = None
            if kind == 'os':
                self.tasks.append(None)
                raise OSError('verif: launch fails')
            if kind == 'launch':
                self.tasks.append(None)
                raise ERR.JobLaunchError('verif: launch fails', ValueError('verif'))
            if kind == 'other':
                self.tasks.append(None)
                raise ValueError('verif: launch fails')
            t = FakeTask(self, reason)
            self.tasks.append(t)
            return t
        self.generator = generator

        C.time.sleep = lambda s: None
        M.MonitorExceptionTracker.defaultTracker().isSystemStable = lambda *a, **k: self.stable[0]
        M.MonitorExceptionTracker.defaultTracker().printStatus = lambda *a, **k: None

        class FakeThread(object):
            def __init__(s, *a, **k):
                pass

            def start(s):
                pass
        self._orig_thread = E.threading.Thread
        self.FakeThread = FakeThread

        W_ = W

        class CS(W_.ComponentState):
            def __init__(s, engine, job):
                s._engine = engine
                s._specification = job
                s._finishedCalled = False
                s.controllerState = None
                s.log = logging.getLogger('verif.cs')
                s.repeatingDisposable = None
                s.finals = []

            def finish(s, st):
                s.finals.append(st)
                return W_.ComponentState.finish(s, st)
        self.CS = CS
        ctl = C.Controller.__new__(C.Controller)
        ctl.log = logging.getLogger('verif.ctl')
        ctl._max_resubmission_attempts = 5
        ctl.stage = lambda: types.SimpleNamespace(index=0)
        self.ctl = ctl

    def close(self):
        E = self.E
        E.Engine.run = self._orig_run
        E.Engine.enginePoolScheduler, E.Engine.triggerPoolScheduler, E.Engine.taskPoolScheduler = self._saved_pools
        E.reactivex, E.op, E.datetime = self._saved_mods
        shutil.rmtree(self.tmp, ignore_errors=True)
        leaked = self.threading.active_count() - self.threads0
        if leaked > 4:
            raise RuntimeError('verif C12 driver: %d threads were started and are still alive - the engine under test '
                               'schedules work on threads the harness does not control' % leaked)

    def job(self, cfg, wd=None):
        j = _Obj()
        j.reference = 'stage0.comp'
        j.name = 'comp'
        j.type = 'simulator' if cfg['is_sim'] else 'local'
        j.directory = wd or os.path.join(self.tmp, 'wd')
        # HandleTaskExit writes component_performance.csv there on every task exit and tolerates that it cannot
        # (IOError): only the CONTROL-file cases get a writable place, the bulk of the cases does no file I/O per exit
        j.workingDirectory = types.SimpleNamespace(path=j.directory if wd else os.path.join(j.directory, 'absent'))
        j.stageIndex = 0
        inst = self.tmp
        if not cfg['hook_loadable']:
            inst = os.path.join(self.tmp, 'nohooks')
        j.workflowGraph = types.SimpleNamespace(rootStorage=types.SimpleNamespace(instancePath=inst))
        j.customAttributes = {'sim_restart': 'yes' if cfg['sim_restart'] else 'no'}
        j.executable = 'ls'
        j.arguments = ''
        j.isRepeat = cfg['is_rep']
        j.isMigratable = False
        j.identification = types.SimpleNamespace(identifier='stage0.comp')
        wa = {'restartHookOn': list(cfg['hook_on']), 'shutdownOn': list(cfg['shutdown_on']),
              'repeatRetries': 3, 'optimizer': {'disable': True}}
        if cfg['max_restarts'] != 'absent':
            wa['maxRestarts'] = cfg['max_restarts']
        hf = cfg['hook_file']
        if hf == 'HFNone':
            wa['restartHookFile'] = None
        elif hf == 'HFEmpty':
            wa['restartHookFile'] = ''
        else:
            wa['restartHookFile'] = 'named.py'
        j.workflowAttributes = wa
        j.repeatInterval = lambda: 5.0
        j.producerInstances = []
        j.flowir_description = {'variables': {}}
        j.producersHaveOutputSinceDate = lambda d: False
        return j

    def view(self, eng):
        """what the controller can read off an ordinary engine (real methods on the real attributes)"""
        inst = eng.__dict__.pop('exitReason', None)     # the frozen exit reason of a failed run(), see run_case
        try:
            return (eng.exitReason(), eng.returncode(), bool(eng.isAlive()), eng.process is not None,
                    eng._taskLaunched is not None, eng._taskFinished is not None)
        finally:
            if inst is not None:
                eng.exitReason = inst

    def fresh_view(self, cfg):
        return self.view(self.E.Engine(self.job(cfg), taskGenerator=lambda *a, **k: None))

    def task_exit(self, eng, reason, kind):
        """the launch a successful run() has scheduled happens now: the REAL LaunchTask .. HandleTaskExit chain runs,
        the fake task exits with `reason` (or the generator raises).  Returns None or what went wrong."""
        if len(self.pending) != 1:
            return 'EXC:%d launches are pending when one task is due' % len(self.pending)
        start = self.pending.pop()
        self.launch = (reason, kind)
        n0 = len(self.tasks)
        try:
            start.on_next(0)
            start.on_completed()
        except Exception as error:
            return 'EXC:the launch raised %s' % type(error).__name__
        if len(self.tasks) != n0 + 1:
            return 'EXC:the task generator was called %d times by one launch' % (len(self.tasks) - n0)
        t = self.tasks[-1]
        if t is not None and (t.waits != 1 or t.kills != 0):
            return 'EXC:the task was waited for %d times and killed %d times' % (t.waits, t.kills)
        if eng.exitReason() is None:
            return 'EXC:the engine recorded no exit reason for a task that has exited'
        return None

    def run_case(self, cfg, hist, wd=None):
        """returns (list of (code, restarts, resub), final or None, list of engine views)"""
        E = self.E
        job = self.job(cfg, wd)
        del self.pending[:]
        del self.tasks[:]
        del self.hook_calls[:]
        if cfg['is_rep']:
            eng = E.RepeatingEngine(job, taskGenerator=lambda *a, **k: None)
        else:
            eng = E.Engine(job, taskGenerator=self.generator)
        cs = self.CS(eng, job)
        obs = []
        views = []
        final = None
        codes = {'RestartInitiated': 'Initiated', 'RestartNotRequired': 'NotRequired',
                 'RestartCouldNotInitiate': 'CouldNotInitiate', 'RestartMaxAttemptsExceeded': 'MaxAttemptsExceeded'}
        got = {}
        orig = self.ctl._restartComponent.__func__

        def spy(ctl_self, component, exitReason=None, returncode=None):
            r = orig(ctl_self, component, exitReason=exitReason, returncode=returncode)
            got['code'] = r
            return r
        self.ctl._restartComponent = types.MethodType(spy, self.ctl)
        E.threading.Thread = self.FakeThread
        try:
            if not cfg['is_rep'] and hist:
                # the component is started (ComponentState.run -> Engine.run)
                self.run_ok[0] = True
                eng.run()
            for ev in hist:
                reason, hook, stable, run_ok = ev[:4]
                builtins._verif_c12_hook = hook
                self.stable[0] = stable
                self.run_ok[0] = run_ok
                if cfg['is_rep']:
                    # repeating engine: the exit reason is the oracle (RepeatingEngine.exitReason is a function of its
                    # monitor loop, which C13 drives); it has no re-submission counter to maintain
                    eng.exitReason = (lambda r=reason: r)
                else:
                    # the task launched by the last run() exits: the real engine records the reason
                    bad = self.task_exit(eng, reason, ev_kind(ev))
                    if bad is not None:
                        obs.append((bad, eng.restarts, eng.resubmissionAttempts()))
                        views.append(self.view(eng))
                        break
                    if not run_ok:
                        # run() is going to raise inside Engine.restart, after the engine has been reset: keep what
                        # the real engine recorded readable so that the final state is delivered to a dead engine
                        eng.exitReason = (lambda r=eng.exitReason(): r)
                runs0 = self.runs[0]
                got.clear()
                builtins._verif_c12_calls = 0
                builtins._verif_c12_loads = 0
                try:
                    self.ctl.postMortemCheck({}, cs)
                    code = codes.get(got.get('code'), 'EXC:%s' % got.get('code'))
                except Exception as error:     # postMortemCheck itself must not raise
                    code = 'EXC:postMortemCheck raised %s' % type(error).__name__
                obs.append((code, eng.restarts, eng.resubmissionAttempts()))
                self.hook_calls.append((builtins._verif_c12_calls, builtins._verif_c12_loads))
                if not cfg['is_rep']:
                    views.append(self.view(eng))
                started = self.runs[0] - runs0
                if cfg['is_rep']:
                    started = 1 if code == 'Initiated' else 0
                elif started != len(self.pending):
                    started = -1
                if (code == 'Initiated') != (started == 1):
                    obs[-1] = ('RUNCOUNT:%s:%d' % (code, started), eng.restarts, eng.resubmissionAttempts())
                if code != 'Initiated':
                    final = cs.finals[-1] if cs.finals else 'NONE'
                    if len(cs.finals) != 1 or not eng.isShutdown:
                        final = 'BAD:%s:%s' % (cs.finals, eng.isShutdown)
                    break
                if cs.finals:
                    final = 'EARLY:%s' % cs.finals
                    break
        finally:
            E.threading.Thread = self._orig_thread
            del self.ctl._restartComponent
            del self.pending[:]
        return obs, final, views


# ------------------------------------------------------------------ Coq printing
def coq_cfg(c):
    mr = c['max_restarts']
    return ('{| max_restarts := %s; hook_file := %s; hook_loadable := %s; hook_on := %s; is_sim := %s; '
            'sim_restart := %s; is_rep := %s; shutdown_on := %s |}' % (
                'None' if mr in (None, 'absent') else '(Some %s)' % cZ(mr), c['hook_file'], cbool(c['hook_loadable']),
                clist(c['hook_on']), cbool(c['is_sim']), cbool(c['sim_restart']), cbool(c['is_rep']),
                clist(c['shutdown_on'])))


def coq_launch(ev):
    k = ev_kind(ev)
    return '(TaskExits %s)' % ev[0] if k == 'task' else LAUNCH_KINDS[k]


def coq_hist(h):
    """launch history (l_ev): how each exit came about, the hook's behaviour, the stability verdict, run() outcome"""
    return clist(['{| lv_launch := %s; lv_hook := %s; lv_stable := %s; lv_run_ok := %s |}' % (
        coq_launch(ev), coq_hook(ev[1], LAUNCH_REASON.get(ev_kind(ev), ev[0])), cbool(ev[2]), cbool(ev[3])) for ev in h])


FIN = {'finished': 'Finished', 'component_shutdown': 'Shutdown', 'failed': 'Failed'}


def coq_obs(obs, final):
    o = clist(['(%s, %s, %s)' % (c, cZ(r), cZ(q)) for (c, r, q) in obs])
    f = 'None' if final is None else '(Some %s)' % FIN[final]
    return '(%s, %s)' % (o, f)


def coq_view(v):
    ex, rc, alive, proc, la, fi = v
    return '(%s, %s, %s, %s, %s, %s)' % ('None' if ex is None else '(Some %s)' % ex,
                                         'None' if rc is None else '(Some %s)' % cZ(rc),
                                         cbool(alive), cbool(proc), cbool(la), cbool(fi))


def coq_cf(cf):
    """CONTROL file: None (cannot be opened) or (lines, last line has its newline)"""
    if cf is None:
        return 'None'
    return '(Some {| cf_lines := %s; cf_last_nl := %s |})' % (clist([cstr(x) for x in cf[0]]), cbool(cf[1]))


def coq_dl_hist(h):
    return clist(['{| dl_reason := %s; dl_stable := %s; dl_run_ok := %s |}' % (r, cbool(s), cbool(o)) for (r, s, o) in h])


# ------------------------------------------------------------------ the DLMESO CONTROL-file hook
def write_control(wd, cf):
    """cf: None (no file), 'dir' (a directory: open() raises IsADirectoryError, an IOError) or (lines, last_nl)"""
    p = os.path.join(wd, 'CONTROL')
    if cf is None:
        return
    if cf == 'dir':
        os.makedirs(p)
        return
    lines, nl = cf
    with open(p, 'w') as f:
        f.write('\n'.join(lines) + ('\n' if (nl and lines) else ''))


def read_control(wd):
    p = os.path.join(wd, 'CONTROL')
    if not os.path.isfile(p):
        return None
    c = open(p).read()
    if c == '':
        return ([], False)
    lines = c.split('\n')
    if c.endswith('\n'):
        lines.pop()
        return (lines, True)
    return (lines, False)


def canon_cf(cf):
    return None if cf in (None, 'dir') else (list(cf[0]), bool(cf[1]))


CONTROL_LINES = ['steps 100', 'restart', 'finish', '', 'temp 1.0', 'restart ', 'close time 10.0']


def gen_control(rng):
    x = rng.random()
    if x < 0.12:
        return None
    if x < 0.18:
        return 'dir'
    n = rng.choice([0, 1, 1, 2, 2, 3, 3, 4, 5])
    lines = [rng.choice(CONTROL_LINES) for _ in range(n)]
    if n >= 2 and rng.random() < 0.3:
        lines[-2] = 'restart'
    nl = rng.random() < 0.7
    if not lines:
        nl = False
    elif lines[-1] == '':
        nl = True       # a last line that is empty and unterminated does not exist
    return (lines, nl)


def call_dlmeso(E, wd, reason, restarts):
    try:
        r = E.DLMESORestart(workingDirectory=wd, restarts=restarts, componentName='comp',
                            log=logging.getLogger('verif.dlmeso'), exitReason=reason, exitCode=1)
    except IOError:
        return 'HRaiseIO'
    except Exception:
        return 'HRaiseOther'
    if r is True:
        return 'HTrue'
    if r is False:
        return 'HFalse'
    return 'HJunk'


# ------------------------------------------------------------------ property predicate on impl outputs
def eff_max(cfg):
    mr = cfg['max_restarts']
    if mr in (None, 'absent'):
        return -1 if cfg['hook_file'] == 'HFNamed' else 3
    return mr


def predicate(ctx, cfg, hist, obs, final, views=(), fresh=None, extra=None, calls=()):
    cls = []
    case = dict(extra or {}, cfg=cfg, hist=hist, obs=obs, final=final)
    # a restart hook that was consulted and refused - by its answer or by failing (raising anything but the IOError
    # that means 'not a DLMESO job') - is obeyed: the task is not started again (C12_hook_power / C12_raising_hook)
    for ev, (code, _, _), (n, loads) in zip(hist, obs, calls):
        if loads >= 1 and code == 'Initiated' and load_broken(ev[1]):
            ctx.fail(case, 'task started again although the restart hook of the package is broken (%s while it is loaded, '
                           'exit reason %s): only a hook that cannot be imported (ImportError / IOError) is a missing hook' % (
                               ev[1][6:], ev[0]), cls)
        if n > 1:
            ctx.fail(case, 'the restart hook was called %d times for one exit' % n, cls)
        if n >= 1 and code == 'Initiated' and hook_refuses(ev[1]):
            what = ev[1]
            if what.startswith('HRaise:'):
                what = 'raising %s' % RAISE_CLASS[what[7:]].__name__
            ctx.fail(case, 'task started again although the restart hook that was consulted refused the restart '
                           '(%s, exit reason %s): a failed / refusing hook means the component gets its final state' % (
                               what, ev[0]), cls)
    cont = 0
    consec = 0
    for ev, (code, restarts, resub) in zip(hist, obs):
        reason = ev[0]
        if reason == 'Success':
            consec = 0
        if code == 'Initiated':
            if reason not in cfg['hook_on'] and reason != 'SubmissionFailed':
                ctx.fail(case, 'task restarted after an exit reason (%s) that is neither listed as restartable nor a failed submission' % reason, cls)
            if reason in ('Killed', 'Cancelled'):
                ctx.fail(case, 'task restarted after %s' % reason, cls)
            if reason == 'SubmissionFailed':
                consec += 1
            else:
                cont += 1
        elif not code in ('NotRequired', 'CouldNotInitiate', 'MaxAttemptsExceeded'):
            ctx.fail(case, 'unexpected outcome of postMortemCheck: %s' % code, cls)
    mx = eff_max(cfg)
    if cfg['is_rep']:
        if cont > 1:
            ctx.fail(case, 'repeating engine restarted more than once', cls)
    elif mx != -1 and cont > max(0, mx):
        ctx.fail(case, 'number of restarts %d exceeds the maximum %d' % (cont, mx), cls)
    if consec > 5:
        ctx.fail(case, 'more than five consecutive re-submissions (%d)' % consec, cls)
    # the engine's own counter: monotone, never reset, performed restarts <= counter <= maximum
    prev = 0
    for (code, restarts, resub) in obs:
        if restarts < prev:
            ctx.fail(case, 'the restart counter of the engine went down (%d -> %d)' % (prev, restarts), cls)
        prev = restarts
    if obs:
        last = obs[-1][1]
        if not (cont <= last <= cont + 1):
            ctx.fail(case, 'engine.restarts (%d) does not account for the %d restarts performed' % (last, cont), cls)
        cap = 1 if cfg['is_rep'] else (None if mx == -1 else max(0, mx))
        if cap is not None and last > cap:
            ctx.fail(case, 'engine.restarts (%d) passed the maximum (%d)' % (last, cap), cls)
    total = sum(1 for o in obs if o[0] == 'Initiated')
    if 'Success' not in cfg['hook_on'] and not cfg['is_rep'] and mx != -1 and total > max(0, mx) + 5:
        ctx.fail(case, 'task started again %d times, more than maximum + 5 = %d' % (total, max(0, mx) + 5), cls)
    if obs and obs[-1][0] != 'Initiated':
        r = hist[len(obs) - 1][0]
        want = 'finished' if r == 'Success' else ('component_shutdown' if r in cfg['shutdown_on'] else 'failed')
        if final != want:
            ctx.fail(case, 'after a refused restart the component did not receive its final state (%s, expected %s)' % (final, want), cls)
    # a restarted (ordinary) engine looks like a freshly built one to the controller
    for (code, _, _), v in zip(obs, views):
        if code == 'Initiated' and fresh is not None and tuple(v) != tuple(fresh):
            ctx.fail(case, 'after an initiated restart the engine differs from a fresh one: %s vs %s' % (v, fresh), cls)


# ------------------------------------------------------------------ generation
HOOK_ON_SETS = [['ResourceExhausted'], ['ResourceExhausted', 'KnownIssue'], ['SubmissionFailed'],
                [], ['KnownIssue', 'SystemIssue', 'UnknownIssue', 'Success'], ['SubmissionFailed', 'ResourceExhausted']]


def gen_cfg(rng):
    return {
        'max_restarts': rng.choice(['absent', None, -1, 0, 1, 2, 3, 5]),
        'hook_file': rng.choice(['HFNone', 'HFEmpty', 'HFNamed']),
        'hook_loadable': rng.random() < 0.6,
        'hook_on': rng.choice(HOOK_ON_SETS),
        'is_sim': rng.random() < 0.2,
        'sim_restart': rng.random() < 0.7,
        'is_rep': rng.random() < 0.15,
        'shutdown_on': rng.choice([[], ['KnownIssue'], ['ResourceExhausted', 'Killed']]),
    }


def gen_hist(rng, cfg, n):
    h = []
    pool = list(cfg['hook_on']) * 3 + ['SubmissionFailed'] * 3 + REASONS
    for _ in range(n):
        ev = (rng.choice(pool), rng.choice(HOOKS + ['HPossible'] * 6), rng.random() < 0.75, rng.random() < 0.95)
        if rng.random() < 0.06:
            # the hook module fails while it is imported (or has no Restart): it is never called
            ev = (ev[0], rng.choice(LOADS)) + ev[2:]
        if ev[1] in ('HRaiseIO', 'HRaiseOther') and rng.random() < 0.85:
            # a raising hook raises SOMETHING: draw the exception (same side of the IOError divide as the bare outcome)
            ev = (ev[0], 'HRaise:' + rng.choice(RAISE_IO if ev[1] == 'HRaiseIO' else RAISE_OTHER)) + ev[2:]
        # how the exit comes about: mostly reported by the launched task (as LSF / Kubernetes report a failed
        # submission), sometimes by the launch itself raising (ordinary engines only)
        x = rng.random()
        if not cfg['is_rep'] and x < 0.3:
            if ev[0] == 'SubmissionFailed':
                ev = ev + ('os' if x < 0.15 else 'launch',)
            elif ev[0] == 'UnknownIssue':
                ev = ev + ('other',)
        h.append(ev)
    return h


def resubmission_family(rng, tier):
    """long runs of failed submissions - the cap of five consecutive re-submissions is a property of histories of
    length >= 6, which the small-scope tree does not reach: k failed submissions in a row reported by the launched
    task / by the launch raising / mixed, with and without a Success in between (Success listed as restartable, so
    that the component lives on and the count starts again), for several configurations"""
    base = {'max_restarts': 'absent', 'hook_file': 'HFNone', 'hook_loadable': False, 'hook_on': ['ResourceExhausted'],
            'is_sim': False, 'sim_restart': False, 'is_rep': False, 'shutdown_on': []}
    cfgs = [base, dict(base, hook_on=['SubmissionFailed'], max_restarts=-1),
            dict(base, hook_on=['SubmissionFailed', 'ResourceExhausted'], max_restarts=0),
            dict(base, hook_on=['KnownIssue', 'SystemIssue', 'UnknownIssue', 'Success'], hook_file='HFNamed', hook_loadable=True),
            dict(base, hook_on=['Success', 'SubmissionFailed'], max_restarts=5, hook_file='HFEmpty', hook_loadable=True),
            dict(base, is_sim=True, sim_restart=True, hook_on=['SubmissionFailed', 'Success'], max_restarts=2)]

    def sf(kind='task', ok=True):
        ev = ('SubmissionFailed', 'HPossible', True, ok)
        return ev if kind == 'task' else ev + (kind,)
    succ = ('Success', 'HPossible', True, True)
    re_ = ('ResourceExhausted', 'HPossible', True, True)
    out = []
    for cfg in cfgs:
        for k in (5, 6, 7, 9):
            out.append((cfg, [sf()] * k))
            out.append((cfg, [sf('launch')] * k))
            out.append((cfg, [sf(('task', 'os', 'task', 'launch')[i % 4]) for i in range(k)]))
        for a in (1, 3, 5):
            out.append((cfg, [sf()] * a + [succ] + [sf()] * 7))
            out.append((cfg, [sf()] * a + [re_] + [sf()] * 7))
            out.append((cfg, [sf()] * a + [sf('os')] + [succ] + [sf('launch')] * 2 + [sf()] * 5))
        out.append((cfg, [sf()] * 4 + [sf(ok=False)]))
        for _ in range(4 if tier == 'quick' else 40):
            n = rng.randint(6, 14)
            pool = [sf(), sf(), sf(), sf('os'), sf('launch'), succ, re_]
            out.append((cfg, [rng.choice(pool) for _ in range(n)]))
    return out


def raise_family(rng, tier):
    """the hook of the package is importable but RAISES when it is called, for every exception of RAISE_ACTIONS (the
    import family of a lazily importing hook, programming / data errors, the IOError family): default hook file with
    the default budget, a named hook file without maximum (unlimited budget), a small explicit budget, and the
    configurations in which the package's hook is not the one consulted; runs of the same listed exit reason long
    enough to tell 'refused at the first exit' from 'restarted until the budget is used up' from 'restarted for ever';
    plus a raising exit between two exits the hook allows"""
    base = {'max_restarts': 'absent', 'hook_file': 'HFNone', 'hook_loadable': True,
            'hook_on': ['ResourceExhausted', 'KnownIssue'], 'is_sim': False, 'sim_restart': False, 'is_rep': False,
            'shutdown_on': []}
    named = dict(base, hook_file='HFNamed')
    others = [dict(named, max_restarts=1), dict(base, hook_file='HFEmpty'), dict(base, hook_loadable=False),
              dict(named, max_restarts=-1, shutdown_on=['KnownIssue']), dict(base, max_restarts=None, hook_on=['KnownIssue']),
              dict(named, is_sim=True, sim_restart=False, hook_on=['SystemIssue', 'ResourceExhausted'])]
    out = []
    for i, key in enumerate(sorted(RAISE_CLASS)):
        hk = 'HRaise:' + key
        out.append((base, [('ResourceExhausted', hk, True, True)] * 5))
        out.append((named, [('ResourceExhausted', hk, True, True)] * 7))
        c = others[i % len(others)]
        r = c['hook_on'][-1]
        out.append((c, [(r, hk, True, True)] * 3))
        out.append(((base, named)[i % 2], [('KnownIssue', 'HPossible', True, True), ('ResourceExhausted', hk, i % 3 != 0, True),
                                           ('KnownIssue', 'HTrue', True, True)]))
        # the same exception raised by the MODULE while it is imported: ImportError / IOError = no hook in the package
        # (fallback hook: vanilla restart after ResourceExhausted, refusal after KnownIssue), anything else = broken hook
        ld = 'HLoad:' + key
        out.append(((named, base)[i % 2], [('ResourceExhausted', ld, True, True)] * (7, 5)[i % 2]))
        out.append((c, [('KnownIssue', 'HPossible', True, True), (r, ld, True, True), (r, 'HPossible', True, True)]))
    for c in (base, named, others[0], others[1], others[2]):
        out.append((c, [('ResourceExhausted', 'HLoad:no-restart', True, True)] * 5))
        out.append((c, [('KnownIssue', 'HTrue', True, True), ('KnownIssue', 'HLoad:no-restart', True, True)]))
    for _ in range(20 if tier == 'quick' else 400):
        c = dict(rng.choice([base, named] + others))
        c['max_restarts'] = rng.choice(['absent', None, -1, 1, 2, 5])
        pool = ['HRaise:' + rng.choice(RAISE_IMPORT), 'HRaise:' + rng.choice(RAISE_OTHER), 'HRaise:' + rng.choice(RAISE_IO),
                rng.choice(LOADS), 'HPossible', 'HNotAvailable']
        out.append((c, [(rng.choice(c['hook_on']), rng.choice(pool), rng.random() < 0.8, rng.random() < 0.95)
                        for _ in range(rng.randint(2, 8))]))
    return out


FRESH_CFG = {'max_restarts': 'absent', 'hook_file': 'HFNone', 'hook_loadable': False, 'hook_on': ['ResourceExhausted'],
             'is_sim': False, 'sim_restart': False, 'is_rep': False, 'shutdown_on': []}


# restart-chain cases derived from an accepted configuration document (c12_config): (cfg, hist) -> the document
DOC_OF = {}


def case_key(cfg, hist):
    return json.dumps([cfg, [list(e) for e in hist]], sort_keys=True)


def explore(ctx, cases):
    drv = Driver()
    terms = []
    try:
        fresh = drv.fresh_view(FRESH_CFG)
        import collections
        queue = collections.deque(cases)
        while queue:
            item = queue.popleft()
            cfg, hist = item[0], item[1]
            obs, final, views = drv.run_case(cfg, hist)
            if len(item) > 2 and len(hist) < item[2] and len(obs) == len(hist) and all(o[0] == 'Initiated' for o in obs):
                # exhaustive family: a history goes on only while restarts are initiated (after a refusal the
                # component has its final state and further exits are not handled), so only these are extended
                for ev in item[3]:
                    queue.append((cfg, hist + [ev], item[2], item[3]))
            nontriv = sum(1 for o in obs if o[0] == 'Initiated') >= 1
            ctx.case([cfg, hist], nontriv)
            ctx.count('hist_len_%d' % min(len(hist), 13))
            for o in obs:
                ctx.count('code_' + o[0].split(':')[0])
            predicate(ctx, cfg, hist, obs, final, views, fresh, extra=DOC_OF.get(case_key(cfg, hist)),
                      calls=list(drv.hook_calls))
            malformed = any(':' in o[0] for o in obs) or (final is not None and final not in FIN) or \
                any(v[0] is not None and v[0] not in REASONS for v in views)
            if malformed:
                ctx.disagree({'cfg': cfg, 'hist': hist}, {'obs': obs, 'final': final, 'views': views}, None,
                             'C12 trace: implementation outcome not expressible in the model (engine start count / final state protocol)')
            else:
                t = cpair(cpair(cpair(coq_cfg(cfg), coq_hist(hist)), coq_obs(obs, final)),
                          cpair(clist([coq_view(v) for v in views]), coq_view(fresh)))
                terms.append((t, cfg, hist, obs, final, views))
            if nontriv:
                ctx.sample({'cfg': cfg, 'history': hist, 'observed': obs, 'final': final}, limit=4)
    finally:
        drv.close()
    bad = ctx.model_mismatches(HEADER, [t[0] for t in terms], 'check_case_launch', chunk=400)
    for k, i in enumerate(bad):
        _, cfg, hist, obs, final, views = terms[i]
        m = ctx.model_eval(HEADER, '(trace %s init_st (map to_exit_ev %s), views_l %s init_st %s)' % (
            coq_cfg(cfg), coq_hist(hist), coq_cfg(cfg), coq_hist(hist))) if k < 3 else ''
        ctx.disagree({'cfg': cfg, 'hist': hist}, {'obs': obs, 'final': final, 'views': views, 'fresh': fresh}, m,
                     'C12 trace: Engine.run/_setExitReason/postMortemCheck/Engine.restart vs Restart.Model.trace/views_l')


def explore_dlmeso(ctx, hook_cases, chain_cases):
    """hook_cases: (reason, control file); chain_cases: (cfg, control file, [(reason, stable, run_ok)])"""
    drv = Driver()
    hterms, cterms = [], []
    try:
        for k, (reason, cf) in enumerate(hook_cases):
            wd = os.path.join(drv.tmp, 'dlh%d' % k)
            os.makedirs(wd)
            write_control(wd, cf)
            ho = call_dlmeso(drv.E, wd, reason, 1)
            after = read_control(wd)
            shutil.rmtree(wd, ignore_errors=True)
            ctx.case(['dlmeso-hook', reason, cf], ho == 'HTrue')
            ctx.count('dlmeso_hook_' + ho)
            case = {'dlmeso_hook': True, 'reason': reason, 'control': cf}
            # what the property needs of a hook instance: it answers within the protocol and rewrites the
            # file only when it allows the restart
            if ho == 'HJunk':
                ctx.fail(case, 'DLMESORestart returned something that is neither a bool nor an exception', [])
            if ho != 'HTrue' and after != canon_cf(cf):
                ctx.fail(case, 'DLMESORestart changed the CONTROL file although it did not allow the restart', [])
            if ho == 'HTrue' and not (after and len(after[0]) >= 2 and after[0][-2] == 'restart'):
                ctx.fail(case, 'DLMESORestart allowed the restart without the restart keyword in CONTROL', [])
            hterms.append((cpair(cpair(reason, coq_cf(canon_cf(cf))), cpair(ho, coq_cf(after))), case, ho, after))
        for k, (cfg, cf, hist) in enumerate(chain_cases):
            wd = os.path.join(drv.tmp, 'dlc%d' % k)
            os.makedirs(wd)
            write_control(wd, cf)
            full = [(r, 'HPossible', st, ok) for (r, st, ok) in hist]
            obs, final, views = drv.run_case(cfg, full, wd=wd)
            after = read_control(wd)
            shutil.rmtree(wd, ignore_errors=True)
            nontriv = any(o[0] == 'Initiated' for o in obs)
            ctx.case(['dlmeso-chain', cfg, cf, hist], nontriv)
            ctx.count('dlmeso_chain_cases')
            case = {'dlmeso_chain': True, 'cfg': cfg, 'control': cf, 'dl_hist': hist}
            predicate(ctx, cfg, full, obs, final, extra=case)
            if any(':' in o[0] for o in obs) or (final is not None and final not in FIN):
                ctx.disagree(case, {'obs': obs, 'final': final}, None,
                             'C12 DLMESO chain: implementation outcome not expressible in the model')
                continue
            t = cpair(cpair(cpair(coq_cfg(cfg), coq_cf(canon_cf(cf))), coq_dl_hist(hist)),
                      '(%s, %s)' % (coq_obs(obs, final)[1:-1], coq_cf(after)))
            cterms.append((t, case, obs, final, after))
    finally:
        drv.close()
    bad = ctx.model_mismatches(HEADER, [t[0] for t in hterms], 'check_dlmeso_hook', chunk=400, name='dlhook')
    for k, i in enumerate(bad):
        _, case, ho, after = hterms[i]
        m = ctx.model_eval(HEADER, 'dlmeso_hook %s %s' % (case['reason'], coq_cf(canon_cf(case['control'])))) if k < 3 else ''
        ctx.disagree(case, {'answer': ho, 'control_after': after}, m, 'C12 DLMESORestart vs Restart.Model.dlmeso_hook')
    bad = ctx.model_mismatches(HEADER, [t[0] for t in cterms], 'check_dlmeso_case', chunk=400, name='dlchain')
    for k, i in enumerate(bad):
        _, case, obs, final, after = cterms[i]
        m = ctx.model_eval(HEADER, 'trace_dl %s init_st %s %s' % (
            coq_cfg(case['cfg']), coq_cf(canon_cf(case['control'])), coq_dl_hist(case['dl_hist']))) if k < 3 else ''
        ctx.disagree(case, {'obs': obs, 'final': final, 'control_after': after}, m,
                     'C12 DLMESO chain: Engine.restart with the fallback hook and a CONTROL file vs Restart.Model.trace_dl')


def dlmeso_cases(ctx):
    rng = ctx.rng
    # corpus: well-formed file, keyword already there, too short (hook fails), missing, a directory, other reason
    hook_cases = [('ResourceExhausted', (['steps 100', 'finish'], True)),
                  ('ResourceExhausted', (['steps 100', 'restart', 'finish'], True)),
                  ('ResourceExhausted', (['finish'], True)), ('ResourceExhausted', ([], False)),
                  ('ResourceExhausted', None), ('ResourceExhausted', 'dir'),
                  ('KnownIssue', (['steps 100', 'finish'], False)), ('ResourceExhausted', (['a', 'b'], False))]
    for _ in range(150 if ctx.tier == 'quick' else 1500):
        hook_cases.append((rng.choice(['ResourceExhausted'] * 12 + REASONS), gen_control(rng)))
    base = {'max_restarts': 'absent', 'hook_file': 'HFNone', 'hook_loadable': False, 'hook_on': ['ResourceExhausted'],
            'is_sim': False, 'sim_restart': False, 'is_rep': False, 'shutdown_on': []}
    re_ = ('ResourceExhausted', True, True)
    chain_cases = [(base, (['steps 100', 'finish'], True), [re_] * 5),       # keyword once, three restarts, then refused
                   (base, (['finish'], True), [re_]),                          # hook fails: IndexError
                   (base, None, [re_] * 2),
                   (dict(base, hook_file='HFEmpty', hook_loadable=True, max_restarts=1), (['a', 'b', 'c'], False), [re_] * 3)]
    for _ in range(120 if ctx.tier == 'quick' else 1500):
        cfg = gen_cfg(rng)
        if rng.random() < 0.5:
            cfg['hook_file'] = 'HFEmpty'
        else:
            cfg['hook_loadable'] = False
        if rng.random() < 0.7 and 'ResourceExhausted' not in cfg['hook_on']:
            cfg['hook_on'] = ['ResourceExhausted', 'KnownIssue']
        pool = list(cfg['hook_on']) * 3 + ['ResourceExhausted'] * 3 + ['SubmissionFailed'] + REASONS
        hist = [(rng.choice(pool), rng.random() < 0.75, rng.random() < 0.95) for _ in range(rng.randint(1, 7))]
        chain_cases.append((cfg, gen_control(rng), hist))
    return hook_cases, chain_cases


def config_stream(ctx, docs, schemas):
    out = []
    for cfg, hist, doc in c12_config.explore_config(ctx, docs, schemas, gen_cfg, gen_hist):
        DOC_OF[case_key(cfg, hist)] = doc
        out.append((cfg, hist))
    return out


def run(ctx):
    rng = ctx.rng
    ctx.rule = ('exhaustive: every history of length <= L (quick 3, thorough 4; a history is extended only while restarts are '
                'initiated - after a refusal no further exit is handled) over 8 exit reasons x {hook says possible, not required, raises} '
                'for a grid of configurations; plus the raising-hook family (every exception, raised by Restart() when called / by the hook module while it is imported, and a module without Restart, x default / named / budgeted / not-consulted hook configurations, runs of 3-7 listed exits); plus long runs of failed submissions (5-14 exits, reported by '
                'the task / launch raising / mixed, with and without a Success or a continuation restart in between); plus random '
                'configurations x random histories (length <= 12, all 11 hook behaviours, a raising hook raising one of 61 exceptions (import family of a lazily importing hook, programming / data errors, IOError aliases and subclasses; classified by the model from the MRO), stability and run() oracles, 30% of the '
                'SubmissionFailed/UnknownIssue exits produced by a failing launch); every exit of an ordinary engine goes through the '
                'real Engine.run() launch/wait/_setExitReason pipeline; plus the real DLMESORestart on generated CONTROL files and the chain '
                'with the fallback hook in a directory holding such a file; plus the configuration side: generated restartHookOn / shutdownOn '
                'lists (all 8 exit reasons, 19 other spellings, non-strings, variable references; in the component, a platform override, '
                'global / stage blueprints of two platforms, behind component / global / platform variables; either platform active) through '
                'the real FlowIRConcrete.validate and the three schema flavours vs schema_accepts, and for every accepted document '
                'restart-chain cases on the lists the real code computed, the hook answering "possible" after each listed reason and after Killed / Cancelled; non-trivial = at least one restart initiated '
                '(hook cases: restart allowed); distinct by (cfg, history) / (reason, file)')
    cases = []
    # corpus: witnesses of fixed / open findings first
    sf = {'max_restarts': -1, 'hook_file': 'HFNone', 'hook_loadable': False, 'hook_on': ['SubmissionFailed'],
          'is_sim': False, 'sim_restart': False, 'is_rep': False, 'shutdown_on': []}
    cases.append((sf, [('SubmissionFailed', 'HJunk', True, True)] * 12))
    rep = dict(sf, hook_on=['KnownIssue'], is_rep=True, max_restarts=None)
    cases.append((rep, [('ResourceExhausted', 'HJunk', False, True), ('ResourceExhausted', 'HJunk', False, True)]))
    # a hook that raises ImportError when it is called is a failed hook, not a missing one: default hook file / named
    # hook file without a maximum (fixed corpus; the family below has every other exception)
    lazy = {'max_restarts': 'absent', 'hook_file': 'HFNone', 'hook_loadable': True, 'hook_on': ['ResourceExhausted'],
            'is_sim': False, 'sim_restart': False, 'is_rep': False, 'shutdown_on': []}
    cases.append((lazy, [('ResourceExhausted', 'HRaise:lazy-import', True, True)] * 5))
    cases.append((dict(lazy, hook_file='HFNamed'), [('ResourceExhausted', 'HRaise:ImportError', True, True)] * 7))
    cases.append((dict(lazy, hook_file='HFNamed'), [('ResourceExhausted', 'HRaise:open-missing', True, True)] * 4))
    cases.append((dict(lazy, hook_file='HFNamed'), [('ResourceExhausted', 'HLoad:SyntaxError', True, True)] * 4))
    cases.append((lazy, [('ResourceExhausted', 'HLoad:lazy-import', True, True)] * 5))
    rfam = raise_family(rng, ctx.tier)
    ctx.count('raise_family', len(rfam))
    cases.extend(rfam)
    fam = resubmission_family(rng, ctx.tier)
    ctx.count('resubmission_family', len(fam))
    cases.extend(fam)
    # exhaustive small scope
    L = 3 if ctx.tier == 'quick' else 4
    grid = []
    for mr in (['absent', 0, 1, -1] if ctx.tier == 'quick' else ['absent', None, -1, 0, 1, 2]):
        for hf, ld in (('HFNone', False), ('HFNone', True), ('HFNamed', True), ('HFEmpty', True)):
            for on in HOOK_ON_SETS[:3]:
                grid.append({'max_restarts': mr, 'hook_file': hf, 'hook_loadable': ld, 'hook_on': on, 'is_sim': False,
                             'sim_restart': False, 'is_rep': False, 'shutdown_on': ['KnownIssue']})
    for gi, cfg in enumerate(grid):
        # the raising hook of the tree raises a different exception (not an IOError) in each configuration
        evs = [(r, hk, True, True) for r in REASONS
               for hk in ('HPossible', 'HNotRequired', 'HRaise:' + RAISE_OTHER[gi % len(RAISE_OTHER)])]
        for ev in evs:
            # a history continues only while restarts are initiated: explore() extends exactly those, up to length L
            cases.append((cfg, [ev], L, evs))
    ctx.exhaustive = False
    ctx.count('exhaustive_small_scope_roots', len(cases))
    nrand = 1500 if ctx.tier == 'quick' else 20000
    for _ in range(nrand):
        cfg = gen_cfg(rng)
        cases.append((cfg, gen_hist(rng, cfg, rng.randint(1, 12))))
    # the configuration side: the real FlowIR validation of restartHookOn / shutdownOn vs Restart.Config.schema_accepts;
    # the lists of every ACCEPTED document become restart-chain cases with a hook that answers "restart possible"
    cases.extend(config_stream(ctx, c12_config.documents(ctx), c12_config.schema_cases(ctx)))
    # de-duplicate the exhaustive part by effective prefix is not attempted; distinctness is counted by ctx.case
    explore(ctx, cases)
    explore_dlmeso(ctx, *dlmeso_cases(ctx))


def replay(ctx, path):
    d = json.load(open(path))
    c = d.get('case') or d.get('first', {}).get('case')

    def cf_of(x):
        return x if x in (None, 'dir') else (list(x[0]), bool(x[1]))
    if c and c.get('config_document'):
        # the document is validated again by the tree under test; the chain is driven only if it is (still) accepted
        chains = config_stream(ctx, [(c['lists'], c['shutdown'], c['platform'])], [])
        want = case_key(c['cfg'], c['hist']) if 'cfg' in c else None
        explore(ctx, [x for x in chains if want is None or case_key(*x) == want] or chains)
    elif c and c.get('config_schema'):
        config_stream(ctx, [], [(c['flavor'], c['where'], [tuple(e) for e in c['entries']])])
    elif c and c.get('dlmeso_hook'):
        explore_dlmeso(ctx, [(c['reason'], cf_of(c['control']))], [])
    elif c and c.get('dlmeso_chain'):
        explore_dlmeso(ctx, [], [(c['cfg'], cf_of(c['control']), [tuple(e) for e in c['dl_hist']])])
    elif not c or 'cfg' not in c:
        print('replay file names no input (proof/correspondence obligation): re-run ./check C12')
        return 2
    else:
        explore(ctx, [(c['cfg'], [tuple(e) for e in c['hist']])])
    for f in ctx.failures:
        print('REPRODUCED: %s' % f['what'])
    for f in ctx.disagreements:
        print('DISAGREEMENT: %s' % (f,))
    return 1 if (ctx.failures or ctx.disagreements) else 0
