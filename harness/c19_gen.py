"""C19 — measurement of the per-option translation tables of the DOSINI frontend.

Nothing in here knows which ini key belongs to which FlowIR option.  Both tables are *measured* on the
code under test (whatever PYTHONPATH points at) on every run:

* dump_table: for every option path of FlowIR.default_component_structure() (plus every path the parser
  was seen to produce) a component that sets only that option to typed sentinels is passed through the
  real writers (Dosini._flowir_component_to_dict = _comp_command_to_dict, _comp_executors_to_str,
  _comp_resource_manager_to_str, _comp_resource_request_to_dict, _comp_workflow_attributes_to_dict);
  the emitted ini key and the way the value was rendered (str / str().lower() / lower-cased booleans / ' '.join) are recorded.
* parse_table: for every ini key of Dosini.known_flowir_options() a one-option section is passed through
  the real Dosini.parse_component with a battery of values; the FlowIR path that received the value, the
  conversion applied (str / int / float / bool / split / memory) and any option derived on the side
  (repeat-interval also sets isRepeat) are recorded.

An option whose behaviour does not fit one of the known codecs cannot be probed: GenerationError.
The tables are printed as Gallina data (coq/Dosini/Generated.v)."""
import copy
import os

from common import cstr, cZ, cbool, clist

STRUCTURAL = ('stage', 'name', 'variables')          # encoded by file name / section name / plain entries


class GenerationError(Exception):
    pass


# ------------------------------------------------------------------ flatten / unflatten of a component
def flatten(comp):
    """component dict -> {dotted path: value}; None values are 'not set' (the writers skip them);
    executors are addressed by phase and executor name: executors.pre.lsf-dm-in.payload"""
    out = {}

    def rec(d, pre):
        for k, v in d.items():
            p = pre + (str(k),)
            if p[0] in STRUCTURAL and len(p) == 1:
                continue
            if p[0] == 'executors' and len(p) == 2:
                for ex in (v or []):
                    nm = ex.get('name', '?')
                    for kk, vv in ex.items():
                        if kk != 'name' and vv is not None:
                            out['.'.join(p + (nm, kk))] = vv
                continue
            if isinstance(v, dict):
                rec(v, p)
            elif v is not None:
                out['.'.join(p)] = v
    rec(comp, ())
    return out


def unflatten(opts, name='c', stage=0):
    comp = {'name': name, 'stage': stage}
    for path, v in opts.items():
        ks = path.split('.')
        if ks[0] == 'executors':
            phase, exname, key = ks[1], ks[2], '.'.join(ks[3:])
            lst = comp.setdefault('executors', {}).setdefault(phase, [])
            ex = [e for e in lst if e['name'] == exname]
            if not ex:
                ex = [{'name': exname}]
                lst.append(ex[0])
            ex[0][key] = v
            continue
        cur = comp
        for k in ks[:-1]:
            cur = cur.setdefault(k, {})
        cur[ks[-1]] = v
    return comp


def default_paths():
    import experiment.model.frontends.flowir as F
    d = F.FlowIR.default_component_structure()
    out = []

    def rec(x, pre):
        for k, v in x.items():
            p = pre + (k,)
            if p[0] in STRUCTURAL or p[0] == 'executors':
                continue
            if isinstance(v, dict) and v:
                rec(v, p)
            else:
                out.append('.'.join(p))
    rec(d, ())
    return out


# ------------------------------------------------------------------ probes
def _parse(key, value):
    import experiment.model.frontends.dosini as D
    import experiment.model.errors as E
    try:
        r = D.Dosini.parse_component({key: value}, 'c', 0)
    except E.InvalidValueForConstant:
        return 'error', None
    if r.get('variables'):
        return 'variable', None
    return 'ok', flatten(r)


def probe_parse():
    """-> (rows, dropped): rows = {ini key: (path, pcodec, extras)}; dropped = known keys that are recognised,
    removed from the section and stored nowhere"""
    import experiment.model.frontends.dosini as D
    rows, dropped = {}, []
    for key in sorted(D.Dosini.known_flowir_options()):
        res = {v: _parse(key, v) for v in ('7', 'true', 'a b', 'SeNT', '2.5', '%(Ref)s', '3Gi')}
        kinds = {v: r[0] for v, r in res.items()}
        if 'variable' in kinds.values():
            raise GenerationError('parse probe: known option %r is kept as a variable' % key)
        oks = {v: r[1] for v, r in res.items() if r[0] == 'ok'}
        if not oks:
            raise GenerationError('parse probe: option %r accepts none of the probe values' % key)
        if all(not o for o in oks.values()):
            dropped.append(key)
            continue
        # the path that carries the value: the one whose content differs between probes / the only one
        paths = set()
        for o in oks.values():
            paths |= set(o)
        varying = [p for p in sorted(paths) if len(set(repr(o.get(p)) for o in oks.values())) > 1]
        if len(oks) == 1:
            varying = sorted(paths) if len(paths) == 1 else varying
        if len(varying) != 1:
            raise GenerationError('parse probe: option %r stores its value under %r' % (key, varying))
        path = varying[0]
        extras = {}
        for o in oks.values():
            for p, v in o.items():
                if p != path:
                    if p in extras and extras[p] != v:
                        raise GenerationError('parse probe: %r derives a varying option %r' % (key, p))
                    extras[p] = v
        got = {v: (oks[v][path] if v in oks else None) for v in res}
        ok = lambda v: kinds[v] == 'ok'
        if ok('a b') and got['a b'] == ['a', 'b'] and got['7'] == ['7']:
            pc = 'PList'
        elif ok('a b') and got['a b'] == 'a b' and got['7'] == '7' and got['true'] == 'true':
            pc = 'PStr'
        elif not ok('a b') and ok('7') and type(got['7']) is int and got['7'] == 7 and not ok('2.5') \
                and not ok('true') and got['%(Ref)s'] == '%(Ref)s':
            pc = 'PInt'
        elif not ok('a b') and ok('7') and type(got['7']) is float and got['7'] == 7.0 and got['2.5'] == 2.5 \
                and not ok('true') and got['%(Ref)s'] == '%(Ref)s':
            pc = 'PFloat'
        elif not ok('a b') and not ok('7') and got['true'] is True and not ok('SeNT') and got['%(Ref)s'] == '%(Ref)s':
            pc = 'PBool'
        elif not ok('a b') and got['7'] == '7' and got['3Gi'] == '3Gi' and not ok('SeNT') and not ok('2.5') \
                and got['%(Ref)s'] == '%(Ref)s':
            pc = 'PMem'
        else:
            raise GenerationError('parse probe: conversion applied to %r is none of the known codecs: %r' % (key, got))
        rows[key] = (path, pc, sorted(extras.items()))
    return rows, sorted(dropped)


def _dump(path, value):
    import experiment.model.frontends.dosini as D
    try:
        out = D.Dosini._flowir_component_to_dict(unflatten({path: value}))
    except TypeError:
        return 'error', None
    # Dosini.configuration_for_stage: cfg.set(name, key, str(value)) for every value that is not None
    return 'ok', {k: str(v) for k, v in out.items() if v is not None}


def probe_dump(paths):
    """-> (rows, inexpressible): rows = {path: (ini key, dcodec)}"""
    rows, inexpr = {}, []
    for path in paths:
        res = {n: _dump(path, v) for n, v in (('s', 'SeNT'), ('i', 7), ('b', True), ('f', 2.5), ('l', ['a', 'b']))}
        outs = {n: r[1] for n, r in res.items() if r[0] == 'ok'}
        if outs and all(not o for o in outs.values()):
            inexpr.append(path)
            continue
        keys = set()
        for o in outs.values():
            keys |= set(o)
        if len(keys) != 1 or any(len(o) != 1 for o in outs.values()):
            raise GenerationError('dump probe: option %r is written under %r' % (path, sorted(keys)))
        ik = keys.pop()
        got = {n: (outs[n][ik] if n in outs else None) for n in res}
        if got['l'] == 'a b' and got['i'] is None and got['b'] is None:
            dc = 'DJoin'
        elif got['s'] == 'sent' and got['b'] == 'true' and got['i'] == '7':
            dc = 'DLower'
        elif got['s'] == 'SeNT' and got['b'] == 'true' and got['i'] == '7':
            dc = 'DBool'
        elif got['s'] == 'SeNT' and got['b'] == 'True' and got['i'] == '7' and got['f'] == '2.5':
            dc = 'DStr'
        else:
            raise GenerationError('dump probe: rendering of %r is none of the known codecs: %r' % (path, got))
        rows[path] = (ik, dc)
    return rows, sorted(inexpr)


def _string_constants(code):
    out = set()
    for c in code.co_consts:
        if isinstance(c, str):
            out.add(c)
        elif isinstance(c, (tuple, frozenset)):
            out |= set(x for x in c if isinstance(x, str))
        elif hasattr(c, 'co_consts'):
            out |= _string_constants(c)
    return out


def backend_tables():
    """{backend: names of the options Dosini.options_for_backend lists for it (required + optional)}, enumerated from the
    running code: the candidates are FlowIR.Backends and every string constant of options_for_backend / validate_component
    (the function compares its argument with literals); a candidate is a backend when FlowIR lists it or when the function
    answers something else than for an unknown name.  Nothing here knows the names."""
    import experiment.model.frontends.dosini as D
    import experiment.model.frontends.flowir as F
    cands = set(getattr(F.FlowIR, 'Backends', []))
    for fn in (D.Dosini.options_for_backend, D.Dosini.validate_component):
        cands |= _string_constants(getattr(fn, '__func__', fn).__code__)
    unknown = D.Dosini.options_for_backend('\0no such backend')
    out = {}
    for b in sorted(cands):
        if not b or len(b) > 40 or any(ch.isspace() for ch in b):
            continue
        o = D.Dosini.options_for_backend(b)
        if b in getattr(F.FlowIR, 'Backends', []) or o != unknown:
            out[b] = sorted(set(o.get('required', [])) | set(o.get('optional', [])))
    return out


def measure():
    import experiment.model.frontends.dosini as D
    prow, dropped = probe_parse()
    paths = default_paths()
    for k in sorted(prow):
        if prow[k][0] not in paths:
            paths.append(prow[k][0])
    drow, inexpr = probe_dump(paths)
    return {'dump': drow, 'parse': prow, 'dropped': dropped, 'inexpressible': inexpr, 'paths': paths,
            'known': sorted(D.Dosini.known_flowir_options()), 'backends': backend_tables()}


# ------------------------------------------------------------------ Gallina printer
def cval(v):
    if isinstance(v, bool):
        return '(VBool %s)' % cbool(v)
    if isinstance(v, int):
        return '(VInt %s)' % cZ(v)
    if isinstance(v, float):
        return '(VFlt %s)' % cstr(repr(v))
    if isinstance(v, str):
        return '(VStr %s)' % cstr(v)
    if isinstance(v, (list, tuple)) and all(isinstance(x, str) for x in v):
        return '(VList %s)' % clist(v, cstr)
    raise TypeError('cval: %r' % (v,))


def render(m):
    L = ['(* GENERATED on every run of ./check C19 by harness/c19_gen.py from the code under test.',
         '   The committed copy only lets setup.sh build the development; it is never the source of truth:',
         '   harness/c19.py re-measures both tables and rewrites this file before the proofs are built. *)',
         'From Coq Require Import String List ZArith.', 'Import ListNotations.',
         'Require Import V.Dosini.Codec.', 'Open Scope string_scope.', '',
         '(* FlowIR option path, (ini key, rendering applied by the writer) *)',
         'Definition dump_table : list drow :=', '  [']
    L.append(';\n'.join('   (%s, (%s, %s))' % (cstr(p), cstr(m['dump'][p][0]), m['dump'][p][1])
                        for p in m['paths'] if p in m['dump']))
    L += ['  ].', '', '(* ini key, (FlowIR option path, conversion applied by the reader, options derived on the side) *)',
          'Definition parse_table : list prow :=', '  [']
    L.append(';\n'.join('   (%s, (%s, %s, %s))' % (cstr(k), cstr(m['parse'][k][0]), m['parse'][k][1],
                                                     clist(m['parse'][k][2], lambda e: '(%s, %s)' % (cstr(e[0]), cval(e[1]))))
                        for k in sorted(m['parse'])))
    L += ['  ].', '', '(* Dosini.known_flowir_options(): keys removed from the section by parse_component *)',
          'Definition known_keys : list string :=', '  ' + clist(m['known'], cstr) + '.', '',
          '(* known keys that are removed and stored nowhere *)',
          'Definition dropped_keys : list string :=', '  ' + clist(m['dropped'], cstr) + '.', '',
          '(* every probed option path; those for which the writers emit nothing *)',
          'Definition option_paths : list string :=', '  ' + clist(m['paths'], cstr) + '.',
          'Definition inexpressible : list string :=', '  ' + clist(m['inexpressible'], cstr) + '.', '',
          '(* Dosini.options_for_backend(b) for every backend the code knows: the names validate_component accepts for a',
          '   component of that backend; a name that is not a known key is kept as a variable of the component *)',
          'Definition backend_options : list (string * list string) :=',
          '  ' + clist(sorted(m['backends'].items()), lambda e: '(%s, %s)' % (cstr(e[0]), clist(e[1], cstr))) + '.', '']
    return '\n'.join(L)


def regenerate(coq_dir):
    """measure, print, and (re)write coq/Dosini/Generated.v when its content differs from the measurement.
    returns (measurement or None, error text or None)"""
    target = os.path.join(coq_dir, 'Generated.v')
    try:
        m = measure()
        txt = render(m)
    except GenerationError as e:
        return None, 'GenerationError: %s' % e
    old = open(target).read() if os.path.exists(target) else None
    if old != txt:
        with open(target, 'w') as f:
            f.write(txt)
    return m, None


if __name__ == '__main__':
    import logging
    import json
    logging.disable(logging.CRITICAL)
    m = measure()
    print(json.dumps(m, indent=1, default=str))
