"""C13 — A repeating observer sees its producers' final output and then stops.
Implementation driven: a REAL RepeatingEngine (run -> EngineTaskController / schedule_next_instance,
notify_all_producers_finished, kill, isAlive, exitReason, canConsume) driven by the REAL loop of
monitor.CreateMonitor, run synchronously under a fake clock (see c13_impl.py); the REAL
Job.producersHaveOutputSinceDate runs on the duck-typed job, over ANY NUMBER of producers (each with its own
stage / repeating flag / output times). The harness scripts: when each producer writes output,
where the producers-finished notification lands between two polls, task outcomes (return code, duration, launch
failure, ResourceExhausted), external kill, expiry of the kill-after-producers-done-delay timer (between two
executions or during one)."""
import itertools
import json

from common import clist, cZ, cbool, copt, cstr, cnat
import c13_impl

PROP = 'C13'
COQ_DIR = 'Repeat'
ASSUMPTIONS = [
    'threads and timers are not modelled: the monitor loop runs synchronously; time advances only in monitor time.sleep and '
    'task.wait(); the kill-delay timer (reactivex.timer) fires when the script says so, or - timed scripts - when the fake clock '
    'has reached the moment it was armed + the delay the engine passed to reactivex.timer (checked after every clock advance, '
    'event and at the end of a task\'s wait)',
    'producer output is visible to the observer at the instant it is written (no NFS delay); output written after the '
    'producers-finished notification is excluded by hypothesis in C13_sees_final_output',
    '0 to 3 producers, duck-typed job, producer and task objects; in the engine-level scripts the script delivers the '
    'producers-finished notification; in the producer-level scripts the real ComponentState.stageIn runs (on a duck-typed '
    'ComponentState whose producers\' notifyFinished are rx Subjects, with an immediate scheduler instead of the thread pool) '
    'and delivers it, to the producers the real ComponentState.producers property finds (real DataReference objects resolved in '
    'a hand-built networkx workflow graph + loop placeholders; the real Job.producerInstances over the same graph); '
    'the optimizer-driven repeat interval is disabled; '
    'Engine.emit_now (state emission on rx pools) and archive_stream are stubbed',
    'real-producer scripts: the observer and its producers are real Job objects of an experiment instantiated from a scratch package '
    '(real JobWorkingDirectory, real Job.stageIn / StageReference, real Job.producerInstances / producersHaveOutputSinceDate); file '
    'timestamps are set to the fake clock with os.utime; directories are created with ignoreExisting=False (no experiment restart)',
    'task durations are positive (a zero duration makes _perfData_launch_succeeded divide by zero)',
]
HEADER = 'Require Import V.Repeat.Model.\nOpen Scope Z_scope.'
HEADER5 = 'Require Import V.Repeat.Model V.Repeat.Delay.\nOpen Scope Z_scope.'
HEADER4 = 'Require Import V.Repeat.Model V.Repeat.RefsModel.\nOpen Scope Z_scope.'
HEADER_WD = 'From Coq Require Import String.\nRequire Import V.Repeat.WorkDir.\nOpen Scope Z_scope.'
F13_CLASS = 'repeatRetries_below_threshold'


def O(rc=0, dur=1000, fail=False, sui=False, re=False, ntf=False):
    # ntf: the producers-finished notification arrives while THIS poll's task execution is in flight
    return {'rc': rc, 'dur': dur, 'fail': fail, 'sui': sui, 're': re, 'ntf': ntf}


def S(dt=5000, evs=(), o=None):
    return {'dt': dt, 'evs': list(evs), 'o': o or O()}


def CFG(**k):
    c = {'retries': 3, 'has_prod': True, 'same_stage': True, 'prod_rep': True, 'check_out': True, 'has_delay': False,
         'interval': 10000, 't0': 100000}
    c.update(k)
    if c.get('delay') is not None:
        c['has_delay'] = True
    return c


# the values of the variable kill-after-producers-done-delay a component may configure: strings (what a package's yaml
# usually holds) and numbers, the boundary 0 in every spelling; for scripts whose timer expires by the clock the
# values are commensurate with the poll / task times
DELAY_VALUES = ['0', 0, 0.0, '0.0', '0.5', 1, '5', '30', '30', 60.0, '2.5e1']
TIMED_DELAYS = ['0', 0, 0.0, '0.0', '0.001', '0.5', 1, '4', 5, '5.0', '7.5', 12, '26', '30', 60.0]


def pick_delay(rng, cfg, values=DELAY_VALUES):
    if cfg['has_delay']:
        cfg['delay'] = rng.choice(values)
    return cfg


def PR(same_stage=True, prod_rep=True, **where):
    # where (producer-level scripts only): stage=, name=, inst=  (see c13_impl.ref_layout)
    return dict({'same_stage': same_stage, 'prod_rep': prod_rep}, **where)


def REF(*to, **k):
    # one data reference of the observer: REF(i) absolute, REF(i, via='rel'), REF(i, j, via='loop', method='loopref')
    return {'to': list(to), 'via': k.get('via', 'abs'), 'file': k.get('file'), 'method': k.get('method', 'ref')}


def eff_retries(cfg):
    return 3 if cfg['retries'] is None else cfg['retries']


# ------------------------------------------------------------------ real producers: the model's view of a script
def RP(direct=(), comp=(), src=False, late=False):
    # one REAL producer: direct references (file under data/ or 'ABS:<file>', method), references to stage0.up
    # (file or None, method), src: a :ref reference to a same-stage non-repeating component (see c13_impl.real_refs)
    # late: not staged in before the observer starts but by the script's Stg<i> event (or by its first write)
    return {'direct': [list(x) for x in direct], 'comp': [list(x) for x in comp], 'src': bool(src), 'late': bool(late)}


def model_steps(cfg, steps):
    """what the engine model is told about a script with REAL producers: a stage-in (the script's Stg<i>, or before the
    observer starts when the script has none) is nothing, unless the producer has copyout references - those are output
    by design, i.e. a write of the producer at that moment"""
    if cfg.get('real') is None:
        return steps
    has_out = [bool(c13_impl.real_staged(rp)[1]) for rp in cfg['real']]
    scripted = {i for i, rp in enumerate(cfg['real']) if rp.get('late')}
    staged = set()
    out = []
    for k, st in enumerate(steps):
        evs = []
        if k == 0:
            evs += ['Out%d' % i for i in range(len(has_out)) if has_out[i] and i not in scripted]
        for e in st['evs']:
            if e.startswith('Stg'):
                i = int(e[3:])
                if i < len(has_out) and has_out[i] and i in scripted and i not in staged:
                    evs.append('Out%d' % i)
                staged.add(i)
            else:
                if is_out(e):
                    staged.add(int(e[3:] or 0))     # (a producer that writes has been staged in)
                evs.append(e)
        out.append(dict(st, evs=evs))
    return out


def coq_wd_case(ops):
    """the history of one real working directory (c13_impl: wd_ops) as a WorkDir.check_wd case"""
    names = lambda l: '(%s : list string)' % clist([cstr(n) for n in l])
    t = []
    for op in ops:
        if op[0] == 'stage':
            t.append('(WStage %s %s %s)' % (names(op[1]), names(op[2]), cZ(op[3])))
        elif op[0] == 'put':
            t.append('(WPut %s %s)' % (cstr(op[1]), cZ(op[2])))
        else:
            t.append('(WObs %s %s %s)' % (cZ(op[1]), names(op[2]), names(op[3])))
    return '(false, (%s : list wop))' % clist(t)


# ------------------------------------------------------------------ Coq printing
def coq_cfg(c):
    prods = clist(['{| p_same := %s; p_rep := %s |}' % (cbool(p['same_stage']), cbool(p['prod_rep']))
                   for p in c13_impl.prod_list(c)])
    return ('{| c_retries := %s; c_prods := (%s : list prod); c_check_out := %s; '
            'c_has_delay := %s; c_interval := %s; c_t0 := %s |}' % (
                copt(c['retries'], cZ), prods,
                cbool(c['check_out']), cbool(c['has_delay']), cZ(c['interval']), cZ(c['t0'])))


def is_out(ev):
    return ev.startswith('Out')


def coq_ev(ev):
    return '(Out %d)' % int(ev[3:] or 0) if is_out(ev) else ev


def coq_out(o):
    return '{| o_fail := %s; o_rc := %s; o_dur := %s; o_re := %s; o_sui := %s |}' % (
        cbool(o['fail']), cZ(o['rc']), cZ(o['dur']), cbool(o['re']), cbool(o['sui']))


def coq_steps(steps):
    out = []
    for i, st in enumerate(steps):
        out.append('(%s, (%s : list event), %s, (%s : list event))' % (
            cZ(0 if i == 0 else st['dt']), clist([coq_ev(e) for e in st['evs']]), coq_out(st['o']),
            clist(['Notify'] if st['o'].get('ntf') else [])))
    return clist(out)


def coq_obs(o):
    return ('{| b_launches := %s; b_retries := %s; b_cancel := %s; b_kc := %s; b_alive := %s; b_reason := %s; '
            'b_consume := %s; b_pf := %s; b_suicide := %s; b_ll := %s; b_actions := %s; b_lasts := %s |}' % (
                cZ(o['launches']), cZ(o['retries']), cbool(o['cancel']), cbool(o['kc']), cbool(o['alive']), o['reason'],
                cbool(o['consume']), cbool(o['pf']), cbool(o['suicide']), cZ(o['ll']), cZ(o['actions']), cZ(o['lasts'])))


def coq_pev(ev):
    if is_out(ev):
        return '(PWrite %d)' % int(ev[3:] or 0)
    if ev.startswith('Fin'):
        return '(PFinish %d)' % int(ev[3:])
    return '(PEnv %s)' % ev


def coq_case3(cfg, steps, res):
    """a producer-level script (stageIn mode): (cfg, producers alive at stageIn, script, outputs)"""
    xs = clist(['{| x_launch := %s; x_pf := %s; x_rc := %s |}' % (cZ(t), cbool(p), copt(rc, cZ))
                for (t, p, rc, _lo, _k) in res['execs']])
    sts = clist(['(%s, (%s : list pevent), %s)' % (cZ(0 if i == 0 else st['dt']), clist([coq_pev(e) for e in st['evs']]),
                                                   coq_out(st['o'])) for i, st in enumerate(steps)])
    return '(%s, (%s : list bool), %s, (%s, %s, (%s : list exec)))' % (
        coq_cfg(cfg), clist([cbool(b) for b in cfg['alive0']]), sts,
        clist([coq_obs(o) for o in res['obs']]), cbool(res['finished']), xs)


def coq_cid(stage, name):
    return '{| i_stage := %s; i_name := %s |}' % (cZ(stage), cstr(name))


def coq_graph(lay):
    """the workflow graph of a producer-level script: the producers' nodes, the unrelated components, the observer"""
    nodes = []
    for i, p in enumerate(lay['prods']):
        nodes.append('{| g_id := %s; g_comp := %s |}' % (coq_cid(p['stage'], p['name']), copt(i if p['inst'] else None, cnat)))
    for k, x in enumerate(lay['extra']):
        nodes.append('{| g_id := %s; g_comp := %s |}' % (coq_cid(x['stage'], x['name']),
                                                       copt(c13_impl.STRANGER_IDX + k if x['inst'] else None, cnat)))
    nodes.append('{| g_id := %s; g_comp := Some %s |}' % (coq_cid(c13_impl.OBS_STAGE, c13_impl.OBS_NAME), cnat(c13_impl.OBS_IDX)))
    return '(%s : list gnode)' % clist(nodes)


def coq_case4(cfg, steps, res):
    """a producer-level script with the observer's references:
    (cfg, graph, references, producers alive at stageIn, script, outputs, the implementation's producer list)"""
    lay = c13_impl.ref_layout(cfg)
    xs = clist(['{| x_launch := %s; x_pf := %s; x_rc := %s |}' % (cZ(t), cbool(p), copt(rc, cZ))
                for (t, p, rc, _lo, _k) in res['execs']])
    sts = clist(['(%s, (%s : list pevent), %s)' % (cZ(0 if i == 0 else st['dt']), clist([coq_pev(e) for e in st['evs']]),
                                                   coq_out(st['o'])) for i, st in enumerate(steps)])
    refs = '(%s : list (list cid))' % clist([clist([coq_cid(*c) for c in ids]) for ids in c13_impl.ref_ids(lay)])
    w = copt(res['w'], lambda l: '(%s : list nat)' % clist([cnat(i) for i in l]))
    return '(%s, %s, %s, (%s : list bool), %s, (%s, %s, (%s : list exec)), %s)' % (
        coq_cfg(cfg), coq_graph(lay), refs, clist([cbool(b) for b in cfg['alive0']]), sts,
        clist([coq_obs(o) for o in res['obs']]), cbool(res['finished']), xs, w)


def coq_case5(cfg, steps, res):
    """a timed script: (cfg, the option in ms or None, [(dt, events, outcome, notified during the execution)], outputs)"""
    xs = clist(['{| x_launch := %s; x_pf := %s; x_rc := %s |}' % (cZ(t), cbool(p), copt(rc, cZ))
                for (t, p, rc, _lo, _k) in res['execs']])
    sts = clist(['(%s, (%s : list event), %s, %s)' % (cZ(0 if i == 0 else st['dt']), clist([coq_ev(e) for e in st['evs']]),
                                                      coq_out(st['o']), cbool(bool(st['o'].get('ntf'))))
                 for i, st in enumerate(steps)])
    return '(%s, %s, %s, (%s, %s, (%s : list exec)))' % (
        coq_cfg(cfg), copt(c13_impl.delay_ms(cfg), cZ), sts,
        clist([coq_obs(o) for o in res['obs']]), cbool(res['finished']), xs)


def coq_case(cfg, steps, res):
    xs = clist(['{| x_launch := %s; x_pf := %s; x_rc := %s |}' % (cZ(t), cbool(p), copt(rc, cZ))
                for (t, p, rc, _lo, _k) in res['execs']])
    return '(%s, %s, (%s, %s, (%s : list exec)))' % (coq_cfg(cfg), coq_steps(steps),
                                                     clist([coq_obs(o) for o in res['obs']]), cbool(res['finished']), xs)


# ------------------------------------------------------------------ property predicate on the implementation's run
def f13_class(cfg, steps):
    """input-only class of finding F13 (FIXED - kept to label the regression): fewer than 5 retries, one repeating
    producer whose last output is not newer than the moment the observer started"""
    outs = [i for i, st in enumerate(steps) if any(is_out(e) for e in st['evs'])]
    only_before_start = bool(outs) and max(outs) == 0
    return (eff_retries(cfg) < 5 and all(p['prod_rep'] for p in c13_impl.prod_list(cfg)) and cfg['check_out']
            and bool(c13_impl.prod_list(cfg)) and only_before_start)


def predicate(ctx, cfg, steps, res):
    case = {'cfg': cfg, 'steps': steps}
    # a notification that arrives during the execution of poll i takes effect from poll i+1 on: for the predicate
    # it is a Notify at the very beginning of step i+1
    steps = [dict(st, evs=list(st['evs'])) for st in steps]
    steps_ntf = [bool(st['o'].get('ntf')) for st in steps]
    for i, st in enumerate(steps):
        if st['o'].get('ntf') and i + 1 < len(steps):
            steps[i + 1]['evs'].insert(0, 'Notify')
    obs, execs = res['obs'], res['execs']
    n = len(obs)
    if res['errors']:
        ctx.fail(case, 'driver protocol error: %s' % res['errors'][:3])
    # (0) what counts as producer output (real producers): a working directory reports output iff the producer has
    # written something after it was staged in (or has copyout references); staged-in inputs are not output
    for b in (res.get('wd_bad') or [])[:1]:
        if b['output'] != b['made']:
            ctx.fail(case, 'at poll %d the working directory of producer %d reports %s as its OUTPUT; what the producer created after it '
                           'was staged in (and its copyout references) is %s%s' % (
                               b['poll'], b['producer'], b['output'], b['made'],
                               ': staged-in inputs are taken for output' if set(b['output']) - set(b['made']) else ''))
        else:
            ctx.fail(case, 'at poll %d the working directory of producer %d reports %s as output since %d ms; the producer created %s '
                           'since then' % (b['poll'], b['producer'], b['output_since'], b['since_ms'], b['made_since']))
    # (1) never executes before there is producer output it can consume
    plist = c13_impl.prod_list(cfg)
    for (t, p, rc, los, k) in execs:
        if any(pc['same_stage'] and los[i] is None for i, pc in enumerate(plist)):
            ctx.fail(case, 'the observer executed before every producer in its stage had written output')
            break
    for i, o in enumerate(obs):
        if o['launches'] > 0 and not o['consume']:
            ctx.fail(case, 'the observer executed although it was never able to consume')
            break
    # (2) bounded stop
    R = eff_retries(cfg)
    notify_at = next((i for i in range(n) if 'Notify' in steps[i]['evs']), None)
    if notify_at is not None and R >= 0:
        a0 = obs[notify_at - 1]['actions'] if notify_at > 0 else 0
        for i in range(notify_at, n):
            if not obs[i]['cancel'] and obs[i]['actions'] - a0 > R:
                ctx.fail(case, 'after the producers finished the observer was invoked more than repeatRetries times '
                               'without stopping')
                break
        for (t, p, rc, lo, k) in execs:
            if p and rc == 0 and not obs[k]['cancel']:
                ctx.fail(case, 'a successful execution after the producers finished did not stop the observer')
                break
    # (2b) the configured kill delay: a notification delivered to a living engine arms ONE timer with the configured value -
    # whatever that value is, 0 included - and nothing else does (mirror of Model.notify / Delay.with_delay) ...
    dms = c13_impl.delay_ms(cfg)
    for nt in res.get('notified') or []:
        want = [dms] if (dms is not None and nt['alive']) else []
        try:
            got = [int(round(float(d) * 1000)) for d in nt['timers']]
        except Exception:
            got = ['?']
        if got != want:
            ctx.fail(case, 'the producers-finished notification at step %d (engine alive: %s) armed kill-delay timers %s (ms); '
                           'configured kill-after-producers-done-delay: %r -> expected %s%s' % (
                               nt['k'], nt['alive'], got, c13_impl.delay_raw(cfg), want,
                               ': the configured delay can never expire' if want and not got else ''))
            break
    # ... and once the clock has reached (first notification of a living engine) + delay the observer is cancelled
    # (timed scripts: the timer expires by the clock; mirror of Delay.kill_delay_expires)
    if cfg.get('timed') and dms is not None:
        tn = next((nt['t'] for nt in (res.get('notified') or []) if nt['alive']), None)
        if tn is not None:
            for i, o in enumerate(obs):
                if o['pf'] and o['now'] >= tn + dms and not o['cancel']:
                    ctx.fail(case, 'the configured kill-after-producers-done-delay (%r) expired %d ms after the notification '
                                   '(t=%d ms) but at poll %d (t=%d ms) the observer is not cancelled: it carries on' % (
                                       c13_impl.delay_raw(cfg), dms, tn, i, o['now']))
                    break
    for k in res['fired']:
        if k < n and not obs[k]['cancel']:
            ctx.fail(case, 'the kill-after-producers-done-delay timer expired but the observer was not cancelled')
            break
    # (timed scripts: a notification that follows a poll which launched nothing can, with delay 0, cancel the engine AFTER
    #  that poll's monitor step and before its observation: the next poll is then the monitor's last)
    late = {k for k in res['fired'] if cfg.get('timed') and k < n and steps_ntf[k] and k not in (res.get('ntf_mid') or [])}
    for i, o in enumerate(obs):
        if o['cancel'] and not (i == n - 1 and res['finished']):
            if i in late and not (i > 0 and obs[i - 1]['cancel']) and (i == n - 1 or (i + 1 == n - 1 and res['finished'])):
                continue
            ctx.fail(case, 'the observer was cancelled but its monitor went on polling')
            break
    if res['finished']:
        last = obs[-1]
        if last['alive'] or last['reason'] == 'RNone' or not last['kc'] or last['lasts'] != 1:
            ctx.fail(case, 'the monitor returned but the engine does not report itself finished')
    # (3) the final output is observed
    def out_after_notify(evs):
        seen = False
        for e in evs:
            if e == 'Notify':
                seen = True
            elif seen and is_out(e):
                return True
        return False
    frozen = notify_at is not None and not any(is_out(e) for i in range(notify_at + 1, n) for e in steps[i]['evs']) and \
        not out_after_notify(steps[notify_at]['evs'])
    written = [l for l in res['los'] if l is not None]
    if (res['finished'] and not res['kills'] and not res['fired'] and obs[-1]['consume'] and written
            and frozen and plist):
        if not any(t >= max(written) for (t, p, rc, los, k) in execs):
            # (finding F13 is repaired: no open class covers this any more)
            ctx.fail(case, 'the observer stopped by itself without having started an execution after its producers\' '
                           'last output' + (' [regression of fixed finding F13]' if f13_class(cfg, steps) else ''))
            ctx.count('final_output_missed')
        else:
            ctx.count('final_output_seen')


def check_producer_lists(ctx, cfg, used, res):
    """whom the observer waits for (mirror of C13_producer_list_complete / _exact): every living instantiated producer
    the observer references is in ComponentState.producers, nothing else is; Job.producerInstances (canConsume,
    producersHaveOutputSinceDate) is made of exactly the referenced producers"""
    case = {'cfg': cfg, 'steps': used}
    lay = c13_impl.ref_layout(cfg)
    targets = c13_impl.ref_targets(lay)
    referenced = sorted({i for to in targets for i in to})
    keys = [(p['stage'], p['name']) for p in lay['prods']]
    names = [p['name'] for p in lay['prods']] + [x['name'] for x in lay['extra']] + [c13_impl.OBS_NAME]
    if len(set(names)) < len(names):
        ctx.count('refs_name_clash_across_stages')
    if sum(len(to) for to in targets) > len(referenced):
        ctx.count('refs_duplicate_references')
    if any(not p['inst'] for p in lay['prods']):
        ctx.count('refs_uninstantiated_producer')
    if any(r['via'] == 'loop' for r in lay['refs']):
        ctx.count('refs_loop_placeholder')
    if any(r['via'] == 'rel' for r in lay['refs']):
        ctx.count('refs_relative')
    w = res['w']
    if w is not None:
        missing = [keys[i] for i in referenced if lay['prods'][i]['inst'] and cfg['alive0'][i] and i not in w]
        if missing:
            ctx.fail(case, 'ComponentState.producers %s does not list the living producer(s) %s the observer references: stageIn '
                           'does not wait for them' % (w, missing))
        strange = [i for i in w if i not in referenced or not lay['prods'][i]['inst']]
        if strange:
            ctx.fail(case, 'ComponentState.producers %s lists component(s) %s the observer does not reference (or that have no '
                           'ComponentState)' % (w, strange))
    pi = res['pinst']
    nprod = len(c13_impl.prod_list(cfg))
    if any(p['loop_only'] for p in lay['prods']):
        ctx.count('refs_waited_for_through_loop_reference_only')
    if pi is not None and sorted(set(pi)) != list(range(nprod)):
        ctx.fail(case, 'Job.producerInstances %s is not made of the observer\'s %d producers: canConsume / '
                       'producersHaveOutputSinceDate look at the wrong components' % (pi, nprod))


# ------------------------------------------------------------------ exploration
def explore(ctx, cases, label='C13 trace'):
    drv = c13_impl.Driver()
    terms = []
    terms3 = []
    terms5 = []
    terms_wd = []
    try:
        for cfg, steps in cases:
            res = drv.run_case(cfg, steps)
            used = steps[:res['nsteps']]
            stagein = cfg.get('alive0') is not None
            # stageIn mode: the predicate looks at what reached the engine (writes actually made, the notification
            # delivered by the real ComponentState.stageIn subscription)
            seen = [dict(st, evs=res['eff'][i]) for i, st in enumerate(used)] if stagein else model_steps(cfg, used)
            predicate(ctx, cfg, seen, res)
            if cfg.get('real') is not None:
                ctx.count('real_producer_scripts')
                for rp, ops in zip(cfg['real'], res.get('wd_ops') or []):
                    ins, outs = c13_impl.real_staged(rp)
                    ctx.count('real_producer_%s%s%s' % ('with_staged_inputs' if ins else 'without_staged_inputs',
                                                        '' if (rp['comp'] or rp['src']) else '_no_component_reference',
                                                        '_copyout' if outs else ''))
                    terms_wd.append((coq_wd_case(ops), cfg, used, ops))
            if stagein:
                # "all of its producers have finished": the notification reaches the engine exactly when the last
                # living producer finishes (at stageIn when there is none), and at most once
                alive = list(cfg['alive0'])
                want = [0] if not any(alive) else []
                for i, st in enumerate(used):
                    for ev in st['evs']:
                        if ev.startswith('Fin') and int(ev[3:]) < len(alive) and alive[int(ev[3:])]:
                            alive[int(ev[3:])] = False
                            if not any(alive):
                                want.append(i)
                got = [i for i, st in enumerate(seen) for ev in st['evs'] if ev == 'Notify']
                if got != want:
                    ctx.fail({'cfg': cfg, 'steps': used}, 'the producers-finished notification reached the engine at steps %s; '
                             'the last living producer finished at steps %s' % (got, want))
                ctx.count('stagein_scripts')
                if any('Notify' in st['evs'] for st in seen):
                    ctx.count('stagein_notification_delivered')
                check_producer_lists(ctx, cfg, used, res)
            notified_running = any('Notify' in st['evs'] or st['o'].get('ntf') for st in seen)
            nontriv = bool(res['execs']) and notified_running
            ctx.case([cfg, used], nontriv)
            ctx.count('polls_%02d' % min(len(used), 16))
            ctx.count('finished' if res['finished'] else 'still_running_at_end_of_script')
            ctx.count('launches_%d' % min(len(res['execs']), 6))
            ctx.count('producers_%d' % len(c13_impl.prod_list(cfg)))
            for st in used:
                for ev in st['evs']:
                    ctx.count('ev_' + ('Out' if is_out(ev) else ev))
            if res['fired']:
                ctx.count('kill_delay_timer_fired')
            if cfg['has_delay']:
                z = c13_impl.delay_ms(cfg) == 0
                ctx.count('kill_delay_configured_%s' % ('zero' if z else 'positive'))
                if any(nt['alive'] for nt in res.get('notified') or []):
                    ctx.count('kill_delay_armed_%s' % ('zero' if z else 'positive'))
            if cfg.get('timed'):
                ctx.count('timed_scripts')
                if res['fired']:
                    ctx.count('timed_timer_expired_%s' % ('during_an_execution' if any(
                        k < len(used) and any(x[4] == k and x[2] is not None for x in res['execs']) for k in res['fired'])
                        else 'between_executions'))
                if res['fired'] and res.get('ntf_mid') and c13_impl.delay_ms(cfg) == 0:
                    ctx.count('timed_delay_zero_notified_and_expired_during_an_execution')
            if any(o['reason'].startswith('R?') for o in res['obs']):
                ctx.disagree({'cfg': cfg, 'steps': used}, res['obs'], None, label + ': exit reason outside the model')
                continue
            if stagein:
                terms3.append((coq_case4(cfg, used, res), cfg, used, res))
                continue
            if cfg.get('timed'):
                terms5.append((coq_case5(cfg, used, res), cfg, used, res))
                if nontriv and res['fired']:
                    ctx.sample({'cfg': cfg, 'script': [[s['dt'], s['evs'], s['o']] for s in used],
                                'timer_expired_at_steps': res['fired'], 'finished': res['finished'], 'final': res['obs'][-1]},
                               limit=6)
                continue
            terms.append((coq_case(cfg, model_steps(cfg, used), res), cfg, used, res))
            if nontriv:
                ctx.sample({'cfg': cfg, 'script': [[s['dt'], s['evs'], s['o']] for s in used],
                            'launches(time,producers_finished,rc)': [e[:3] for e in res['execs']],
                            'finished': res['finished'], 'final': res['obs'][-1]}, limit=4)
    finally:
        drv.close()
    bad = ctx.model_mismatches(HEADER, [t[0] for t in terms], 'check_case2', chunk=250)
    for k, i in enumerate(bad):
        _, cfg, used, res = terms[i]
        m = ctx.model_eval(HEADER, 'let r := run_steps2 %s (init %s) %s in (fst r, mon_done (snd r), rev (execs (snd r)))'
                           % (coq_cfg(cfg), coq_cfg(cfg), coq_steps(model_steps(cfg, used)))) if k < 2 else ''
        ctx.disagree({'cfg': cfg, 'steps': used}, {'obs': res['obs'], 'finished': res['finished'],
                                                   'execs': [e[:3] for e in res['execs']]}, m,
                     label + ': RepeatingEngine/CreateMonitor vs Repeat.Model.run_steps')
    bad = ctx.model_mismatches(HEADER5, [t[0] for t in terms5], 'check_case5', chunk=250, name='model5') if terms5 else []
    for k, i in enumerate(bad):
        _, cfg, used, res = terms5[i]
        ctx.disagree({'cfg': cfg, 'steps': used}, {'obs': res['obs'], 'finished': res['finished'],
                                                   'execs': [e[:3] for e in res['execs']], 'timer_expired_at': res['fired']}, '',
                     label + ': RepeatingEngine/CreateMonitor with the clock-driven kill-delay timer vs Repeat.Delay.trun_steps')
    bad = ctx.model_mismatches(HEADER_WD, [t[0] for t in terms_wd], 'check_wd', chunk=400, name='model_wd') if terms_wd else []
    for k, i in enumerate(bad):
        _, cfg, used, ops = terms_wd[i]
        ctx.disagree({'cfg': cfg, 'steps': used}, ops, None,
                     label + ': Job.stageIn + WorkingDirectory.output / outputSinceDate vs Repeat.WorkDir.stage_in / output / output_since')
    bad = ctx.model_mismatches(HEADER4, [t[0] for t in terms3], 'check_case4', chunk=250, name='model4') if terms3 else []
    for k, i in enumerate(bad):
        _, cfg, used, res = terms3[i]
        lay = c13_impl.ref_layout(cfg)
        m = ctx.model_eval(HEADER4, 'producers_of %s (%s : list (list cid))' % (
            coq_graph(lay), clist([clist([coq_cid(*c) for c in ids]) for ids in c13_impl.ref_ids(lay)]))) if k < 2 else ''
        ctx.disagree({'cfg': cfg, 'steps': used}, {'producers': res['w'], 'obs': res['obs'], 'finished': res['finished'],
                                                   'execs': [e[:3] for e in res['execs']], 'reached_engine': res['eff']}, m,
                     label + ': ComponentState.producers + stageIn + RepeatingEngine/CreateMonitor vs Repeat.RefsModel.producers_of / '
                             'run_steps4 (producer list and producer model)')


OUTCOME_PATTERNS = [
    lambda i: O(rc=0), lambda i: O(rc=1), lambda i: O(rc=(i + 1) % 2), lambda i: O(rc=i % 2),
    lambda i: O(rc=1 if i < 4 else 0, dur=2500), lambda i: O(rc=1, fail=(i % 2 == 0)),
]


def exhaustive(n, cfgs, max_outs):
    """all placements of the notification (before run(), during any sleep, never) x outcome patterns x every
    placement of at most max_outs producer writes, for scripts of n polls"""
    cases = []
    places = [None] + list(range(n))
    out_sets = [()]
    for m in range(1, max_outs + 1):
        out_sets += list(itertools.combinations(range(n), m))
    for cfg in cfgs:
        nprod = len(c13_impl.prod_list(cfg))
        # what the other producers do: (the second producer's write steps, the third's)
        others = [((), ())] if nprod < 2 else [((0,), (0,)), ((), (0,)), ((n - 1,), (0,)), ((n // 2,), (n - 1,))]
        for np_ in places:
          for oth in others:
            for pat in OUTCOME_PATTERNS:
                for outs in out_sets:
                    if nprod >= 2 and len(outs) > 1 and oth != others[0]:
                        continue
                    steps = []
                    for i in range(n):
                        evs = []
                        if i in outs:
                            evs.append('Out')
                        for q in range(1, nprod):
                            if i in oth[min(q, 2) - 1] and (np_ is None or i <= np_):
                                evs.append('Out%d' % q)
                        if np_ == i:
                            evs.append('Notify')
                        steps.append(S(5000, evs, pat(i)))
                    cases.append((cfg, steps))
                    if np_ is not None and np_ >= 1 and len(outs) <= 1:
                        # the same placement, but the notification arrives during the execution of the previous poll
                        st2 = [dict(st, evs=[e for e in st['evs'] if not (j == np_ and e == 'Notify')], o=dict(st['o']))
                               for j, st in enumerate(steps)]
                        st2[np_ - 1]['o']['ntf'] = True
                        st2[np_ - 1]['o']['sui'] = False   # (the 30 s kill delay cannot also expire within that execution)
                        cases.append((cfg, st2))
    return cases


def gen_random(rng, thorough):
    cfg = CFG(retries=rng.choice([None, 0, 1, 2, 3, 4, 5, 5, 6, 8]), has_prod=rng.random() < 0.9,
              same_stage=rng.random() < 0.8, prod_rep=rng.random() < 0.75, check_out=rng.random() < 0.9,
              has_delay=rng.random() < 0.35, interval=rng.choice([5000, 7000, 10000, 12000, 30000]),
              t0=rng.choice([0, 1000, 100000, 123456]))
    pick_delay(rng, cfg)
    nprod = rng.choice([1, 1, 2, 2, 3]) if cfg['has_prod'] else 0
    if nprod != 1 or rng.random() < 0.5:
        # an explicit list of producers, each with its own stage / repeating flag
        cfg['prods'] = [PR(rng.random() < 0.8, rng.random() < 0.75) for _ in range(nprod)]
        cfg['has_prod'] = nprod > 0
    n = rng.randint(3, 20 if thorough else 14)
    notify_at = rng.choice([None] + list(range(n)) * 3)
    steps = []
    last_out_allowed = n if notify_at is None else notify_at
    # producers behave as producers: each finishes at some step (the last one when the notification is delivered)
    # and does not write afterwards
    fin = [rng.randint(0, last_out_allowed) for _ in range(max(nprod, 1))]
    if fin:
        fin[rng.randrange(len(fin))] = last_out_allowed
    for i in range(n):
        evs = []
        for q in range(max(nprod, 1)):
            if i <= fin[q] and rng.random() < (0.3 if q == 0 else 0.22):
                evs.append('Out' if q == 0 else 'Out%d' % q)
        rng.shuffle(evs)
        if notify_at == i:
            if i >= 1 and rng.random() < 0.35:
                steps[i - 1]['o']['ntf'] = True     # ... it arrives while the previous poll's execution is in flight
                steps[i - 1]['o']['sui'] = False
            else:
                evs.append('Notify')
        elif notify_at is not None and i > notify_at:
            r = rng.random()
            if r < 0.04:
                evs.append('Kill')
            elif r < 0.16 and cfg['has_delay']:
                evs.append('Suicide')
            elif r < 0.19:
                evs.append(rng.choice(['Out', 'Out', 'Out1']))      # output after the notification: outside the hypothesis of (3)
            elif r < 0.21:
                evs.append('Notify')
        elif rng.random() < 0.01:
            evs.append('Kill')
        o = O(rc=rng.choice([0, 0, 1, 1, 2]), dur=rng.choice([1, 500, 1000, 4000, 7000, 26000]),
              fail=rng.random() < 0.08, sui=cfg['has_delay'] and rng.random() < 0.12, re=rng.random() < 0.1)
        steps.append(S(rng.choice([5000, 5000, 5001, 5500, 7000, 12000]), evs, o))
    return cfg, steps


def gen_timed(rng, thorough):
    """a script whose kill-delay timer is NOT scripted: it expires when the clock has reached the notification + the
    configured delay (any value, 0 included); one notification, between two polls or during an execution"""
    cfg = CFG(retries=rng.choice([None, 0, 1, 2, 3, 5, 8]), check_out=rng.random() < 0.9, has_delay=rng.random() < 0.88,
              interval=rng.choice([5000, 7000, 10000, 12000, 30000]), t0=rng.choice([0, 1000, 100000, 123456]), timed=True)
    pick_delay(rng, cfg, TIMED_DELAYS)
    nprod = rng.choice([0, 1, 1, 1, 2, 3])
    cfg['prods'] = [PR(rng.random() < 0.8, rng.random() < 0.6) for _ in range(nprod)]
    cfg['has_prod'] = nprod > 0
    n = rng.randint(3, 16 if thorough else 12)
    notify_at = rng.choice([None] + list(range(n)) * 6)
    mid = notify_at is not None and rng.random() < 0.45
    steps = []
    for i in range(n):
        evs = []
        for q in range(nprod):
            if (notify_at is None or i <= notify_at) and rng.random() < (0.4 if q == 0 else 0.3):
                evs.append('Out' if q == 0 else 'Out%d' % q)
        rng.shuffle(evs)
        if notify_at == i and not mid:
            evs.insert(rng.randint(0, len(evs)), 'Notify')
        if rng.random() < 0.01:
            evs.append('Kill')
        o = O(rc=rng.choice([0, 0, 1, 1, 2]), dur=rng.choice([1, 500, 1000, 4000, 7000, 12000, 26000]),
              fail=rng.random() < 0.08, re=rng.random() < 0.1, ntf=(mid and notify_at == i))
        steps.append(S(rng.choice([5000, 5000, 5001, 5500, 7000, 12000]), evs, o))
    return cfg, steps


def systematic_timed(n):
    """every spelling of the boundary delay 0 and a few positive delays x every placement of the notification (in any sleep,
    during the execution of any poll) x {a long-running task, failing executions, launches that raise, quick successes} x
    repeatRetries {0, 3}, for scripts of n polls of an observer that can always consume"""
    cases = []
    pats = [lambda i: O(rc=0, dur=26000), lambda i: O(rc=1, dur=1000), lambda i: O(rc=1, fail=(i % 2 == 1)), lambda i: O(rc=0),
            lambda i: O(rc=1, dur=12000)]
    for delay in (0, '0', 0.0, '0.0', 1, '5', '12', '30'):
        for r in (0, 3):
            for pat in pats:
                for at in range(n):
                    for mid in (False, True):
                        steps = []
                        for i in range(n):
                            o = pat(i)
                            o['ntf'] = bool(mid and i == at)
                            steps.append(S(5000, (['Out'] if i == 0 else []) + (['Notify'] if (i == at and not mid) else []), o))
                        cases.append((CFG(retries=r, prod_rep=False, delay=delay, timed=True), steps))
    return cases


def gen_stagein(rng, thorough):
    """a producer-level script: producers write while alive and finish; nobody scripts the notification"""
    nprod = rng.choice([0, 1, 1, 2, 2, 2, 3])
    cfg = CFG(retries=rng.choice([None, 0, 1, 2, 3, 5]), check_out=rng.random() < 0.9, has_delay=rng.random() < 0.25,
              interval=rng.choice([5000, 7000, 10000, 12000]), t0=rng.choice([0, 100000, 123456]),
              prods=[PR(rng.random() < 0.8, rng.random() < 0.75) for _ in range(nprod)], has_prod=nprod > 0)
    cfg['alive0'] = [rng.random() < 0.9 for _ in range(nprod)]
    pick_delay(rng, cfg)
    n = rng.randint(3, 16 if thorough else 12)
    fin = [rng.choice([None] + list(range(n)) * 4) for _ in range(nprod)]
    steps = []
    for i in range(n):
        evs = []
        for q in range(nprod):
            if rng.random() < (0.3 if (fin[q] is None or i <= fin[q]) else 0.08):   # (a finished producer's write is not made)
                evs.append('Out' if q == 0 else 'Out%d' % q)
            if fin[q] == i or (fin[q] is not None and i > fin[q] and rng.random() < 0.03):
                evs.append('Fin%d' % q)
        rng.shuffle(evs)
        r = rng.random()
        if r < 0.015:
            evs.append('Kill')
        elif r < 0.08 and cfg['has_delay']:
            evs.append('Suicide')
        o = O(rc=rng.choice([0, 0, 1, 1, 2]), dur=rng.choice([1, 500, 1000, 4000, 7000, 26000]),
              fail=rng.random() < 0.08, sui=cfg['has_delay'] and rng.random() < 0.1, re=rng.random() < 0.1)
        steps.append(S(rng.choice([5000, 5000, 5001, 5500, 7000, 12000]), evs, o))
    if rng.random() < 0.7:
        # the producers' place in the workflow graph and the observer's references to them (otherwise: distinct names,
        # one absolute reference each)
        gen_layout(rng, cfg, steps)
    return cfg, steps


REAL_SHAPES = [
    RP(), RP(direct=[('seed.txt', 'copy')]), RP(direct=[('seed.txt', 'link')]),
    RP(direct=[('ABS:seed.txt', 'copy'), ('mesh.dat', 'link')]), RP(direct=[('seed.txt', 'ref')]),
    RP(comp=[('f.txt', 'copy')]), RP(direct=[('seed.txt', 'copy')], comp=[(None, 'ref')]),
    RP(direct=[('mesh.dat', 'copy')], comp=[('f.txt', 'copyout')]), RP(direct=[('seed.txt', 'copyout')]),
    RP(direct=[('seed.txt', 'link')], comp=[(None, 'link'), ('g.dat', 'ref')]), RP(direct=[('mesh.dat', 'copy')], src=True),
]


def gen_rp(rng):
    """the references of one real producer: 0-2 direct references (files of the package or absolute paths; copy / link /
    ref, rarely copyout), 0-2 references to the upstream component (a file or its directory), possibly a same-stage
    source; about a third are 'source-like' (no component reference at all); staged names are distinct"""
    used = set()
    direct, comp = [], []
    for _ in range(rng.choice([0, 1, 1, 1, 2])):
        f = rng.choice(c13_impl.DATA_FILES)
        m = rng.choice(['copy', 'copy', 'link', 'link', 'ref', 'copyout'] if rng.random() < 0.3 else ['copy', 'copy', 'link', 'link', 'ref'])
        if f in used:
            continue
        used.add(f)
        direct.append((('ABS:' if rng.random() < 0.3 else '') + f, m))
    if rng.random() < 0.62:
        for _ in range(rng.choice([1, 1, 2])):
            f = rng.choice(c13_impl.UP_FILES + [None])
            m = rng.choice(['ref', 'ref', 'copy', 'link'] + (['copyout'] if f else []))
            if (f or 'up') in used:
                continue
            used.add(f or 'up')
            comp.append((f, m))
    return RP(direct=direct, comp=comp, src=rng.random() < 0.2)


def gen_real(rng, thorough):
    """a script whose producers are REAL jobs with REAL working directories staged in by the REAL Job.stageIn"""
    while True:
        cfg, steps = gen_random(rng, thorough)
        if c13_impl.prod_list(cfg):
            break
    if len(steps) > 10:
        steps = steps[:10]
    n = len(c13_impl.prod_list(cfg))
    cfg['real'] = [gen_rp(rng) for _ in range(n)]
    for i in range(n):
        if rng.random() < 0.25:
            # staged in while the observer is already polling, not later than its first write
            name = 'Out' if i == 0 else 'Out%d' % i
            first = next((k for k, st in enumerate(steps) if any(e in (name, 'Out%d' % i) for e in st['evs'])), len(steps) - 1)
            k = rng.randint(0, first)
            evs = steps[k]['evs']
            pos = min([q for q, e in enumerate(evs) if e in (name, 'Out%d' % i)] + [len(evs)]) if k == first else rng.randint(0, len(evs))
            evs.insert(rng.randint(0, pos), 'Stg%d' % i)
            cfg['real'][i]['late'] = True
    return cfg, steps


def systematic_real():
    """every producer shape (REAL_SHAPES) x {non-repeating, repeating} x the step of its first write (never, before the
    observer starts, after two polls) for a same-stage subject observed for 6 polls, the producers finishing at poll 3;
    plus two-producer combinations of a source-like subject with staged inputs and each other shape"""
    cases = []
    for rp in REAL_SHAPES:
        for rep in (False, True):
            for w in (None, 0, 2):
                steps = [S(5000, (['Out'] if w == k else []) + (['Notify'] if k == 3 else [])) for k in range(6)]
                cases.append((CFG(retries=1, prods=[PR(True, rep)], real=[dict(rp)]), steps))
    for rp in REAL_SHAPES:
        for w in (None, 1):
            steps = [S(5000, (['Out1'] if k == 0 else []) + (['Out'] if w == k else []) + (['Notify'] if k == 3 else [])) for k in range(5)]
            cases.append((CFG(retries=0, prods=[PR(True, False), PR(True, True)], real=[RP(direct=[('seed.txt', 'copy')]), dict(rp)]), steps))
    return cases


NAME_POOL = ['sim', 'sim', 'a', 'obs', 'post-proc_1']
METHODS = ['ref', 'ref', 'copy', 'link', 'copyout', 'extract', 'output']


def gen_layout(rng, cfg, steps):
    """where the producers of a producer-level script live and how the observer references them: component names drawn
    from a small pool (so names CLASH across stages - a name is unique within its stage only -, also with unrelated
    components and with the observer's own name), earlier-stage producers that were not instantiated, every
    producer referenced directly at least once (absolute or, same stage, relative; with/without a file; any
    method), plus duplicate references and loop placeholders, in any order"""
    prods = cfg['prods']
    used = {(c13_impl.OBS_STAGE, c13_impl.OBS_NAME)}

    def fresh(stage, fallback):
        for _ in range(4):
            nm = rng.choice(NAME_POOL)
            if (stage, nm) not in used:
                break
        else:
            nm = fallback
        used.add((stage, nm))
        return nm
    for i, p in enumerate(prods):
        p['stage'] = c13_impl.OBS_STAGE if p['same_stage'] else rng.choice([0, 1])
        p['name'] = fresh(p['stage'], 'p%d' % i)
        if p['stage'] != c13_impl.OBS_STAGE and not cfg['alive0'][i] and rng.random() < 0.35:
            p['inst'] = False
    extra = []
    for k in range(rng.choice([0, 0, 1, 2])):
        st = rng.choice([0, 1, 2])
        extra.append({'stage': st, 'name': fresh(st, 'x%d' % k), 'inst': rng.random() < 0.8})
    cfg['extra'] = extra

    def direct(i):
        m = rng.choice(METHODS)
        f = rng.choice([None, 'out.txt', 'dir/x.dat']) if m != 'output' else 'out.txt'
        via = 'rel' if (prods[i]['same_stage'] and rng.random() < 0.4) else 'abs'
        return REF(i, via=via, file=f, method=m)
    refs = [direct(i) for i in range(len(prods))]
    if prods:
        for _ in range(rng.choice([0, 0, 1, 1, 2, 3])):
            if rng.random() < 0.65:
                refs.append(direct(rng.randrange(len(prods))))
            else:
                to = rng.sample(range(len(prods)), rng.randint(1, len(prods)))
                refs.append(REF(*to, via='loop', file=rng.choice([None, 'out.txt']), method=rng.choice(['loopref', 'loopref', 'ref', 'loopoutput'])))
    if prods and rng.random() < 0.3:
        # a component the observer only waits for: one of those a loop reference stands for, not the latest
        st = rng.choice([0, 1, 2, 2])
        k = len(prods)
        prods.append(PR(st == c13_impl.OBS_STAGE, True, stage=st, name=fresh(st, 'lp'), loop_only=True))
        cfg['alive0'].append(rng.random() < 0.8)
        to = [k] + rng.sample(range(k), rng.randint(1, k))
        refs.append(REF(*to, via='loop', file=rng.choice([None, 'out.txt']), method='loopref'))
        f = rng.choice([None] + list(range(len(steps))) * 4)
        if f is not None:
            steps[f]['evs'].insert(rng.randint(0, len(steps[f]['evs'])), 'Fin%d' % k)
    rng.shuffle(refs)
    cfg['refs'] = refs
    return cfg


def exhaustive_refs(n):
    """the observer's running same-stage subject and a producer of an earlier stage (finished and instantiated /
    finished and not instantiated / still alive), with the SAME component name or distinct names, referenced in
    every order with and without duplicates (and through a loop placeholder) x every finishing step of the subject
    x 2 outcome patterns; plus an unrelated same-named component next to two same-stage producers"""
    cases = []
    places = [None] + list(range(n))
    orders = [[REF(0), REF(1)], [REF(1), REF(0)], [REF(0, via='rel'), REF(1), REF(0, file='out.txt', method='copy')],
              [REF(1), REF(0), REF(1, file='x.dat', method='link')], [REF(1, 0, via='loop', method='loopref'), REF(0), REF(1)],
              [REF(0), REF(1), REF(0, 1, via='loop', method='loopref')]]
    for clash in (True, False):
        for (alive1, inst1) in ((False, True), (False, False), (True, True)):
            for refs in orders:
                for f0 in places:
                    for pat in OUTCOME_PATTERNS[:2]:
                        steps = []
                        for i in range(n):
                            evs = []
                            if i == 0 or i == n - 1:
                                evs.append('Out')
                            if f0 == i:
                                evs.append('Fin0')
                            if alive1 and i == 0:
                                evs += ['Out1', 'Fin1']
                            steps.append(S(5000, evs, pat(i)))
                        prods = [PR(stage=2, name='sim'), PR(same_stage=False, stage=0, name='sim' if clash else 'old', inst=inst1)]
                        cases.append((CFG(retries=1, prods=prods, alive0=[True, alive1], refs=[dict(r) for r in refs]), steps))
    # a loop reference stands for the subject (the latest iteration) AND for an earlier iteration that is still running:
    # the observer waits for both although only the latest is one of the job's producers
    for (st1, nm1) in ((2, 'sim-0'), (1, 'sim')):
        for refs in ([REF(1, 0, via='loop', method='loopref')], [REF(0), REF(1, 0, via='loop', method='loopref', file='out.txt')]):
            for f1 in places:
                steps = []
                for i in range(n):
                    evs = (['Out'] if i in (0, n - 1) else []) + (['Fin0'] if i == 0 else []) + (['Fin1'] if f1 == i else [])
                    steps.append(S(5000, evs, O()))
                cases.append((CFG(retries=1, prods=[PR(stage=2, name='sim'), PR(st1 == 2, True, stage=st1, name=nm1, loop_only=True)],
                                  alive0=[True, True], refs=[dict(r) for r in refs]), steps))
    for f in places:
        for refs in ([REF(0), REF(1)], [REF(1, via='rel'), REF(0, via='rel'), REF(1)]):
            steps = []
            for i in range(n):
                evs = (['Out', 'Out1'] if i in (0, n - 1) else []) + (['Fin0'] if i == 0 else []) + (['Fin1'] if f == i else [])
                steps.append(S(5000, evs, O()))
            cases.append((CFG(retries=1, prods=[PR(stage=2, name='a'), PR(stage=2, name='b')], alive0=[True, True], refs=refs,
                              extra=[{'stage': 0, 'name': 'b'}, {'stage': 1, 'name': 'a', 'inst': False}, {'stage': 1, 'name': 'obs'}]),
                          steps))
    return cases


def exhaustive_stagein(n):
    """two same-stage repeating producers: every pair of finishing steps (or never) x outcome patterns x a few write patterns"""
    cases = []
    places = [None] + list(range(n))
    writes = [((0,), (0,)), ((0, n - 1), (0,)), ((0,), (n // 2, n - 1)), ((n - 1,), ())]
    for r in (0, 3):
        for f0 in places:
            for f1 in places:
                for pat in OUTCOME_PATTERNS[:4]:
                    for w in writes:
                        steps = []
                        for i in range(n):
                            evs = []
                            for q in (0, 1):
                                if i in w[q]:
                                    evs.append('Out' if q == 0 else 'Out1')
                            if f0 == i:
                                evs.append('Fin0')
                            if f1 == i:
                                evs.append('Fin1')
                            steps.append(S(5000, evs, pat(i)))
                        cases.append((CFG(retries=r, prods=[PR(), PR()], alive0=[True, True]), steps))
    return cases


def corpus():
    c = []
    # F13 (open): output older than the start, notified before the first poll; retries 0 / default 3 / 4 at exact 5 s
    c.append((CFG(retries=0), [S(0, ['Out', 'Notify'])] + [S() for _ in range(3)]))
    c.append((CFG(retries=None), [S(0, ['Out', 'Notify'])] + [S() for _ in range(6)]))
    c.append((CFG(retries=4), [S(0, ['Out', 'Notify'])] + [S() for _ in range(7)]))
    c.append((CFG(retries=4), [S(0, ['Out', 'Notify']), S(5001)] + [S() for _ in range(6)]))
    c.append((CFG(retries=5), [S(0, ['Out', 'Notify'])] + [S() for _ in range(8)]))
    # F13b (fixed): every launch raises after the producers finished
    c.append((CFG(retries=2, prod_rep=False), [S(0, ['Out', 'Notify'], O(fail=True))] + [S(o=O(fail=True)) for _ in range(7)]))
    # F13c (fixed): kill delay expires between two executions of an observer that has executed before
    c.append((CFG(retries=9, has_delay=True), [S(0, ['Out']), S(5000, ['Out']), S(), S(5000, ['Notify']), S(5000, ['Suicide'])]
              + [S() for _ in range(8)]))
    # kill delay during an execution; external kill; ResourceExhausted on the last task
    c.append((CFG(has_delay=True, prod_rep=False), [S(0, ['Out']), S(), S(5000, ['Notify'], O(rc=9, sui=True)), S(), S()]))
    c.append((CFG(prod_rep=False), [S(0, ['Out'], O(rc=1, re=True)), S(5000, ['Kill']), S(), S()]))
    c.append((CFG(), [S(0, ['Kill']), S(), S()]))
    # two producers: nothing runs until BOTH same-stage producers have output; the final output of the slower one is seen
    two = CFG(prods=[PR(), PR()])
    c.append((two, [S(0, ['Out']), S(), S(5000, ['Out1']), S(), S(5000, ['Out1', 'Notify']), S(), S(), S(), S(), S()]))
    c.append((two, [S(0, ['Out1']), S(), S(), S(5000, ['Notify']), S(), S(), S(), S(), S()]))      # never able to consume
    # a non-repeating producer anywhere in the list makes every poll see "new output"
    c.append((CFG(prods=[PR(), PR(prod_rep=False)]), [S(0, ['Out', 'Out1']), S(), S(), S(5000, ['Notify'], O(rc=1)), S(o=O(rc=1)), S(), S()]))
    c.append((CFG(prods=[PR(prod_rep=False), PR()]), [S(0, ['Out', 'Out1']), S(), S(), S(5000, ['Notify'], O(rc=1)), S(o=O(rc=1)), S(), S()]))
    # a producer of another stage is not waited for; three producers, old output of all, notified before run() (F13 shape)
    c.append((CFG(prods=[PR(), PR(same_stage=False)]), [S(0, ['Out']), S(), S(5000, ['Out1']), S(), S(5000, ['Notify']), S(), S()]))
    c.append((CFG(retries=1, prods=[PR(), PR(), PR()]), [S(0, ['Out', 'Out1', 'Out2', 'Notify'])] + [S() for _ in range(4)]))
    # whom the observer waits for (producer-level, the REAL ComponentState.producers): the running same-stage subject
    # stage2.sim and the finished stage0.sim share their NAME; the subject is referenced first / last / twice, the old
    # one is instantiated or not: the observer waits for the subject and sees its final output
    subj = [S(0, ['Out']), S(), S(5000, ['Out']), S(), S(5000, ['Out', 'Fin0']), S(), S(), S(), S()]
    for refs in ([REF(0), REF(1)], [REF(1), REF(0)], [REF(0, via='rel', file='out.txt', method='copy'), REF(0), REF(1)]):
        for inst in (True, False):
            c.append((CFG(prods=[PR(stage=2, name='sim'), PR(same_stage=False, stage=0, name='sim', inst=inst)],
                          alive0=[True, False], refs=refs), [dict(st, evs=list(st['evs']), o=dict(st['o'])) for st in subj]))
    # ... the earlier-stage producer shares the OBSERVER's name, an unrelated stage1.sim exists; a loop reference
    c.append((CFG(prods=[PR(stage=2, name='sim'), PR(same_stage=False, stage=0, name='obs')], alive0=[True, True],
                  refs=[REF(0, 1, via='loop', method='loopref'), REF(1), REF(0)], extra=[{'stage': 1, 'name': 'sim'}]),
              [S(0, ['Out', 'Out1', 'Fin1']), S(), S(5000, ['Out', 'Fin0']), S(), S(), S(), S()]))
    # ... a loop reference standing for the finished latest iteration and a still running earlier one: waited for
    c.append((CFG(prods=[PR(stage=2, name='sim'), PR(stage=2, name='sim-0', loop_only=True)], alive0=[True, True],
                  refs=[REF(1, 0, via='loop', method='loopref')]),
              [S(0, ['Out']), S(), S(5000, ['Out', 'Fin0']), S(), S(5000, ['Fin1']), S(), S(), S(), S()]))
    # what counts as producer output (REAL producers, REAL Job.stageIn + WorkingDirectory): a source-like subject that
    # only stages in files of the package (copy / link; no component reference) has NO output until it writes: the
    # observer does not execute for three polls, starts once the subject has written, sees the final output and stops
    quiet = [S(0), S(), S(), S(5000, ['Out']), S(), S(5000, ['Out', 'Notify']), S(), S(), S()]
    for rp in (RP(direct=[('seed.txt', 'copy')]), RP(direct=[('ABS:mesh.dat', 'link'), ('seed.txt', 'copy')]),
               RP(direct=[('seed.txt', 'copy')], comp=[('f.txt', 'link'), (None, 'ref')]), RP()):
        for rep in (False, True):
            c.append((CFG(retries=1, check_out=rep, prods=[PR(True, rep)], real=[rp]),
                      [dict(st, evs=list(st['evs']), o=dict(st['o'])) for st in quiet]))
    # ... staged in while the observer is already polling; never writes at all: the observer never executes
    c.append((CFG(retries=1, prods=[PR(True, False)], real=[RP(direct=[('seed.txt', 'copy')], late=True)]),
              [S(0), S(), S(5000, ['Stg0']), S(), S(5000, ['Notify']), S(), S(), S()]))
    # ... copyout references are output by design: the observer may execute at once
    c.append((CFG(retries=1, prods=[PR(True, False)], real=[RP(direct=[('seed.txt', 'copy')], comp=[('f.txt', 'copyout')])]),
              [S(0), S(), S(5000, ['Notify']), S(), S()]))
    # the VALUE of kill-after-producers-done-delay: 0 (stop as soon as the producers are done) is a configured delay.
    # Timed scripts (the timer expires by the clock): a long-running task is in flight when the producers finish - the
    # timer expires at once, the task is signalled, the observer stops with that execution
    c.append((CFG(prod_rep=False, delay=0, timed=True), [S(0, ['Out'], O(rc=1, dur=12000, ntf=True)), S(), S(), S()]))
    c.append((CFG(prod_rep=False, delay='0', timed=True), [S(0, ['Out']), S(5000, [], O(rc=0, dur=26000, ntf=True)), S(), S()]))
    # ... failing executions, notified between two polls: cancelled there and then; notified before run()
    c.append((CFG(retries=5, prod_rep=False, delay=0.0, timed=True),
              [S(0, ['Out'], O(rc=1)), S(5000, ['Notify'], O(rc=1))] + [S(o=O(rc=1)) for _ in range(5)]))
    c.append((CFG(retries=5, delay='0.0', timed=True), [S(0, ['Out', 'Notify'])] + [S() for _ in range(3)]))
    # ... a positive delay: expires during the long execution after next / between two polls / never within the script
    c.append((CFG(retries=5, prod_rep=False, delay='12', timed=True),
              [S(0, ['Out'], O(rc=1)), S(5000, ['Notify'], O(rc=1)), S(5000, [], O(rc=1, dur=26000))] + [S(o=O(rc=1)) for _ in range(3)]))
    c.append((CFG(retries=9, prod_rep=False, delay=7.5, timed=True),
              [S(0, ['Out'], O(rc=1)), S(5000, ['Notify'], O(rc=1))] + [S(o=O(rc=1)) for _ in range(5)]))
    c.append((CFG(retries=2, prod_rep=False, delay='60', timed=True),
              [S(0, ['Out'], O(rc=1)), S(5000, ['Notify'], O(rc=1))] + [S(o=O(rc=1)) for _ in range(5)]))
    # ... scripted expiry (the model's Suicide event) with the boundary value configured
    c.append((CFG(retries=9, delay=0), [S(0, ['Out']), S(5000, ['Out']), S(), S(5000, ['Notify']), S(5000, ['Suicide'])]
              + [S() for _ in range(4)]))
    c.append((CFG(delay='0', prod_rep=False), [S(0, ['Out']), S(), S(5000, ['Notify'], O(rc=9, sui=True)), S(), S()]))
    return c


def run(ctx):
    rng = ctx.rng
    thorough = ctx.tier == 'thorough'
    ctx.rule = ('exhaustive: every placement of the producers-finished notification (before run(), in any sleep, never) x 6 task '
                'outcome patterns x every placement of <= 2 producer writes, scripts of <= N polls (N=6 quick, 9 thorough), for a grid '
                'of repeatRetries/interval/producer kinds; plus random scripts (<= 14/20 polls; jittered poll times, launch failures, '
                'kill-delay timer between or during executions, external kill, late output); plus producer-level scripts (0-3 producers that '
                'write while alive and finish; the notification is delivered by the real ComponentState.stageIn subscription: exhaustive over '
                'both finishing steps of two producers for <= 4/6 polls, and random; whom it waits for is decided by the real ComponentState.producers: '
                'random layouts with component names clashing across stages, duplicate / relative / loop references in any order, uninstantiated '
                'earlier-stage producers, and exhaustively {same name, distinct} x {finished, not instantiated, alive} x 6 reference orders x the '
                'finishing step of the subject for <= 3/5 polls); plus real-producer scripts (real Job objects + working directories staged in by the real '
                'Job.stageIn: 11 reference shapes x repeating or not x 3 first-write steps, two-producer combinations, 150/2500 random shapes and scripts, late '
                'stage-in); plus timed scripts (the value of kill-after-producers-done-delay matters: 0 in four spellings / 1 / 5 / 12 / 30 s x every '
                'placement of the notification, also during any execution, x 5 outcome patterns x repeatRetries {0,3} for 4 (thorough 3,5,7) polls, and '
                '900/12000 random ones; in every other family the value is drawn from 10 spellings incl. 0); non-trivial = at least one launch and '
                'the notification delivered; distinct by (cfg, consumed script)')
    cases = corpus()
    ctx.count('corpus_cases', len(cases))
    grid = [CFG(retries=r, interval=iv) for r in (0, 1, 3) for iv in (5000, 12000)]
    grid += [CFG(retries=5, interval=5000), CFG(retries=1, prod_rep=False), CFG(retries=1, has_prod=False),
             CFG(retries=1, same_stage=False), CFG(retries=1, prods=[PR(), PR()]), CFG(retries=1, prods=[PR(), PR(), PR(False, True)])]
    N = 9 if thorough else 6
    ex = []
    small = [grid[1], grid[2], grid[5], grid[6], grid[7]]
    for n in range(1, N + 1):
        g = grid if (n <= 4 or (thorough and n <= 6)) else (small if n <= 6 else small[:3])
        ex += exhaustive(n, g, 2 if n <= 6 else 1)
    ctx.count('exhaustive_small_scope_cases', len(ex))
    ctx.extra['exhaustive_scope'] = 'polls <= %d' % N
    cases += ex
    for _ in range(40000 if thorough else 2000):
        cases.append(gen_random(rng, thorough))
    # producer-level scripts run through the real ComponentState.stageIn subscription
    st = []
    for n in range(1, (6 if thorough else 4) + 1):
        st += exhaustive_stagein(n)
    ctx.count('exhaustive_stagein_cases', len(st))
    cases += st
    # ... and whom it waits for: name clashes across stages, duplicate references, uninstantiated producers
    rf = []
    for n in range(1, (5 if thorough else 3) + 1):
        rf += exhaustive_refs(n)
    ctx.count('exhaustive_reference_cases', len(rf))
    cases += rf
    for _ in range(12000 if thorough else 1200):
        cases.append(gen_stagein(rng, thorough))
    # what counts as producer output: REAL producer jobs, REAL working directories, the REAL Job.stageIn
    rl = systematic_real()
    ctx.count('systematic_real_producer_cases', len(rl))
    cases += rl
    for _ in range(2500 if thorough else 150):
        cases.append(gen_real(rng, thorough))
    # the kill delay WITH ITS VALUE: the timer expires by the clock (delay 0 in every spelling, positive delays)
    tm = []
    for n in ((3, 5, 7) if thorough else (4,)):
        tm += systematic_timed(n)
    ctx.count('systematic_timed_cases', len(tm))
    cases += tm
    for _ in range(12000 if thorough else 900):
        cases.append(gen_timed(rng, thorough))
    explore(ctx, cases)


def replay(ctx, path):
    d = json.load(open(path))
    c = d.get('case') or d.get('first', {}).get('case')
    if not c or 'cfg' not in c:
        print('replay file names no input (proof/correspondence obligation): re-run ./check C13')
        return 2
    explore(ctx, [(c['cfg'], c['steps'])])
    for f in ctx.failures:
        print('REPRODUCED: %s' % f['what'])
    for f in ctx.disagreements:
        print('DISAGREEMENT: %s' % (f,))
    return 1 if (ctx.failures or ctx.disagreements) else 0
