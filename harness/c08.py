"""C08 — Configuration queries always reflect the latest updates.

Implementation driven (in-process, real code): one live FlowIRConcrete per history; the mutators
set_component_variable / delete_component_variable / set_component_option / remove_component_option (also through
FlowIRExperimentConfiguration.setOptionForNode / removeOptionForNode and WorkflowGraph.setOptionForNode /
removeOptionForNode), update_component, delete_component, add_component, set_global_variable, set_stage_variable,
set_platform_global_variable, set_platform_stage_variable, get_platform_global_variables(return_copy=False) and
get_platform_stage_variables(return_copy=False) followed by one write, interleaved with
get_component_configuration(comp_id, include_default=True, platform=p) and with in-place mutation of the returned
configuration.

After every query the answer is compared with
  (b) FlowIRConcrete(live.raw(), platform, {}).get_component_configuration(...)   -- the property predicate
  (a) coq/Cache/Model.v (trace: observation + cache labels after every operation) -- the correspondence.

Not covered: mutation of a live reference (return_copy=False) after an intervening query (outside the interface);
operations that rename a component (option route `name`/`stage`, update_component with another identity);
values the C04 model does not interpret (array indices, interpreter, memory/qos converters)."""
import copy
import glob
import itertools
import json
import os
import re
import sys
import types

from common import cstr, cZ, clist, cjv, cnat

PROP = 'C08'
COQ_DIR = 'Cache'
ASSUMPTIONS = [
    'from-scratch resolution is V.Conf.Model.resolve (C04 model, same restrictions: single-pass interpolation, no '
    'array indices / interpreter / memory converters); the table of built-in defaults is read from the running code',
    'the model starts from the document the constructor of FlowIRConcrete produced (raw() right after construction)',
    'operations never change the identity of a component (no option route starting with name/stage, a replacement '
    'definition carries the identity it replaces); platform names of queries hold no colon in the theorems '
    '(the colon stream of the generator exercises the open finding F8b)',
    'values handed to the mutators are fresh objects that the caller does not touch afterwards; mutating a live '
    'reference obtained with return_copy=False after an intervening query is outside the interface',
    'exceptions are compared by class (and variable name for FlowIRVariableUnknown / FlowIRVariableInvalid)',
]
HEADER = 'Require Import V.Lib.JTree V.Conf.Model V.Cache.Model.\nOpen Scope string_scope.'
CORPUS = os.path.join(os.path.dirname(os.path.abspath(__file__)), 'corpus', 'c08')

PREFIX_NAMES = ['foo', 'foo1', 'foo10', 'fo', 'foo-x', 'foo_1', 'bar']
META_NAMES = ['a+b', 'a(b', 'a[b', 'a.b', 'a*', 'a|b', 'a\\b', 'a$', '^a', 'a?b', 'a{2}', 'a b', 'a)b', 'a]',
              'x:stage1:foo', 'foo', 'a+', '(a)', 'a\nb', '.*', 'a++b']
STAGES = [0, 1, 10]
VARS = ['x', 'y', 'g', 'n']
ROUTES = [('command', 'arguments'), ('command', 'executable'), ('resourceRequest', 'numberProcesses'),
          ('workflowAttributes', 'maxRestarts'), ('variables', 'x'), ('variables', 'y'),
          ('override', '@P1', 'command', 'arguments'), ('override', '@P1', 'variables', 'x'),
          ('command', 'nope', 'deep'), ('resourceManager', 'lsf', 'queue')]


def fix_stage_keys(o):
    """JSON turned the integer stage keys into strings: undo (for replay / corpus files)"""
    if isinstance(o, dict):
        out = {}
        for k, v in o.items():
            v = fix_stage_keys(v)
            if k == 'stages' and isinstance(v, dict):
                v = {int(a): b for a, b in v.items()}
            out[k] = v
        return out
    if isinstance(o, list):
        return [fix_stage_keys(x) for x in o]
    return o


def canon(o):
    return json.dumps(o, sort_keys=True, default=str)


# ------------------------------------------------------------------ generators
def gen_str_value(rng, var, tag):
    """value of variable `var`; references go strictly down x > y > g > n so that there is never a cycle"""
    lower = VARS[VARS.index(var) + 1:] if var in VARS else ['g']
    if var == 'n':
        return rng.choice([rng.randrange(1, 9), str(rng.randrange(1, 9)), 4])
    r = rng.random()
    s = '%s.%s' % (tag, var)
    if lower and r < 0.45:
        s += '<%%(%s)s>' % rng.choice(lower)
    elif r < 0.52:
        return rng.choice([rng.randrange(0, 30), True])
    return s


def gen_route_value(rng, route, tag):
    leaf = route[-1]
    if leaf == 'numberProcesses':
        return rng.choice([rng.randrange(1, 9), '%(n)s', str(rng.randrange(1, 9))])
    if leaf == 'maxRestarts':
        return rng.choice([rng.randrange(0, 5), '%(n)s', None])
    if leaf in ('x', 'y'):
        return gen_str_value(rng, leaf, tag)
    return rng.choice(['%s-%s' % (tag, leaf), '%s %%(x)s' % tag, '%%(y)s/%s' % tag, '%(g)s', '-n %(n)s %(x)s'])


def gen_component(rng, s, n, plats, tag, sparse=False):
    c = {'name': n, 'stage': s, 'command': {'executable': 'exe-%s' % tag,
                                            'arguments': rng.choice(['%(x)s %(g)s', '%(x)s', '%(y)s-%(x)s', 'lit',
                                                                     '%(g)s -n %(n)s'])}}
    if rng.random() < 0.9:
        c['variables'] = {}
        if rng.random() < 0.85:
            c['variables']['x'] = gen_str_value(rng, 'x', tag)
        if rng.random() < 0.3:
            c['variables']['y'] = gen_str_value(rng, 'y', tag)
    if not sparse:
        if rng.random() < 0.4:
            c['resourceRequest'] = {'numberProcesses': rng.choice([2, '%(n)s'])}
        if rng.random() < 0.3:
            c['workflowAttributes'] = {'maxRestarts': rng.randrange(0, 4)}
        if rng.random() < 0.35:
            P = plats[1]
            c['override'] = {P: {'command': {'arguments': 'ov-%s %%(x)s' % tag}}}
            if rng.random() < 0.5:
                c['override'][P]['variables'] = {'x': 'ovx-%s' % tag}
    return c


PLAT_POOLS = {
    'prefix': [('p', 'q'), ('plat', 'plat1'), ('p', 'p1'), ('q1', 'q10')],
    'meta': [('p', 'q'), ('p.q', 'p+'), ('p q', 'p\nq'), ('a*', 'a'), ('p', '(p')],
    'colon': [('p', 'p:stage0:x'), ('p:q', 'p'), ('p', 'p:stage1:foo')],
}


def gen_doc(rng, stream):
    P1, P2 = rng.choice(PLAT_POOLS[stream])
    plats = ['default', P1, P2]
    names = PREFIX_NAMES if stream != 'meta' else META_NAMES
    ids = []
    want = rng.randrange(2, 5)
    if stream == 'colon':
        # identities whose labels can collide with those of another (platform, component) pair
        ids = [(0, 'x:stage1:y'), (1, 'y')] if P2 == 'p:stage0:x' or P1 == 'p:stage0:x' else [(1, 'foo'), (0, 'q:stage1:foo')]
    while len(ids) < want:
        cid = (rng.choice(STAGES if rng.random() < 0.7 else [0]), rng.choice(names))
        if cid not in ids:
            ids.append(cid)
    doc = {'platforms': plats, 'components': [], 'variables': {}}
    for k, (s, n) in enumerate(ids):
        doc['components'].append(gen_component(rng, s, n, plats, 'c%d' % k))
    V = doc['variables']
    V['default'] = {'global': {'g': 'G0', 'n': 2, 'y': 'Y0'}}
    if rng.random() < 0.8:
        V['default']['global']['x'] = 'X0<%(y)s>'
    if rng.random() < 0.7:
        V['default']['stages'] = {}
        for s in sorted(set(s for s, _ in ids)):
            if rng.random() < 0.7:
                V['default']['stages'][s] = {'y': 'Ys%d' % s} if rng.random() < 0.6 else {}
    for P in (P1, P2):
        if rng.random() < 0.6:
            V[P] = {'global': {'g': 'G-%s' % P[:1]}}
            if rng.random() < 0.4:
                V[P]['stages'] = {ids[0][0]: {'y': 'Yp<%(g)s>'}}
    if rng.random() < 0.4:
        doc['blueprint'] = {rng.choice(plats): {'global': {'resourceManager': {'lsf': {'queue': 'bq-%(g)s'}}}}}
        if rng.random() < 0.5:
            doc['blueprint'].setdefault(P1, {})['stages'] = {ids[0][0]: {'command': {'environment': 'none'}}}
    return doc, plats, ids


def gen_ops(rng, plats, ids, nops, stream):
    """random history; queries everywhere; most operations target live components, some absent ones"""
    alive = list(ids)
    pool_names = PREFIX_NAMES if stream != 'meta' else META_NAMES
    P1 = plats[1]
    ops = []
    k = 0

    def some_id(absent_ok=True):
        if alive and (not absent_ok or rng.random() < 0.9):
            return rng.choice(alive)
        return (rng.choice(STAGES), rng.choice(pool_names))

    def some_plat():
        r = rng.random()
        if r < 0.08:
            return 'zz-new'
        return rng.choice(plats)

    while len(ops) < nops:
        k += 1
        tag = 'u%d' % k
        r = rng.random()
        if r < 0.40:
            s, n = some_id()
            ops.append(['Query', rng.choice(plats) if rng.random() < 0.95 else 'nowhere', s, n])
        elif r < 0.44:
            ops.append(['MutateResult'])
        elif r < 0.54:
            s, n = some_id()
            v = rng.choice(VARS[:3] if rng.random() < 0.9 else ['n'])
            ops.append(['SetCompVar', s, n, v, gen_str_value(rng, v, tag), rng.randrange(4)])
        elif r < 0.59:
            s, n = some_id()
            ops.append(['DelCompVar', s, n, rng.choice(['x', 'x', 'y', 'g']), rng.randrange(4)])
        elif r < 0.68:
            s, n = some_id()
            # (the interface takes the route as one dotted string: a platform name with a dot splits)
            route = '.'.join(P1 if e == '@P1' else e for e in rng.choice(ROUTES)).split('.')
            ops.append(['SetOption', s, n, route, gen_route_value(rng, route, tag), rng.randrange(3)])
        elif r < 0.72:
            s, n = some_id()
            # (the interface takes the route as one dotted string: a platform name with a dot splits)
            route = '.'.join(P1 if e == '@P1' else e for e in rng.choice(ROUTES)).split('.')
            ops.append(['DelOption', s, n, route, rng.randrange(3)])
        elif r < 0.75:
            v = rng.choice(['g', 'y', 'n', 'x'])
            ops.append(['SetGlobal', v, gen_str_value(rng, v, tag)])
        elif r < 0.78:
            v = rng.choice(['y', 'g', 'x'])
            ops.append(['SetStage', rng.choice(STAGES), v, gen_str_value(rng, v, tag)])
        elif r < 0.81:
            v = rng.choice(['g', 'y', 'x'])
            ops.append(['SetPlatGlobal', some_plat(), v, gen_str_value(rng, v, tag)])
        elif r < 0.84:
            v = rng.choice(['y', 'g', 'x'])
            ops.append(['SetPlatStage', some_plat(), rng.choice(STAGES), v, gen_str_value(rng, v, tag)])
        elif r < 0.86:
            v = rng.choice(['g', 'y'])
            ops.append(['RefPlatGlobal', some_plat(), v, gen_str_value(rng, v, tag)])
        elif r < 0.88:
            v = rng.choice(['y', 'g'])
            ops.append(['RefPlatStage', some_plat(), rng.choice(STAGES), v, gen_str_value(rng, v, tag)])
        elif r < 0.92:
            s, n = some_id(absent_ok=True) if rng.random() < 0.3 else (rng.choice(STAGES), rng.choice(pool_names))
            c = gen_component(rng, s, n, plats, tag)
            if s == 0 and rng.random() < 0.3:
                del c['stage']
            ops.append(['AddComp', c])
            if (s, n) not in alive:
                alive.append((s, n))
        elif r < 0.96:
            s, n = some_id()
            ops.append(['ReplaceComp', s, n, gen_component(rng, s, n, plats, tag, sparse=rng.random() < 0.3)])
        else:
            s, n = some_id()
            ops.append(['DelComp', s, n])
            if (s, n) in alive and rng.random() < 0.9:
                alive.remove((s, n))
    return ops


# ------------------------------------------------------------------ implementation driver
class Driver(object):
    def __init__(self):
        import experiment.model.frontends.flowir as F
        import experiment.model.conf as C
        import experiment.model.graph as G
        self.F, self.C, self.G = F, C, G

        class ConfShim(object):
            """the two real methods of FlowIRExperimentConfiguration over a bare object holding the concrete"""
            def __init__(s, conc):
                s._concrete = conc
            setOptionForNode = C.FlowIRExperimentConfiguration.setOptionForNode
            removeOptionForNode = C.FlowIRExperimentConfiguration.removeOptionForNode
        self.ConfShim = ConfShim
        sys.setrecursionlimit(max(sys.getrecursionlimit(), 1000))

    def dflt(self):
        return self.F.FlowIR.default_component_structure()

    def new(self, doc, active):
        return self.F.FlowIRConcrete(copy.deepcopy(doc), active, {})

    def node_name(self, s, n):
        """'stage<s>.<n>' when the real reference parser gives the identity back"""
        if not re.fullmatch(r'[A-Za-z0-9_-]+', n) or s < 0:
            return None
        ref = 'stage%d.%s' % (s, n)
        try:
            si, name, _ = self.C.ParseProducerReference(ref)
            if (si, name) == (s, n):
                return ref
        except Exception:
            pass
        return None

    def set_option(self, conc, cid, key, val, how):
        node = self.node_name(*cid)
        if how == 1 and node:
            self.ConfShim(conc).setOptionForNode(node, key, val)
        elif how == 2 and node:
            self.G.WorkflowGraph.setOptionForNode(types.SimpleNamespace(configuration=self.ConfShim(conc)), node, key, val)
        else:
            conc.set_component_option(cid, key, val)

    def remove_option(self, conc, cid, key, how):
        node = self.node_name(*cid)
        if how == 1 and node:
            self.ConfShim(conc).removeOptionForNode(node, key)
        elif how == 2 and node:
            self.G.WorkflowGraph.removeOptionForNode(types.SimpleNamespace(configuration=self.ConfShim(conc)), node, key)
        else:
            conc.remove_component_option(cid, key)

    @staticmethod
    def exc(e):
        if isinstance(e, RecursionError):
            return ['exc', 'RecursionError', '']
        name = type(e).__name__
        if name == 'FLowIRSymbolTableNotImplemented':
            name = 'NotImplementedError'
        detail = ''
        if name in ('FlowIRVariableUnknown', 'FlowIRVariableInvalid'):
            detail = str(getattr(e, 'variable_route', ''))
        return ['exc', name, detail]

    def query(self, conc, p, s, n):
        """returns (observation, live result object or None)"""
        try:
            r = conc.get_component_configuration((s, n), include_default=True, platform=p)
        except Exception as e:
            return self.exc(e), None
        return ['val', copy.deepcopy(r)], r

    def apply(self, conc, op, state):
        """apply one operation to the live object; state['last'] = the configuration handed out last"""
        k = op[0]
        val = lambda x: copy.deepcopy(x)
        try:
            if k == 'Query':
                o, live = self.query(conc, op[1], op[2], op[3])
                state['last'] = live
                return o
            if k == 'MutateResult':
                scramble(state.get('last'))
                return ['done']
            if k == 'SetCompVar':
                cid, how = (op[1], op[2]), op[5] if len(op) > 5 else 0
                if how == 0:
                    conc.set_component_variable(cid, op[3], val(op[4]))
                else:
                    self.set_option(conc, cid, op[3], val(op[4]), how - 1)
            elif k == 'DelCompVar':
                cid, how = (op[1], op[2]), op[4] if len(op) > 4 else 0
                if how == 0:
                    conc.delete_component_variable(cid, op[3])
                else:
                    self.remove_option(conc, cid, op[3], how - 1)
            elif k == 'SetOption':
                self.set_option(conc, (op[1], op[2]), '#' + '.'.join(op[3]), val(op[4]), op[5] if len(op) > 5 else 0)
            elif k == 'DelOption':
                self.remove_option(conc, (op[1], op[2]), '#' + '.'.join(op[3]), op[4] if len(op) > 4 else 0)
            elif k == 'SetGlobal':
                conc.set_global_variable(op[1], val(op[2]))
            elif k == 'SetStage':
                conc.set_stage_variable(op[1], op[2], val(op[3]))
            elif k == 'SetPlatGlobal':
                conc.set_platform_global_variable(op[2], val(op[3]), op[1])
            elif k == 'SetPlatStage':
                conc.set_platform_stage_variable(op[2], op[3], val(op[4]), op[1])
            elif k == 'RefPlatGlobal':
                conc.get_platform_global_variables(op[1], return_copy=False)[op[2]] = val(op[3])
            elif k == 'RefPlatStage':
                conc.get_platform_stage_variables(op[2], op[1], return_copy=False)[op[3]] = val(op[4])
            elif k == 'AddComp':
                conc.add_component(val(op[1]))
            elif k == 'ReplaceComp':
                conc.update_component((op[1], op[2]), val(op[3]))
            elif k == 'DelComp':
                conc.delete_component((op[1], op[2]))
            else:
                raise ValueError('unknown operation %r' % (k,))
        except Exception as e:
            if isinstance(e, ValueError) and str(e).startswith('unknown operation'):
                raise
            return self.exc(e)
        return ['done']


def scramble(r):
    """change, in place and at every depth, a configuration the object handed out"""
    if not isinstance(r, dict):
        return
    for k in list(r):
        v = r[k]
        if isinstance(v, dict):
            scramble(v)
            v['MUTATED'] = 'by-caller'
        elif isinstance(v, list):
            v.append('MUTATED')
        else:
            r[k] = 'MUTATED-%s' % k
    r.pop('name', None)
    r.setdefault('variables', {})['x'] = 'MUTATED-x'


# ------------------------------------------------------------------ Coq terms
def c_op(op):
    k = op[0]
    if k == 'Query':
        return '(Query %s %s %s)' % (cstr(op[1]), cZ(op[2]), cstr(op[3]))
    if k == 'MutateResult':
        return 'MutateResult'
    if k == 'SetCompVar':
        return '(SetCompVar %s %s %s %s)' % (cZ(op[1]), cstr(op[2]), cstr(op[3]), cjv(op[4]))
    if k == 'DelCompVar':
        return '(DelCompVar %s %s %s)' % (cZ(op[1]), cstr(op[2]), cstr(op[3]))
    if k == 'SetOption':
        return '(SetOption %s %s %s %s)' % (cZ(op[1]), cstr(op[2]), clist(op[3], cstr), cjv(op[4]))
    if k == 'DelOption':
        return '(DelOption %s %s %s)' % (cZ(op[1]), cstr(op[2]), clist(op[3], cstr))
    if k == 'SetGlobal':
        return '(SetGlobal %s %s)' % (cstr(op[1]), cjv(op[2]))
    if k == 'SetStage':
        return '(SetStage %s %s %s)' % (cZ(op[1]), cstr(op[2]), cjv(op[3]))
    if k in ('SetPlatGlobal', 'RefPlatGlobal'):
        return '(%s %s %s %s)' % (k, cstr(op[1]), cstr(op[2]), cjv(op[3]))
    if k in ('SetPlatStage', 'RefPlatStage'):
        return '(%s %s %s %s %s)' % (k, cstr(op[1]), cZ(op[2]), cstr(op[3]), cjv(op[4]))
    if k == 'AddComp':
        return '(AddComp %s)' % cjv(op[1])
    if k == 'ReplaceComp':
        return '(ReplaceComp %s %s %s)' % (cZ(op[1]), cstr(op[2]), cjv(op[3]))
    if k == 'DelComp':
        return '(DelComp %s %s)' % (cZ(op[1]), cstr(op[2]))
    raise ValueError(k)


def diff(base, w, pre, out):
    """patch turning base into w: (path, value) = subtree replaced, (path, None-marker) = key removed"""
    if isinstance(base, dict) and isinstance(w, dict) and (w or not base):
        for k in w:
            if k not in base:
                out.append((pre + [k], ('set', w[k])))
            elif canon(base[k]) != canon(w[k]) or type(base[k]) != type(w[k]):
                diff(base[k], w[k], pre + [k], out)
        for k in base:
            if k not in w:
                out.append((pre + [k], ('del',)))
    else:
        out.append((pre, ('set', w)))
    return out


def patched(base, patch):
    """Python mirror of Cache.Model.apply_patch (self-check of the encoding)"""
    v = copy.deepcopy(base)
    for path, what in patch:
        if not path:
            v = copy.deepcopy(what[1])
            continue
        cur = v
        for k in path[:-1]:
            if not isinstance(cur.get(k), dict):
                cur[k] = {}
            cur = cur[k]
        if what[0] == 'set':
            cur[path[-1]] = copy.deepcopy(what[1])
        else:
            cur.pop(path[-1], None)
    return v


def c_iobs(o, same, base):
    if o[0] == 'done':
        return 'IDone'
    if o[0] == 'exc':
        return '(IExc %s %s)' % (cstr(o[1]), cstr(o[2]))
    if same is not None:
        return '(ISame %s)' % cnat(same)
    v = dict(o[1])
    v.pop('override', None)
    patch = diff(base, v, [], [])
    if any(not p for p, _w in patch) or canon(patched(base, patch)) != canon(v):
        return '(IVal %s)' % cjv(v)
    return '(IPatch %s)' % clist(patch, lambda pw: '(%s, %s)' % (
        clist([str(k) for k in pw[0]], cstr), 'None' if pw[1][0] == 'del' else '(Some %s)' % cjv(pw[1][1])))


def case_term(raw0, ops, obs, keys, base):
    vals = {}
    items = []
    for i, (o, ks) in enumerate(zip(obs, keys)):
        same = None
        if o[0] == 'val':
            v = dict(o[1])
            v.pop('override', None)
            c = canon(v)
            if c in vals:
                same = vals[c]
            else:
                vals[c] = i
        items.append('(%s, %s)' % (c_iobs(o, same, base), clist(ks, cstr)))
    return '((DFLT, BASE, (%s, %s, %s), %s, %s) : case)' % (
        cjv(raw0.get('blueprint') or {}), cjv(raw0.get('variables') or {}), clist(raw0.get('components') or [], cjv),
        clist(ops, c_op), clist(items))


# ------------------------------------------------------------------ one history on the real object
def classes_of(case):
    cl = []
    if any(op[0] == 'Query' and ':' in op[1] for op in case['ops']):
        cl.append('platform_name_contains_colon')
    return cl


def play(drv, case, upto=None):
    """run the history; returns (raw document after construction, observations, cache labels after each operation,
    failures [(index, text)])"""
    conc = drv.new(case['doc'], case['active'])
    raw0 = conc.raw()
    obs, keys, fails = [], [], []
    state = {}
    for i, op in enumerate(case['ops'][:upto]):
        o = drv.apply(conc, op, state)
        obs.append(o)
        keys.append(sorted(conc._cache.keys()))
        if op[0] == 'Query':
            # the property predicate: the same question asked of an object built from scratch from the description
            fresh = drv.new(conc.raw(), case['active'])
            fo, _ = drv.query(fresh, op[1], op[2], op[3])
            if canon(fo) != canon(o):
                what = ('a query after %s returns %s although the current description resolves to %s'
                        % (last_mutator(case['ops'][:i]), brief(o, fo), brief(fo, o)))
                fails.append((i, what))
    return raw0, obs, keys, fails


def last_mutator(ops):
    for op in reversed(ops):
        if op[0] not in ('Query',):
            return op[0]
    return 'construction'


def brief(o, other):
    if o[0] == 'exc':
        return 'exception %s' % o[1]
    if other[0] != 'val':
        return 'a configuration'
    d = [k for k in sorted(set(o[1]) | set(other[1])) if canon(o[1].get(k)) != canon(other[1].get(k))]
    return 'a configuration with another %s' % '/'.join(d[:3])


def shrink(drv, case, idx, what):
    """greedy: cut after the failing query, then drop operations while the same failure remains"""
    ops = case['ops'][:idx + 1]
    cur = dict(case, ops=ops)

    def still(c):
        try:
            _r, _o, _k, fl = play(drv, c)
        except Exception:
            return False
        return any(w == what for _i, w in fl)
    changed = True
    budget = 200
    while changed and budget > 0:
        changed = False
        for j in range(len(cur['ops']) - 1):
            budget -= 1
            cand = dict(cur, ops=cur['ops'][:j] + cur['ops'][j + 1:])
            if still(cand):
                cur = cand
                changed = True
                break
    return cur


def explore(ctx, cases):
    drv = Driver()
    dflt = drv.dflt()
    base = drv.F.FlowIR.inject_default_values_to_component({})
    terms, kept = [], []
    for case in cases:
        raw0, obs, keys, fails = play(drv, case)
        cls = classes_of(case)
        seen = set()
        for idx, what in fails:
            if what in seen:
                continue
            seen.add(what)
            small = shrink(drv, case, idx, what) if (not cls and len(ctx.failures) < 6) else dict(case, ops=case['ops'][:idx + 1])
            ctx.fail({'doc': small['doc'], 'active': small['active'], 'ops': small['ops'],
                      'stream': case.get('stream')}, what, cls)
        ops = case['ops']
        nq = sum(1 for op in ops if op[0] == 'Query')
        hits = 0
        stale_chance = 0
        prev = []
        for i, op in enumerate(ops):
            if op[0] == 'Query':
                lab = 'component:%s:stage%s:%s' % (op[1], op[2], op[3])
                if i > 0 and lab in keys[i - 1]:
                    hits += 1
                elif i == 0:
                    pass
            elif op[0] != 'MutateResult' and i > 0 and keys[i - 1]:
                stale_chance += 1       # a mutator ran while the cache held entries
        nontrivial = stale_chance >= 1 and nq >= 2
        ctx.case([case['doc'], case['active'], ops], nontrivial)
        ctx.count('stream=' + str(case.get('stream')))
        ctx.count('length=%s' % ('1-5' if len(ops) <= 5 else '6-15' if len(ops) <= 15 else '16-30' if len(ops) <= 30 else '31+'))
        ctx.count('queries', nq)
        ctx.count('cache_hits', hits)
        ctx.count('mutators_run_on_warm_cache', stale_chance)
        for op, o in zip(ops, obs):
            ctx.count('op=' + op[0])
            if op[0] == 'Query':
                ctx.count('query_outcome=' + ('ok' if o[0] == 'val' else o[1]))
            elif o[0] == 'exc':
                ctx.count('mutator_error=%s:%s' % (op[0], o[1]))
        if len(ctx.samples) < 3 and nontrivial and 4 <= len(ops) <= 9 and case.get('stream') != 'exhaustive':
            ctx.sample({'doc': case['doc'], 'active': case['active'], 'ops': ops,
                        'labels_after_each_op': keys,
                        'observations': [o if o[0] != 'val' else ['val', o[1].get('command')] for o in obs]})
        if case.get('stream') == 'interpreter':
            continue            # predicate only (see interpreter_cases)
        terms.append(case_term(raw0, ops, obs, keys, base))
        kept.append((case, obs, keys))
    header = HEADER + '\nDefinition DFLT : jv := %s.\nDefinition BASE : jv := %s.' % (cjv(dflt), cjv(base))
    bad = ctx.model_mismatches(header, terms, 'check_case', chunk=150, name='model')
    for k, i in enumerate(bad):
        case, obs, keys = kept[i]
        model = ''
        if k < 2:
            model = ctx.model_eval(header, 'first_bad %s' % terms[i])[-1500:]
        ctx.disagree({'doc': case['doc'], 'active': case['active'], 'ops': case['ops'], 'stream': case.get('stream')},
                     {'observations': [o if o[0] != 'val' else ['val', {kk: vv for kk, vv in o[1].items()
                                                                        if kk in ('command', 'variables')}] for o in obs],
                      'labels': keys}, model,
                     'C08 live FlowIRConcrete history (observations + cache labels) vs Cache.Model.trace')
    return kept


# ------------------------------------------------------------------ the label matchers against re
def matcher_check(ctx, n):
    """lit_matches against the real invalidate_cache_for_component (a cache preloaded with one label), and
    pinned_matches against the pattern of the pinned code for names made of literal characters and single `+`"""
    rng = ctx.rng
    drv = Driver()
    conc = drv.new({'components': []}, 'default')
    terms, kept = [], []
    chars = 'ab+.:(1*?$^[]{}|\\ -_\n'
    for _ in range(n):
        pinned = rng.random() < 0.35
        s = rng.choice([0, 1, 10, 2, 11])
        if pinned:
            name = ''
            for _k in range(rng.randrange(1, 6)):
                name += rng.choice('ab1:')
                if rng.random() < 0.35:
                    name += '+'
            plat = rng.choice(['p', 'q1', 'a+', 'x:stage1:ab', 'default'])
        else:
            name = rng.choice(META_NAMES + PREFIX_NAMES) if rng.random() < 0.5 else \
                ''.join(rng.choice(chars) for _k in range(rng.randrange(1, 7)))
            plat = rng.choice(['p', 'p.q', 'a+', 'p\nq', 'default', 'x:stage1:ab', 'p:stage0:x'])
        r = rng.random()
        stage2 = s if r < 0.7 else rng.choice([0, 1, 10, 11, 100])
        if r < 0.25:
            lab_name = name
        elif r < 0.4:
            lab_name = name + rng.choice(['1', '0', 'x', '+', ':stage1:foo'])
        elif r < 0.5:
            lab_name = name[:-1]
        elif r < 0.75 and pinned:
            # a text the name matches when read as a regular expression: repeat the characters under `+`
            lab_name = re.sub(r'(.)\+', lambda m: m.group(1) * rng.randrange(1, 4), name)
        elif r < 0.85:
            lab_name = name.replace('+', '')
        else:
            lab_name = ''.join(rng.choice('ab+1:') for _k in range(rng.randrange(0, 6)))
        label = 'component:%s:stage%s:%s' % (plat, stage2, lab_name)
        if rng.random() < 0.05:
            label = label[1:]
        if pinned:
            expect = re.compile(r'component:.*:stage%s:%s' % (s, name)).match(label) is not None
        else:
            conc._cache.clear()
            conc._cache[label] = {}
            try:
                conc.invalidate_cache_for_component((s, name))
            except Exception as e:
                # (the pinned code: a name that is not a well-formed regular expression)
                ctx.disagree({'matcher': 'repaired', 'stage': s, 'name': name, 'label': label},
                             'exception %s' % type(e).__name__, 'no exception',
                             'C08 invalidate_cache_for_component vs Cache.Model.lit_matches')
                continue
            expect = label not in conc._cache.keys()
        terms.append('(%s, %s, %s, %s, %s)' % ('true' if pinned else 'false', cZ(s), cstr(name), cstr(label),
                                                'true' if expect else 'false'))
        kept.append((pinned, s, name, label, expect))
        ctx.count('matcher=%s:%s' % ('pinned' if pinned else 'repaired', 'match' if expect else 'no-match'))
    bad = ctx.model_mismatches(HEADER, terms, 'check_matcher', chunk=400, name='matcher')
    for i in bad:
        pinned, s, name, label, expect = kept[i]
        ctx.disagree({'matcher': 'pinned' if pinned else 'repaired', 'stage': s, 'name': name, 'label': label},
                     expect, (not expect), 'C08 invalidation pattern (re.match) vs Cache.Model.%s'
                     % ('pinned_matches' if pinned else 'lit_matches'))


# ------------------------------------------------------------------ case sources
def corpus_cases():
    out = []
    for p in sorted(glob.glob(os.path.join(CORPUS, '*.json'))):
        c = fix_stage_keys(json.load(open(p)))
        c['stream'] = 'corpus:' + os.path.basename(p)
        out.append(c)
    return out


EX_DOC = {'platforms': ['default', 'p'],
          'variables': {'default': {'global': {'g': 'G0', 'n': 2, 'y': 'Y0'}, 'stages': {0: {'y': 'Ys0'}}},
                        'p': {'global': {'g': 'GP'}}},
          'components': [
              {'name': 'foo', 'stage': 0, 'command': {'executable': 'e', 'arguments': '%(x)s %(g)s %(y)s'},
               'variables': {'x': 'x-foo'}},
              {'name': 'foo1', 'stage': 0, 'command': {'executable': 'e1', 'arguments': '%(x)s %(g)s'},
               'variables': {'x': 'x-foo1'}, 'override': {'p': {'command': {'arguments': 'ov %(x)s'}}}}]}
EX_ALPHABET = [
    ['Query', 'p', 0, 'foo'],
    ['Query', 'default', 0, 'foo'],
    ['Query', 'p', 0, 'foo1'],
    ['SetCompVar', 0, 'foo', 'x', 'x-new', 0],
    ['DelCompVar', 0, 'foo', 'x', 0],
    ['SetOption', 0, 'foo1', ['command', 'arguments'], 'args %(x)s %(y)s', 0],
    ['SetPlatGlobal', 'p', 'g', 'GP-new'],
    ['SetStage', 0, 'y', 'Ys0-new'],
    ['DelComp', 0, 'foo'],
    ['AddComp', {'name': 'foo', 'stage': 0, 'command': {'executable': 'e2', 'arguments': 'added %(g)s'}, 'variables': {}}],
    ['ReplaceComp', 0, 'foo1', {'name': 'foo1', 'stage': 0, 'command': {'executable': 'r', 'arguments': 'repl %(x)s'},
                                'variables': {'x': 'x-repl'}}],
    ['MutateResult'],
]
EX_SWEEP = [['Query', 'p', 0, 'foo'], ['Query', 'default', 0, 'foo'], ['Query', 'p', 0, 'foo1'], ['Query', 'default', 0, 'foo1']]


def exhaustive_cases(maxlen):
    out = []
    for L in range(1, maxlen + 1):
        for seq in itertools.product(EX_ALPHABET, repeat=L):
            out.append({'doc': EX_DOC, 'active': 'p', 'ops': [copy.deepcopy(o) for o in seq] + EX_SWEEP,
                        'stream': 'exhaustive'})
    return out


def random_cases(rng, n, stream):
    out = []
    for _ in range(n):
        doc, plats, ids = gen_doc(rng, stream)
        r = rng.random()
        nops = rng.randrange(1, 8) if r < 0.2 else rng.randrange(8, 25) if r < 0.75 else rng.randrange(25, 41)
        out.append({'doc': doc, 'active': rng.choice(plats), 'ops': gen_ops(rng, plats, ids, nops, stream), 'stream': stream})
    return out


def interpreter_cases(rng, n):
    """components run through an interpreter: their resolved configuration gets a final fix-up (arguments are never
    expanded) that the Coq model does not interpret, so these histories are checked against the from-scratch
    answer only (the property predicate), not against the model"""
    out = []
    for _ in range(n):
        doc, plats, ids = gen_doc(rng, 'prefix')
        for c in doc['components']:
            if rng.random() < 0.7:
                c.setdefault('command', {})['interpreter'] = rng.choice(['bash', 'javascript'])
        nops = rng.randrange(4, 20)
        out.append({'doc': doc, 'active': rng.choice(plats), 'ops': gen_ops(rng, plats, ids, nops, 'prefix'),
                    'stream': 'interpreter'})
    return out


def run(ctx):
    ctx.rule = ('histories of 1-40 operations (15 kinds: 13 mutators, query, in-place mutation of the returned '
                'configuration; ~40% queries at random positions) on a live FlowIRConcrete over documents with 3 '
                'platforms, 2-4 components at stages 0/1/10 whose names are prefixes of each other (foo/foo1/foo10/fo, '
                'stage1 vs stage10), a separate stream with regular-expression metacharacters in component and platform '
                'names, a small stream with colons in platform names (open finding), the corpus, and every history of '
                'length <= 3 (thorough: 4) over a 12-operation alphabet followed by a sweep of 4 queries; non-trivial = '
                'at least two queries and at least one mutator executed while the cache held entries; distinct by '
                '(document, history)')
    rng = ctx.rng
    quick = ctx.tier == 'quick'
    cases = corpus_cases()
    ex = exhaustive_cases(3 if quick else 4)
    ctx.count('exhaustive_histories', len(ex))
    ctx.exhaustive = True
    ctx.extra['exhaustive_scope'] = 'all histories of length <= %d over %d operations (+ 4 final queries) on one document' % (
        3 if quick else 4, len(EX_ALPHABET))
    cases += ex
    cases += random_cases(rng, 420 if quick else 2500, 'prefix')
    cases += random_cases(rng, 200 if quick else 1200, 'meta')
    cases += random_cases(rng, 25 if quick else 100, 'colon')
    cases += interpreter_cases(rng, 120 if quick else 600)
    explore(ctx, cases)
    ctx.count('cases', len(cases))
    matcher_check(ctx, 1200 if quick else 6000)


def replay(ctx, path):
    d = json.load(open(path))
    c = d.get('case') or d.get('first', {}).get('case')
    if not isinstance(c, dict) or 'doc' not in c:
        print('replay file names no input (proof obligation): re-run ./check C08')
        return 2
    c = fix_stage_keys(c)
    explore(ctx, [c])
    for f in ctx.failures:
        print('REPRODUCED: %s' % f['what'])
    for f in ctx.disagreements:
        print('DISAGREEMENT: impl=%s model=%s' % (str(f['impl'])[:1500], str(f['model'])[-1500:]))
    return 1 if (ctx.failures or ctx.disagreements) else 0
